# Both-ways corpus for the checker (see plumpy_sa/selftest.py).  m(id, property, file, old, new, expect, names, note)
P = 'src/plumpy/processes.py'
PS = 'src/plumpy/process_states.py'
SM = 'src/plumpy/base/state_machine.py'
WC = 'src/plumpy/workchains.py'
FU = 'src/plumpy/futures.py'
CO = 'src/plumpy/communications.py'
PE = 'src/plumpy/persistence.py'
PO = 'src/plumpy/ports.py'
PC = 'src/plumpy/process_comms.py'
SP = 'src/plumpy/process_spec.py'
UT = 'src/plumpy/utils.py'
EV = 'src/plumpy/events.py'
EH = 'src/plumpy/event_helper.py'
MI = 'src/plumpy/mixins.py'
LO = 'src/plumpy/loaders.py'

# ------------------------------------------------------------------ C01
m('c01-allowed-extra-edge', 'C01', PS, "    LABEL = ProcessState.CREATED\n    ALLOWED = {ProcessState.RUNNING, ProcessState.KILLED, ProcessState.EXCEPTED}",
  "    LABEL = ProcessState.CREATED\n    ALLOWED = {ProcessState.RUNNING, ProcessState.KILLED, ProcessState.EXCEPTED, ProcessState.FINISHED}",
  'fire', 'Created', 'CREATED -> FINISHED added to the table')
m('c01-terminal-allows', 'C01', PS, "    LABEL = ProcessState.FINISHED\n", "    LABEL = ProcessState.FINISHED\n    ALLOWED = {ProcessState.RUNNING}\n", 'fire', 'Finished')
m('c01-drop-allowed-test', 'C01', SM, "        if next_state.LABEL not in self._state.ALLOWED:\n            raise RuntimeError(f'Cannot transition from {self._state.LABEL} to {next_state.label}')\n",
  "", 'fire', '_exit_current_state')
m('c01-allowed-test-logs-only', 'C01', SM, "            raise RuntimeError(f'Cannot transition from {self._state.LABEL} to {next_state.label}')",
  "            _LOGGER.warning('Cannot transition from %s to %s', self._state.LABEL, next_state.label)", 'fire', '_exit_current_state')
m('c01-kill-no-terminated-test', 'C01', P, "        if self.has_terminated():\n            # Can't kill\n            return False\n", "", 'fire', 'Process.kill')
m('c01-state-writer-in-process', 'C01', P, "        self.set_status(msg_txt)\n\n        # The kill may have been triggered",
  "        self.set_status(msg_txt)\n        self._state = self._state\n\n        # The kill may have been triggered", 'fire', 'on_kill')
m('c01-fail-unguarded-again', 'C01', P, "    @event(\n        from_states=(process_states.Created, process_states.Running, process_states.Waiting),\n        to_states=process_states.Excepted,\n    )",
  "    @event(to_states=process_states.Excepted)", 'fire', 'Process.fail', 'reverts the G2 fix')
m('c01-step-recheck-dropped', 'C01', P, "            if self.has_terminated():\n                # The process was terminated while the step was in flight (e.g. a scheduled callback failed it).\n                # A terminal state is final: there is nothing left to transition to.\n                return\n",
  "", 'fire', 'Process.step', 'reverts the G3 fix')
m('c01-guard-moved-before-await', 'C01', P, "        while self.paused and self._paused is not None:\n            # Wait until played. Checked again after waking up: the process may have been paused anew in the meantime\n            await self._paused\n",
  "        while self.paused and self._paused is not None:\n            # Wait until played. Checked again after waking up: the process may have been paused anew in the meantime\n            await self._paused\n            assert not self.has_terminated()\n", 'silent', None, 'extra assertion: harmless')
m('c01-skip-exit-on-second-enter', 'C01', SM, "                label = new_state.LABEL\n                self._exit_current_state(new_state)\n                self._enter_next_state(new_state)",
  "                label = new_state.LABEL\n                self._enter_next_state(new_state)", 'fire', 'transition_to')
m('c01-is-terminal-changed', 'C01', SM, "        return not cls.ALLOWED", "        return False", 'fire', 'is_terminal')
m('c01-silent-remove-state-exit-refusal', 'C01', SM, "        if self.is_terminal():\n            raise InvalidStateError(f'Cannot exit a terminal state {self.LABEL}')\n",
  "", 'silent', None, 'State.exit refusal is redundant with the ALLOWED test')
m('c01-silent-kill-guard-rewritten', 'C01', P, "        if self.has_terminated():\n            # Can't kill\n            return False\n",
  "        if self._state.is_terminal():\n            return False\n", 'silent', None, 'same guard, inlined')
m('c01-initial-state-not-created', 'C01', P, "            self.get_state_class(process_states.ProcessState.CREATED)(self, self.run),",
  "            self.get_state_class(process_states.ProcessState.RUNNING)(self, self.run),", 'fire', 'create_initial_state')
m('c01-pause-transition-after-await-free-helper', 'C01', P, "        msg = MessageBuilder.pause(msg_text)\n        return self._do_pause(state_msg=msg)",
  "        msg = MessageBuilder.pause(msg_text)\n        self.logger.debug('pausing')\n        return self._do_pause(state_msg=msg)", 'silent', None, 'added logging')

# ------------------------------------------------------------------ C04
m('c04-drop-killing-alias', 'C04', P, "            self._killing = self._interrupt_action\n            self._state.interrupt(interrupt_exception)",
  "            self._state.interrupt(interrupt_exception)", 'fire', 'Process.kill')
m('c04-drop-state-interrupt', 'C04', P, "            self._killing = self._interrupt_action\n            self._state.interrupt(interrupt_exception)\n",
  "            self._killing = self._interrupt_action\n", 'fire', 'Process.kill')
m('c04-stepping-test-first', 'C04', P, "        if self._killing:\n            # Already killing\n            return self._killing\n\n        if self._stepping:",
  "        if self._stepping and not self._killing:", 'fire', 'Process.kill', 'pending-kill early return lost: a second kill during a step transitions directly')
m('c04-drop-end-of-step-if', 'C04', P, "            if self._interrupt_action:\n                self._interrupt_action.run(next_state)\n            else:\n                # Everything nominal so transition to the next state\n                self.transition_to(next_state)",
  "            self.transition_to(next_state)", 'fire', 'Process.step')
m('c04-do-kill-drops-msg', 'C04', P, "new_state = self._create_state_instance(process_states.ProcessState.KILLED, msg=exception.msg)",
  "new_state = self._create_state_instance(process_states.ProcessState.KILLED, msg=None)", 'fire', 'do_kill')
m('c04-do-kill-wrong-label', 'C04', P, "new_state = self._create_state_instance(process_states.ProcessState.KILLED, msg=exception.msg)",
  "new_state = self._create_state_instance(process_states.ProcessState.EXCEPTED, exception=None)", 'fire', 'do_kill')
m('c04-kill-direct-while-stepping', 'C04', P, "        if self._stepping:\n            # Ask the step function to pause by setting this flag and giving the\n            # caller back a future\n            interrupt_exception = process_states.KillInterruption(msg_text)",
  "        if self._stepping and self._state.LABEL == process_states.ProcessState.WAITING:\n            interrupt_exception = process_states.KillInterruption(msg_text)", 'fire', 'Process.kill', 'direct kill in the middle of a running step')
m('c04-cancel-hook-removed', 'C04', P, "            self._future.add_done_callback(try_killing)", "            pass", 'fire', 'init')
m('c04-cancel-hook-inverted', 'C04', P, "                if future.cancelled():\n                    if not self.kill(", "                if not future.cancelled():\n                    if not self.kill(", 'fire', 'PAIR-cancel-hook')
m('c04-waiting-interrupt-noop', 'C04', PS, "        # This will cause the future in execute() to raise the exception\n        self._waiting_future.set_exception(reason)",
  "        pass", 'fire', 'Waiting.interrupt')
m('c04-running-swallows-interruption', 'C04', PS, "            except Interruption:\n                # Let this bubble up to the caller\n                raise\n            except Exception:",
  "            except Exception:", 'fire', 'Running.execute')
m('c04-created-not-killable', 'C04', PS, "    ALLOWED = {ProcessState.RUNNING, ProcessState.KILLED, ProcessState.EXCEPTED}", "    ALLOWED = {ProcessState.RUNNING, ProcessState.EXCEPTED}", 'fire', 'Created')
m('c04-extra-cancel-in-resume', 'C04', P, '        """Start running the process again."""\n        return self._state.resume(*args)',
  '        """Start running the process again."""\n        self._set_interrupt_action(None)\n        return self._state.resume(*args)', 'fire', 'Process.resume', 'a new site that cancels the pending kill')
m('c04-killing-not-reset', 'C04', P, "                    return True\n                finally:\n                    self._killing = None", "                    return True\n                finally:\n                    pass", 'fire', 'do_kill')
m('c04-silent-pause-no-terminated-test', 'C04', P, "        if self.has_terminated():\n            return False\n\n        if self.paused:", "        if self.paused:", 'silent', None, 'pause() refusing terminated processes is not needed by C04')
m('c04-kill-text-dropped', 'C04', P, "        msg = MessageBuilder.kill(msg_text)\n        new_state", "        msg = MessageBuilder.kill()\n        new_state", 'fire', 'Process.kill')

# ------------------------------------------------------------------ C06
m('c06-resume-unguarded', 'C06', PS, "        if self._waiting_future.done():\n            return\n\n        self._waiting_future.set_result(value)", "        self._waiting_future.set_result(value)", 'fire', 'Waiting.resume')
m('c06-resume-drops-args', 'C06', P, "        return self._state.resume(*args)  # type: ignore", "        return self._state.resume()  # type: ignore", 'fire', 'Process.resume')
m('c06-no-callback-registration', 'C06', WC, "        for awaitable in self._awaiting:\n            awaitable.add_done_callback(self._awaitable_done)", "        pass", 'fire', 'Waiting.enter')
m('c06-no-rearm', 'C06', PS, "            self._waiting_future = futures.Future()\n            raise", "            raise", 'fire', 'Waiting.execute')
m('c06-result-wrong-key', 'C06', WC, "            self.process.ctx[key] = awaitable.result()  # type: ignore", "            self.process.ctx['key'] = awaitable.result()  # type: ignore", 'fire', '_awaitable_done')
m('c06-value-always-forwarded', 'C06', PS, "        if result == NULL:\n            next_state = self.create_state(ProcessState.RUNNING, self.done_callback)\n        else:\n            next_state = self.create_state(ProcessState.RUNNING, self.done_callback, result)",
  "        next_state = self.create_state(ProcessState.RUNNING, self.done_callback, result)", 'fire', 'Waiting.execute')
m('c06-silent-exit-keeps-callbacks', 'C06', WC, "        for awaitable in self._awaiting:\n            awaitable.remove_done_callback(self._awaitable_done)", "        pass", 'silent', None, 'callback removal on exit is not required')

# ------------------------------------------------------------------ C13
m('c13-continue-kwargs-dropped', 'C13', PS, "command.continue_fn, *command.args, **command.kwargs)", "command.continue_fn, *command.args)", 'fire', '_action_command', 'reverts the G1 fix')
m('c13-wait-msg-dropped', 'C13', PS, "command.continue_fn, command.msg, command.data)", "command.continue_fn, None, command.data)", 'fire', '_action_command')
m('c13-wait-branch-removed', 'C13', PS, "        elif isinstance(command, Wait):\n            state = self.create_state(ProcessState.WAITING, command.continue_fn, command.msg, command.data)\n", "", 'fire', '_action_command')
m('c13-stop-to-killed', 'C13', PS, "state = self.create_state(ProcessState.FINISHED, command.result, command.successful)", "state = self.create_state(ProcessState.KILLED, command.result)", 'fire', '_action_command')
m('c13-unsuccessful-true', 'C13', PS, "result = Stop(result.result, False)", "result = Stop(result.result, True)", 'fire', 'Running.execute')
m('c13-created-drops-kwargs', 'C13', PS, "return self.create_state(ProcessState.RUNNING, self.run_fn, *self.args, **self.kwargs)", "return self.create_state(ProcessState.RUNNING, self.run_fn, *self.args)", 'fire', 'Created.execute')
m('c13-running-args-not-persisted', 'C13', PS, "@auto_persist('args', 'kwargs')\nclass Running(State):", "@auto_persist('args')\nclass Running(State):", 'fire', 'Running')
m('c13-runfn-key-mismatch', 'C13', PS, "        self.run_fn = ensure_coroutine(getattr(self.process, saved_state[self.RUN_FN]))", "        self.run_fn = ensure_coroutine(getattr(self.process, saved_state['run_function']))", 'fire', 'Running')
m('c13-silent-local-rename', 'C13', PS, "        next_state = self._action_command(command)\n        return next_state", "        return self._action_command(command)", 'silent')
m('c13-kwargs-as-positional', 'C13', PS, "*command.args, **command.kwargs)", "*command.args, command.kwargs)", 'fire', '_action_command')

# ------------------------------------------------------------------ C20
m('c20-unwrap-no-cancel-test', 'C20', FU, "        if fut.cancelled():\n            unwrapping.cancel()\n        else:\n            with kiwipy.capture_exceptions(unwrapping):\n                result = fut.result()\n                if isinstance(result, kiwipy.Future):\n                    result.add_done_callback(unwrap)\n                else:\n                    unwrapping.set_result(result)",
  "        with kiwipy.capture_exceptions(unwrapping):\n            result = fut.result()\n            if isinstance(result, kiwipy.Future):\n                result.add_done_callback(unwrap)\n            else:\n                unwrapping.set_result(result)", 'fire', 'unwrap')
m('c20-resolve-twice', 'C20', FU, "                raise\n            future.set_result(res)", "                raise\n            future.set_result(res)\n        future.set_result(None)", 'fire', 'run_task')
m('c20-run-no-done-guard', 'C20', FU, "        if self.done():\n            raise InvalidStateError('Action has already been ran')\n", "", 'fire', 'CancellableAction.run')
m('c20-run-no-capture', 'C20', FU, "            with kiwipy.capture_exceptions(self):\n                self.set_result(self._action(*args, **kwargs))", "            self.set_result(self._action(*args, **kwargs))", 'fire', 'CancellableAction.run')
m('c20-on-done-drops-nested', 'C20', CO, "                if isinstance(result, futures.Future):\n                    result = plum_to_kiwi_future(result)\n", "", 'fire', 'on_done')
m('c20-unwrap-forgets-value', 'C20', FU, "                else:\n                    unwrapping.set_result(result)", "                else:\n                    pass", 'fire', 'unwrap')
m('c20-rpc-drops-kwargs', 'C20', P, "                    result = callback(*args, **kwargs)", "                    result = callback(*args)", 'fire', 'run_callback')
m('c20-silent-rename', 'C20', FU, "                res = await coro()\n            except asyncio.CancelledError:\n                # A cancellation is not an ``Exception`` and is therefore not captured: report it through the future\n                # instead of leaving whoever waits on it hanging\n                future.cancel()\n                raise\n            future.set_result(res)", "                outcome = await coro()\n            except asyncio.CancelledError:\n                # A cancellation is not an ``Exception`` and is therefore not captured: report it through the future\n                # instead of leaving whoever waits on it hanging\n                future.cancel()\n                raise\n            future.set_result(outcome)", 'silent')

# ------------------------------------------------------------------ C02
m('c02-no-close-on-terminated', 'C02', P, "            self._paused = None\n        self.close()", "            self._paused = None", 'fire', 'on_terminated')
m('c02-killed-event-twice', 'C02', P, "        self._fire_event(ProcessListener.on_process_killed, self.killed_msg())", "        self._fire_event(ProcessListener.on_process_killed, self.killed_msg())\n        self._fire_event(ProcessListener.on_process_killed, self.killed_msg())", 'fire', 'on_killed')
m('c02-finish-sets-result', 'C02', P, "        self.future().set_result(self.outputs)", "        self.future().set_result(result)", 'fire', 'on_finish')
m('c02-result-swapped', 'C02', P, "            return self._state.result\n        if isinstance(self._state, process_states.Killed):", "            return self._state.successful\n        if isinstance(self._state, process_states.Killed):", 'fire', 'Process.result')
m('c02-no-release-on-termination', 'C02', P, "        if self._paused is not None:\n            # Release a stepping task that is blocked on the pause: a terminated process has nothing left to step\n            if not self._paused.done():\n                self._paused.set_result(True)\n            self._paused = None\n", "", 'fire', 'Process.step', 'reverts the G4 fix')
m('c02-entering-finished-branch-gone', 'C02', P, "        elif state_label == process_states.ProcessState.FINISHED:\n            call_with_super_check(self.on_finish, state.result, state.successful)  # type: ignore\n", "", 'fire', 'on_entering')
m('c02-killed-hook-swapped', 'C02', P, "            call_with_super_check(self.on_excepted)\n        elif state_label == process_states.ProcessState.KILLED:\n            call_with_super_check(self.on_killed)", "            call_with_super_check(self.on_killed)\n        elif state_label == process_states.ProcessState.KILLED:\n            call_with_super_check(self.on_excepted)", 'fire', 'on_entered')
m('c02-future-resolved-in-on_run', 'C02', P, '        """Entering the RUNNING state."""\n', '        """Entering the RUNNING state."""\n        if not self._future.done():\n            self._future.set_result(None)\n', 'fire', 'on_run')
m('c02-on-terminated-only-if-not-failing', 'C02', SM, "            if self._state is not None and self._state.is_terminal():\n                call_with_super_check(self.on_terminated)", "            if self._state is not None and self._state.is_terminal() and not self._transition_failing:\n                call_with_super_check(self.on_terminated)", 'fire', 'transition_to')
m('c02-silent-drop-per-cleanup-handler', 'C02', P, "                try:\n                    cleanup()\n                except Exception:\n                    self.logger.exception('Process<%s>: Exception calling cleanup method %s', self.pid, cleanup)", "                cleanup()", 'fire', 'on_close', 'a failing cleanup would keep the remaining ones from running')
m('c02-silent-close-guard-removed', 'C02', P, "        if self._closed:\n            return\n\n        call_with_super_check(self.on_close)", "        call_with_super_check(self.on_close)", 'silent', None, 'on_close consumes the list: still at most once')
m('c02-both-once-defences-removed', 'C02', P, "            self._cleanups = None\n        finally:", "        finally:", 'silent', None, 'close() guard alone still suffices')
m('c02-except-arg-wrong', 'C02', P, "        exception = exc_info[1]\n        exception.__traceback__", "        exception = RuntimeError('process excepted')\n        exception.__traceback__", 'fire', 'on_except')
m('c02-excepted-reports-repr', 'C02', P, "ProcessListener.on_process_excepted, str(self.future().exception()))", "ProcessListener.on_process_excepted, self.killed_msg())", 'fire', 'on_excepted')

# ------------------------------------------------------------------ C05
m('c05-no-gate', 'C05', P, "        while self.paused and self._paused is not None:\n            # Wait until played. Checked again after waking up: the process may have been paused anew in the meantime\n            await self._paused\n", "", 'fire', 'Process.step')
m('c05-gate-after-execute', 'C05', P, "        while self.paused and self._paused is not None:\n            # Wait until played. Checked again after waking up: the process may have been paused anew in the meantime\n            await self._paused\n\n        try:\n            self._stepping = True\n            next_state = None\n            try:\n                next_state = await self._run_task(self._state.execute)",
  "        try:\n            self._stepping = True\n            next_state = None\n            try:\n                next_state = await self._run_task(self._state.execute)\n                if self.paused and self._paused is not None:\n                    await self._paused", 'fire', 'Process.step')
m('c05-status-clobbered', 'C05', P, "        self._pre_paused_status = self.status\n        if msg is not None:\n            self.set_status(msg)", "        if msg is not None:\n            self.set_status(msg)\n        self._pre_paused_status = self.status", 'fire', 'on_paused')
m('c05-do-pause-drops-step', 'C05', P, "            if next_state is not None:\n                self.transition_to(next_state)\n\n            if state_msg is None:", "            if state_msg is None:", 'fire', '_do_pause')
m('c05-pause-while-stepping-immediate', 'C05', P, "        if self._stepping:\n            # Ask the step function to pause by setting this flag and giving the\n            # caller back a future\n            interrupt_exception = process_states.PauseInterruption(msg_text)",
  "        if self._stepping and self._state.LABEL == process_states.ProcessState.WAITING:\n            interrupt_exception = process_states.PauseInterruption(msg_text)", 'fire', 'Process.pause')
m('c05-play-keeps-paused', 'C05', P, "        if self._paused is not None:\n            self._paused.set_result(True)\n        self._paused = None\n\n        self.set_status", "        if self._paused is not None:\n            self._paused.set_result(True)\n\n        self.set_status", 'fire', 'on_playing')
m('c05-play-no-cancel', 'C05', P, "                self._pausing.cancel()\n                self._pausing = None", "                self._pausing = None", 'fire', 'Process.play')
m('c05-status-not-restored', 'C05', P, "        self.set_status(self._pre_paused_status)\n        self._pre_paused_status = None", "        self._pre_paused_status = None", 'fire', 'on_playing')
m('c05-silent-hooks-before-transition', 'C05', P, "            if next_state is not None:\n                self.transition_to(next_state)\n\n            if state_msg is None:\n                msg_text = ''\n            else:\n                msg_text = state_msg[MESSAGE_TEXT_KEY]\n\n            call_with_super_check(self.on_pausing, msg_text)\n            call_with_super_check(self.on_paused, msg_text)",
  "            if state_msg is None:\n                msg_text = ''\n            else:\n                msg_text = state_msg[MESSAGE_TEXT_KEY]\n\n            call_with_super_check(self.on_pausing, msg_text)\n            call_with_super_check(self.on_paused, msg_text)\n            if next_state is not None:\n                self.transition_to(next_state)", 'silent', None, 'order of hooks vs transition is immaterial')
m('c05-double-pause-allowed', 'C05', P, "        if self.paused:\n            # Already paused\n            return True\n", "", 'fire', 'Process.pause')
m('c05-partial-wrong-order', 'C05', P, "do_pause = functools.partial(self._do_pause, exception.msg)", "do_pause = functools.partial(self._do_pause, next_state=None, state_msg=exception.msg)", 'fire', '_create_interrupt_action')
m('c05-no-rearm', 'C05', PS, "            self._waiting_future = futures.Future()\n            raise", "            raise", 'fire', 'Waiting.execute')

# ------------------------------------------------------------------ C07
m('c07-drop-status-member', 'C07', P, "    '_status',\n    '_pre_paused_status',", "    '_pre_paused_status',", 'fire', '_status')
m('c07-outputs-key-renamed-on-load', 'C07', P, "            decoded = self.decode_input_args(saved_state[BundleKeys.OUTPUTS])", "            decoded = self.decode_input_args(saved_state['outputs'])", 'fire', 'load_instance_state')
m('c07-raw-inputs-loaded-into-parsed', 'C07', P, "            decoded = self.decode_input_args(saved_state[BundleKeys.INPUTS_RAW])\n            self._raw_inputs = utils.AttributesFrozendict(decoded)",
  "            decoded = self.decode_input_args(saved_state[BundleKeys.INPUTS_RAW])\n            self._parsed_inputs = utils.AttributesFrozendict(decoded)", 'fire', '_raw_inputs')
m('c07-no-deepcopy-in-save-members', 'C07', PE, "            else:\n                value = copy.deepcopy(value)\n            out_state[member] = value", "            out_state[member] = value", 'fire', 'save_members')
m('c07-encode-no-copy', 'C07', P, "        return copy.deepcopy(inputs)", "        return inputs", 'fire', 'encode_input_args')
m('c07-waiting-load-skips-super', 'C07', PS, "        super().load_instance_state(saved_state, load_context)\n        callback_name = saved_state.get(self.DONE_CALLBACK, None)", "        callback_name = saved_state.get(self.DONE_CALLBACK, None)", 'fire', 'Waiting.load_instance_state')
m('c07-future-default-after-restore', 'C07', P, "        self._state: process_states.State = self.recreate_state(saved_state['_state'])\n", "        self._state: process_states.State = self.recreate_state(saved_state['_state'])\n", 'silent', None, 'identity edit')
m('c07-future-clobbered', 'C07', P, "        super().load_instance_state(saved_state, load_context)\n\n        # Inputs/outputs\n        try:", "        super().load_instance_state(saved_state, load_context)\n        self._future = persistence.SavableFuture()\n\n        # Inputs/outputs\n        try:", 'fire', '_future')
m('c07-bundle-tag-mismatch', 'C07', PE, "    return dumper.represent_mapping(_BUNDLE_TAG, node)", "    return dumper.represent_mapping('!plumpy:bundle', node)", 'fire', '_bundle_representer')
m('c07-state-not-saved', 'C07', P, "        out_state['_state'] = self._state.save()\n", "", 'fire', '_state')
m('c07-excepted-traceback-key', 'C07', PS, "            out_state[self.TRACEBACK] = ''.join(traceback.format_tb(self.traceback))", "            out_state['tb'] = ''.join(traceback.format_tb(self.traceback))", 'fire', 'Excepted')
m('c07-context-guard-dropped', 'C07', P, "        if 'communicator' in load_context:\n            self._communicator = load_context.communicator", "        self._communicator = load_context.communicator", 'fire', 'load_instance_state', 'loading with an empty context would raise AttributeError')
m('c07-silent-new-runtime-attribute', 'C07', P, "        self._uuid: Optional[uuid.UUID] = None", "        self._uuid: Optional[uuid.UUID] = None\n        self._cache: dict = {}", 'silent', None, 'added runtime-only attribute must not alarm')
m('c07-awaiting-not-persisted', 'C07', WC, "@persistence.auto_persist('_awaiting')\nclass Waiting", "class Waiting", 'fire', '_awaiting')
m('c07-listener-params-dropped', 'C07', 'src/plumpy/process_listener.py', "@persistence.auto_persist('_params')", "@persistence.auto_persist()", 'fire', '_params')

# ------------------------------------------------------------------ C08
m('c08-block-child-index-0', 'C08', WC, "            self._child_stepper = self._block[self._pos].recreate_stepper(stepper_state, self._workchain)", "            self._child_stepper = self._block[0].recreate_stepper(stepper_state, self._workchain)", 'fire', '_BlockStepper')
m('c08-pos-not-persisted', 'C08', WC, "@persistence.auto_persist('_pos')\nclass _BlockStepper", "class _BlockStepper", 'fire', '_BlockStepper')
m('c08-if-child-wrong-branch', 'C08', WC, "self._if_instruction[self._pos].body.recreate_stepper(stepper_state, self._workchain)", "self._if_instruction[0].body.recreate_stepper(stepper_state, self._workchain)", 'fire', '_IfStepper')
m('c08-while-child-key-mismatch', 'C08', WC, "            out_state[STEPPER_STATE] = self._child_stepper.save()\n\n    def load_instance_state(self, saved_state: SAVED_STATE_TYPE, load_context: persistence.LoadSaveContext) -> None:\n        super().load_instance_state(saved_state, load_context)\n        self._while_instruction",
  "            out_state['child'] = self._child_stepper.save()\n\n    def load_instance_state(self, saved_state: SAVED_STATE_TYPE, load_context: persistence.LoadSaveContext) -> None:\n        super().load_instance_state(saved_state, load_context)\n        self._while_instruction", 'fire', '_WhileStepper')
m('c08-recreate-wrong-class', 'C08', WC, "        return cast(_WhileStepper, _WhileStepper.recreate_from(saved_state, load_context))", "        return cast(_WhileStepper, _IfStepper.recreate_from(saved_state, load_context))", 'fire', '_While')
m('c08-context-kw-renamed', 'C08', WC, "load_context = persistence.LoadSaveContext(workchain=workchain, if_instruction=self)", "load_context = persistence.LoadSaveContext(workchain=workchain, instruction=self)", 'fire', '_If')
m('c08-pos-used-before-super', 'C08', WC, "        super().load_instance_state(saved_state, load_context)\n        self._block = load_context.block_instruction\n        stepper_state = saved_state.get(STEPPER_STATE, None)\n        self._child_stepper = None\n        if stepper_state is not None:\n            self._child_stepper = self._block[self._pos].recreate_stepper(stepper_state, self._workchain)",
  "        self._block = load_context.block_instruction\n        self._workchain = load_context.workchain\n        self._pos = 0\n        stepper_state = saved_state.get(STEPPER_STATE, None)\n        self._child_stepper = None\n        if stepper_state is not None:\n            self._child_stepper = self._block[self._pos].recreate_stepper(stepper_state, self._workchain)\n        super().load_instance_state(saved_state, load_context)", 'fire', '_BlockStepper')
m('c08-fn-not-saved', 'C08', WC, "        out_state['_fn'] = self._fn.__name__", "        out_state['fn'] = self._fn.__name__", 'fire', '_FunctionStepper')
m('c08-stepper-not-recreated', 'C08', WC, "            self._stepper = self.spec().get_outline().recreate_stepper(stepper_state, self)", "            self._stepper = self.spec().get_outline().create_stepper(self)", 'fire', 'WorkChain')
m('c08-context-not-loaded', 'C08', MI, "            self._context = AttributesDict(**saved_state[self.CONTEXT])", "            self._context = AttributesDict()", 'fire', 'ContextMixin')
m('c08-runfn-by-repr', 'C08', PS, "        out_state[self.RUN_FN] = self.run_fn.__name__\n        if self._command is not None:", "        out_state[self.RUN_FN] = str(self.run_fn)\n        if self._command is not None:", 'fire', 'Running')
m('c08-communicator-unguarded', 'C08', P, "        if 'communicator' in load_context:\n            self._communicator = load_context.communicator", "        self._communicator = load_context.communicator", 'fire', 'load_instance_state')
m('c08-silent-description', 'C08', WC, "        return 'Return from the outline immediately'", "        return 'Return from the outline'", 'silent')

# ------------------------------------------------------------------ C19
m('c19-no-copy-of-parent-set', 'C19', PE, "            savable._auto_persist = set(savable._auto_persist)", "            pass", 'fire', 'auto_persist')
m('c19-loader-precedence-reordered', 'C19', PE, "    if context.loader is not None:\n        return context\n", "", 'fire', '_ensure_object_loader')
m('c19-meta-path-reverted', 'C19', PE, "            return saved_state[META][META__USER][name]", "            return saved_state[META][name]", 'fire', 'get_custom_meta', 'reverts the G12 fix (path)')
m('c19-loader-not-instantiated', 'C19', PE, "        loader = default_loader.load_object(loader_identifier)()", "        loader = default_loader.load_object(loader_identifier)", 'fire', '_ensure_object_loader', 'reverts the G12 fix (instance)')
m('c19-method-tag-not-reversed', 'C19', PE, "        if typ == META__TYPE__METHOD:\n            value = getattr(self, value)\n        elif typ == META__TYPE__SAVABLE:", "        if typ == META__TYPE__SAVABLE:", 'fire', '_get_value')
m('c19-same-tags', 'C19', PE, "META__TYPE__SAVABLE: str = 'S'", "META__TYPE__SAVABLE: str = 'm'", 'fire', 'tags')
m('c19-loader-error-type', 'C19', LO, "            raise ValueError(f'module `{mod_name}` from identifier `{identifier}` could not be loaded.') from exc", "            raise", 'fire', 'load_object')
m('c19-cancelled-branch-missing', 'C19', PE, "        if state == asyncio.futures._CANCELLED:  # type: ignore\n            obj = cls(loop=loop)\n            obj.cancel()\n", "", 'fire', 'recreate_from')
m('c19-future-exception-not-saved', 'C19', PE, "        if self.done() and not self.cancelled() and self.exception() is not None:\n            out_state['exception'] = self.exception()", "        pass", 'fire', 'SavableFuture')
m('c19-foreign-method-accepted', 'C19', PE, "                if value.__self__ is not self:\n                    raise TypeError('Cannot persist methods of other classes')\n", "", 'fire', 'save_members')
m('c19-loader-always-recorded', 'C19', PE, "        if save_context.loader is not None:\n            loader_class = default_loader.identify_object(save_context.loader.__class__)\n            Savable.set_custom_meta(out_state, META__OBJECT_LOADER, loader_class)\n            loader = save_context.loader\n        else:\n            loader = default_loader",
  "        loader = save_context.loader if save_context.loader is not None else default_loader\n        Savable.set_custom_meta(out_state, META__OBJECT_LOADER, default_loader.identify_object(loader.__class__))", 'fire', 'Savable.save')
m('c19-type-path-mismatch', 'C19', PE, "            return saved_state[META][META__TYPES][name]", "            return saved_state[META__TYPES][name]", 'fire', '_get_meta_type')
m('c19-silent-docstring', 'C19', PE, '        """Add additional information to the context by making a copy with the new values"""', '        """Copy the context, extended with the new values."""', 'silent')

# ------------------------------------------------------------------ C03
m('c03-callback-handler-removed', 'C03', EV, "            try:\n                await callback(*self._args, **self._kwargs)\n            except Exception:\n                exc_info = sys.exc_info()\n                process.callback_excepted(callback, exc_info[1], exc_info[2])\n            finally:\n                self._done()",
  "            try:\n                await callback(*self._args, **self._kwargs)\n            finally:\n                self._done()", 'fire', 'ProcessCallback.run')
m('c03-listener-handler-removed', 'C03', EH, "            try:\n                getattr(listener, event_function.__name__)(*args, **kwargs)\n            except Exception as exception:\n                _LOGGER.error(\"Listener '%s' produced an exception:\\n%s\", listener, exception)",
  "            getattr(listener, event_function.__name__)(*args, **kwargs)", 'fire', 'fire_event')
m('c03-transition-handler-narrowed', 'C03', SM, "        except Exception:\n            self._transitioning = False\n            if self._transition_failing:", "        except RuntimeError:\n            self._transitioning = False\n            if self._transition_failing:", 'fire', 'transition_to')
m('c03-created-reraise-widened', 'C03', P, "        if final_state == process_states.ProcessState.CREATED:\n            raise exception.with_traceback(trace)", "        if final_state != process_states.ProcessState.EXCEPTED:\n            raise exception.with_traceback(trace)", 'fire', 'transition_failed')
m('c03-transitioning-not-reset', 'C03', SM, "        finally:\n            self._transition_failing = False\n            self._transitioning = False", "        finally:\n            self._transition_failing = False", 'fire', 'transition_to')
m('c03-action-no-capture', 'C03', FU, "            with kiwipy.capture_exceptions(self):\n                self.set_result(self._action(*args, **kwargs))", "            self.set_result(self._action(*args, **kwargs))", 'fire', 'CancellableAction.run')
m('c03-step-swallows-failure', 'C03', PS, "            except Exception:\n                excepted = self.create_state(ProcessState.EXCEPTED, *sys.exc_info()[1:])\n                return cast(State, excepted)",
  "            except Exception:\n                self.process.logger.exception('step failed')\n                return None", 'fire', 'Running.execute')
m('c03-excepted-loses-exception', 'C03', P, "                next_state = self.create_state(process_states.ProcessState.EXCEPTED, *sys.exc_info()[1:])", "                next_state = self.create_state(process_states.ProcessState.EXCEPTED, RuntimeError('step failed'))", 'fire', 'Process.step')
m('c03-fail-wrong-state', 'C03', P, "        new_state = self._create_state_instance(\n            process_states.ProcessState.EXCEPTED, exception=exception, trace_back=trace_back\n        )\n        self.transition_to(new_state)\n\n    def kill",
  "        new_state = self._create_state_instance(process_states.ProcessState.KILLED, msg=None)\n        self.transition_to(new_state)\n\n    def kill", 'fire', 'Process.fail')
m('c03-callback-wrong-exception', 'C03', EV, "process.callback_excepted(callback, exc_info[1], exc_info[2])", "process.callback_excepted(callback, None, None)", 'fire', 'ProcessCallback.run')
m('c03-pausing-not-reset', 'C03', P, "        finally:\n            self._pausing = None\n\n        return True", "        finally:\n            pass\n\n        return True", 'fire', '_do_pause')
m('c03-silent-running-handler-narrowed', 'C03', PS, "            except Exception:\n                excepted = self.create_state(ProcessState.EXCEPTED, *sys.exc_info()[1:])\n                return cast(State, excepted)\n            else:",
  "            else:", 'silent', None, 'still contained by step()')
m('c03-silent-cleanup-handler-removed', 'C03', P, "                try:\n                    cleanup()\n                except Exception:\n                    self.logger.exception('Process<%s>: Exception calling cleanup method %s', self.pid, cleanup)", "                cleanup()", 'silent', None, 'still contained by transition_to')
m('c03-new-task-without-handler', 'C03', P, "        handle = events.ProcessCallback(self, self._run_task, args, kwargs)\n        self.loop.create_task(handle.run())\n        return handle",
  "        handle = events.ProcessCallback(self, self._run_task, args, kwargs)\n        self.loop.create_task(self._run_task(callback, *args[1:], **kwargs))\n        return handle", 'fire', '_run_task', 'callback scheduled without the failing-callback handler')
m('c03-exc-not-allowed-from-created', 'C03', PS, "    ALLOWED = {ProcessState.RUNNING, ProcessState.KILLED, ProcessState.EXCEPTED}", "    ALLOWED = {ProcessState.RUNNING, ProcessState.KILLED}", 'fire', 'Created')
m('c03-rpc-no-capture', 'C03', P, "            with kiwipy.capture_exceptions(kiwi_future):\n                try:\n                    result = callback(*args, **kwargs)", "            if True:\n                try:\n                    result = callback(*args, **kwargs)", 'fire', 'run_callback')

# ------------------------------------------------------------------ C18
m('c18-run-task-without-scope', 'C18', P, "        with self._process_scope():\n            result = await coro(*args, **kwargs)\n        return result", "        result = await coro(*args, **kwargs)\n        return result", 'fire', '_run_task')
m('c18-callback-not-through-run-task', 'C18', P, "        args = (callback,) + args\n        handle = events.ProcessCallback(self, self._run_task, args, kwargs)", "        handle = events.ProcessCallback(self, utils.ensure_coroutine(callback), args, kwargs)", 'fire', 'call_soon')
m('c18-append-in-place', 'C18', P, "        stack_copy = PROCESS_STACK.get().copy()\n        stack_copy.append(self)\n        PROCESS_STACK.set(stack_copy)\n        try:", "        PROCESS_STACK.get().append(self)\n        try:", 'fire', '_process_scope')
m('c18-pop-not-in-finally', 'C18', P, "        try:\n            yield None\n        finally:\n            assert Process.current() is self, (\n                'Somehow, the process at the top of the stack is not me, but another process! '\n                f'({self} != {Process.current()})'\n            )\n            stack_copy = PROCESS_STACK.get().copy()",
  "        yield None\n        if True:\n            assert Process.current() is self, (\n                'Somehow, the process at the top of the stack is not me, but another process! '\n                f'({self} != {Process.current()})'\n            )\n            stack_copy = PROCESS_STACK.get().copy()", 'fire', '_process_scope')
m('c18-current-is-bottom', 'C18', P, "            return PROCESS_STACK.get()[-1]", "            return PROCESS_STACK.get()[0]", 'fire', 'current')
m('c18-step-executes-directly', 'C18', P, "                next_state = await self._run_task(self._state.execute)", "                next_state = await utils.ensure_coroutine(self._state.execute)()", 'fire', 'Running.execute')
m('c18-silent-scope-renamed-local', 'C18', P, "        coro = utils.ensure_coroutine(callback)\n        with self._process_scope():\n            result = await coro(*args, **kwargs)", "        fn = utils.ensure_coroutine(callback)\n        with self._process_scope():\n            result = await fn(*args, **kwargs)", 'silent')
m('c18-stack-set-elsewhere', 'C18', P, "        self._cleanups = []  # a list of functions to be ran on terminated\n", "        self._cleanups = []  # a list of functions to be ran on terminated\n        PROCESS_STACK.set([self])\n", 'fire', 'init')

# ------------------------------------------------------------------ C09
m('c09-if-no-break', 'C09', WC, "                if conditional.is_true(self._workchain):\n                    break\n                self._pos += 1", "                if conditional.is_true(self._workchain):\n                    pass\n                else:\n                    self._pos += 1", 'fire', '_IfStepper.step')
m('c09-if-redecides-with-child', 'C09', WC, "        if self._child_stepper is None:\n            # Check the conditions until we find one that is true or we get to the end and\n            # none are true in which case we set pos to past the end\n            for conditional in self._if_instruction:",
  "        if True:\n            for conditional in self._if_instruction:", 'fire', '_IfStepper.step')
m('c09-do-step-condition', 'C09', WC, "        if not finished and (return_value is None or isinstance(return_value, ToContext)):", "        if not finished:", 'fire', '_do_step', 'a step returning a value no longer stops the chain')
m('c09-while-no-reevaluation', 'C09', WC, "        finished, result = self._child_stepper.step()\n        if finished:\n            self._child_stepper = None\n\n        return False, result",
  "        finished, result = self._child_stepper.step()\n        if finished:\n            self._child_stepper = self._while_instruction.body.create_stepper(self._workchain)\n\n        return False, result", 'fire', '_WhileStepper.step')
m('c09-while-false-runs-body', 'C09', WC, "            else:  # Nope...we're done\n                return True, None", "            else:  # Nope...we're done\n                return False, None", 'fire', '_WhileStepper.step')
m('c09-return-swallowed', 'C09', WC, "class _PropagateReturn(BaseException):", "class _PropagateReturn(Exception):", 'fire', '_PropagateReturn')
m('c09-return-code-lost', 'C09', WC, "            finished, return_value = True, exception.exit_code", "            finished, return_value = True, None", 'fire', '_do_step')
m('c09-block-skips', 'C09', WC, "        assert not self.finished()\n        self._pos += 1", "        assert not self.finished()\n        self._pos += 2", 'fire', 'next_instruction')
m('c09-block-advance-always', 'C09', WC, "        finished, result = self._child_stepper.step()\n        if finished:\n            self.next_instruction()\n\n        return self.finished(), result", "        finished, result = self._child_stepper.step()\n        self.next_instruction()\n\n        return self.finished(), result", 'fire', '_BlockStepper.step')
m('c09-function-step-not-finished', 'C09', WC, "        return True, self._fn(self._workchain)", "        return False, self._fn(self._workchain)", 'fire', '_FunctionStepper.step')
m('c09-else-not-last', 'C09', WC, "        cond = _Conditional(self, lambda wf: True, label=self.else_.__name__)", "        cond = _Conditional(self, lambda wf: False, label=self.else_.__name__)", 'fire', 'else_')
m('c09-if-wrong-branch-body', 'C09', WC, "            self._child_stepper = self._if_instruction[self._pos].body.create_stepper(self._workchain)", "            self._child_stepper = self._if_instruction[0].body.create_stepper(self._workchain)", 'fire', '_IfStepper.step')
m('c09-silent-warning-text', 'C09', WC, "                ' The return value should be `True` or `False` or implement the `__bool__` method. This behavior is '", "                ' The return value should be boolean. This behavior is '", 'silent')
m('c09-silent-alias-finished', 'C09', WC, "        return self.finished(), result", "        done = self.finished()\n        return done, result", 'silent', None, 'local alias')

# ------------------------------------------------------------------ C10
m('c10-no-barrier-if', 'C10', WC, "            if not self._awaiting:\n                self._waiting_future.set_result(lang.NULL)", "            self._waiting_future.set_result(lang.NULL)", 'fire', '_awaitable_done')
m('c10-continue-despite-awaitables', 'C10', WC, "            if self._awaitables:\n                return process_states.Wait(self._do_step, 'Waiting before next step', self._awaitables)\n", "", 'fire', '_do_step')
m('c10-wait-without-awaitables', 'C10', WC, "return process_states.Wait(self._do_step, 'Waiting before next step', self._awaitables)", "return process_states.Wait(self._do_step, 'Waiting before next step')", 'fire', '_do_step')
m('c10-awaitables-not-reset', 'C10', WC, "        assert self._stepper is not None\n        self._awaitables = {}\n", "        assert self._stepper is not None\n", 'fire', '_do_step')
m('c10-failure-swallowed', 'C10', WC, "        except Exception as exception:\n            self._waiting_future.set_exception(exception)", "        except Exception as exception:\n            self.process.logger.warning('awaitable failed: %s', exception)", 'fire', '_awaitable_done')
m('c10-waiting-state-not-installed', 'C10', WC, "        states_map[process_states.ProcessState.WAITING] = Waiting\n", "", 'fire', 'get_state_classes')
m('c10-tocontext-not-registered', 'C10', WC, "            if isinstance(return_value, ToContext):\n                self.to_context(**return_value)\n", "", 'fire', '_do_step')
m('c10-waiting-swallows-failure', 'C10', PS, "        except Interruption:\n            # Deal with the interruption (by raising) but make sure our internal", "        except Exception:\n            # Deal with the interruption (by raising) but make sure our internal", 'silent', None, 'still re-raised: handler re-raises everything it catches')
m('c10-silent-swap-context-and-wake', 'C10', WC, "            self.process.ctx[key] = awaitable.result()  # type: ignore\n        except asyncio.CancelledError:", "            value = awaitable.result()\n        except asyncio.CancelledError:", 'fire', '_awaitable_done', 'the result is read but never stored (half of a swap): must fire')
m('c10-silent-swap-context-and-wake-2', 'C10', WC, "            self.process.ctx[key] = awaitable.result()  # type: ignore\n        except asyncio.CancelledError:\n            # A cancelled awaitable is a failed one. This is not an ``Exception``, so it has to be caught explicitly,\n            # and it cannot be passed on as it is: raised out of the waiting state it would cancel the stepping task\n            exception = kiwipy.CancelledError(f\"the awaitable assigned to '{key}' was cancelled\")\n            self._waiting_future.set_exception(exception)\n        except Exception as exception:\n            self._waiting_future.set_exception(exception)\n        else:\n            if not self._awaiting:\n                self._waiting_future.set_result(lang.NULL)",
  "            value = awaitable.result()\n        except asyncio.CancelledError:\n            # A cancelled awaitable is a failed one. This is not an ``Exception``, so it has to be caught explicitly,\n            # and it cannot be passed on as it is: raised out of the waiting state it would cancel the stepping task\n            exception = kiwipy.CancelledError(f\"the awaitable assigned to '{key}' was cancelled\")\n            self._waiting_future.set_exception(exception)\n        except Exception as exception:\n            self._waiting_future.set_exception(exception)\n        else:\n            if not self._awaiting:\n                self._waiting_future.set_result(lang.NULL)\n            self.process.ctx[key] = value", 'silent', None, 'order of context write and wake-up is immaterial')
m('c10-first-wakes', 'C10', WC, "            if not self._awaiting:\n                self._waiting_future.set_result(lang.NULL)", "            if self._awaiting is not None:\n                self._waiting_future.set_result(lang.NULL)", 'fire', '_awaitable_done')

# ------------------------------------------------------------------ C11
m('c11-on-create-ignores-verdict', 'C11', P, "        if result is not None:\n            raise ValueError(result)\n", "        if result is not None:\n            self.logger.warning('invalid inputs: %s', result)\n", 'fire', 'on_create')
m('c11-preprocess-on-raw', 'C11', P, "        raw_inputs = recursively_copy_dictionaries(dict(self._raw_inputs)) if self._raw_inputs else {}", "        raw_inputs = dict(self._raw_inputs) if self._raw_inputs else {}", 'silent', None, 'a top-level copy is enough since fix ec73fa0 (pre_process copies nested mappings before recursing): same case as the stale seed C11-1')
m('c11-frozendict-setitem', 'C11', UT, "    def __contains__(self, key: Any) -> bool:\n        return key in self._dict\n", "    def __contains__(self, key: Any) -> bool:\n        return key in self._dict\n\n    def __setitem__(self, key: str, value: Any) -> None:\n        self._dict[key] = value\n", 'fire', 'Frozendict')
m('c11-validate-ports-drops', 'C11', PO, "            validation_error = port.validate(port_values.pop(name, UNSPECIFIED), breadcrumbs)\n            if validation_error:\n                return validation_error\n        return None",
  "            validation_error = port.validate(port_values.pop(name, UNSPECIFIED), breadcrumbs)\n        return None", 'fire', 'validate_ports')
m('c11-dynamic-verdict-dropped', 'C11', PO, "        validation_error = self.validate_dynamic_ports(port_values, breadcrumbs)\n        if validation_error:\n            return validation_error\n", "        validation_error = self.validate_dynamic_ports(port_values, breadcrumbs)\n", 'fire', 'PortNamespace.validate')
m('c11-required-override-inverted', 'C11', PO, "        if default is UNSPECIFIED:\n            return required\n\n        return False", "        if default is UNSPECIFIED:\n            return required\n\n        return required", 'fire', 'required_override')
m('c11-preprocess-returns-dict', 'C11', PO, "        return AttributesFrozendict(port_values)", "        return port_values", 'fire', 'pre_process')
m('c11-nested-not-frozen', 'C11', PO, "                port_values[name] = port.pre_process(port_value)\n            else:\n                port_values[name] = port_value", "                port_values[name] = port_value\n            else:\n                port_values[name] = port_value", 'fire', 'pre_process')
m('c11-raw-inputs-is-callers-dict', 'C11', P, "        self._raw_inputs = None if inputs is None else utils.AttributesFrozendict(inputs)", "        self._raw_inputs = inputs", 'fire', '__init__')
m('c11-undeclared-accepted', 'C11', PO, "        if port_values and not self.dynamic:\n            msg = f'Unexpected ports {port_values}, for a non dynamic namespace'\n            return PortValidationError(msg, breadcrumbs_to_port((*breadcrumbs, self.name)))\n", "", 'fire', 'validate_dynamic_ports')
m('c11-validator-verdict-dropped', 'C11', PO, "            if result is not None:\n                assert isinstance(result, str), 'Validator returned non string type'\n                validation_error = result", "            if result is not None:\n                assert isinstance(result, str), 'Validator returned non string type'", 'fire', 'Port.validate')
m('c11-validate-on-live-values', 'C11', PO, "        port_values = dict(port_values)\n        port_values_clone = port_values.copy()", "        port_values_clone = dict(port_values)", 'fire', 'PortNamespace.validate')
m('c11-callable-default-not-called', 'C11', PO, "                    if callable(default):\n                        port_value = default()\n                    else:\n                        port_value = default", "                    port_value = default", 'fire', 'pre_process')
m('c11-silent-message-text', 'C11', PO, "            validation_error = f\"required value was not provided for '{self.name}'\"", "            validation_error = f\"required value was not provided for '{self.name}' port\"", 'silent')
m('c11-silent-verdict-via-is-none', 'C11', PO, "        validation_error = self.validate_ports(port_values, breadcrumbs_local)\n        if validation_error:\n            return validation_error", "        validation_error = self.validate_ports(port_values, breadcrumbs_local)\n        if validation_error is not None:\n            return validation_error", 'silent')

# ------------------------------------------------------------------ C12
m('c12-store-before-validate', 'C12', P, "        if validation_error:\n            msg = f\"Error validating output '{value}' for port '{validation_error.port}': {validation_error.message}\"\n            raise ValueError(msg)\n\n        output_namespace = self._outputs\n        for sub_space in namespace:\n            output_namespace = output_namespace.setdefault(sub_space, {})\n\n        output_namespace[port_name] = value\n",
  "        output_namespace = self._outputs\n        for sub_space in namespace:\n            output_namespace = output_namespace.setdefault(sub_space, {})\n\n        output_namespace[port_name] = value\n        if validation_error:\n            msg = f\"Error validating output '{value}' for port '{validation_error.port}': {validation_error.message}\"\n            raise ValueError(msg)\n", 'fire', 'Process.out')
m('c12-namespace-created-before-validate', 'C12', P, "        validation_error = None\n        try:\n            port = port_namespace[port_name]", "        output_namespace = self._outputs\n        for sub_space in namespace:\n            output_namespace = output_namespace.setdefault(sub_space, {})\n        validation_error = None\n        try:\n            port = port_namespace[port_name]", 'fire', 'Process.out')
m('c12-downgrade-successful-true', 'C12', P, "finished_state = state_cls(self, result=result, successful=False)", "finished_state = state_cls(self, result=result, successful=True)", 'fire', 'on_finish')
m('c12-downgrade-loses-result', 'C12', P, "finished_state = state_cls(self, result=result, successful=False)", "finished_state = state_cls(self, result=None, successful=False)", 'fire', 'on_finish')
m('c12-validation-also-when-unsuccessful', 'C12', P, "        if successful:\n            validation_error = self.spec().outputs.validate(self.outputs)", "        if True:\n            validation_error = self.spec().outputs.validate(self.outputs)", 'fire', 'on_finish')
m('c12-no-validation-on-finish', 'C12', P, "            validation_error = self.spec().outputs.validate(self.outputs)\n            if validation_error:", "            validation_error = None\n            if validation_error:", 'fire', 'on_finish')
m('c12-error-logged-not-raised', 'C12', P, "            raise ValueError(msg)\n\n        output_namespace = self._outputs", "            self.logger.warning(msg)\n\n        output_namespace = self._outputs", 'fire', 'Process.out')
m('c12-emitted-wrong-value', 'C12', P, "        self.on_output_emitted(output_port, value, dynamic)", "        self.on_output_emitted(output_port, None, dynamic)", 'fire', 'Process.out')
m('c12-outputs-mutated-elsewhere', 'C12', P, '        """Entering the RUNNING state."""\n', '        """Entering the RUNNING state."""\n        self._outputs.setdefault("started", True)\n', 'fire', 'on_run')
m('c12-entry-failed-not-entered', 'C12', SM, "                new_state = exception.state\n                label = new_state.LABEL", "                label = new_state.LABEL", 'fire', 'transition_to')
m('c12-dynamic-route-validates-nothing', 'C12', P, "            validation_error = port.validate_dynamic_ports({port_name: value})", "            validation_error = port.validate_dynamic_ports({})", 'fire', 'Process.out')
m('c12-silent-rename-msg', 'C12', P, "            msg = f\"Error validating output '{value}' for port '{validation_error.port}': {validation_error.message}\"\n            raise ValueError(msg)", "            message = f\"Error validating output '{value}' for port '{validation_error.port}': {validation_error.message}\"\n            raise ValueError(message)", 'silent')

# ------------------------------------------------------------------ C14
m('c14-no-dereference', 'C14', PE, "Bundle(process, self._save_context, dereference=True)", "Bundle(process, self._save_context)", 'fire', 'InMemoryPersister.save_checkpoint')
m('c14-load-aliases-again', 'C14', PE, "        return copy.deepcopy(self._checkpoints[pid][tag])", "        return self._checkpoints[pid][tag]", 'fire', 'InMemoryPersister.load_checkpoint', 'reverts the G18 fix')
m('c14-tag-ignored-in-filename', 'C14', PE, "            filename = f'{pid}.{tag}.{_PICKLE_SUFFIX}'", "            filename = f'{pid}.{_PICKLE_SUFFIX}'", 'fire', 'pickle_filename')
m('c14-delete-raises-when-missing', 'C14', PE, "        try:\n            os.remove(pickle_filepath)\n        except OSError:\n            pass", "        os.remove(pickle_filepath)", 'fire', 'PicklePersister.delete_checkpoint')
m('c14-mem-delete-raises', 'C14', PE, "        try:\n            del self._checkpoints[pid][tag]\n        except KeyError:\n            pass", "        del self._checkpoints[pid][tag]", 'fire', 'InMemoryPersister.delete_checkpoint')
m('c14-load-ignores-tag', 'C14', PE, "        filepath = self._pickle_filepath(pid, tag)\n        checkpoint = PicklePersister.load_pickle(filepath)", "        filepath = self._pickle_filepath(pid)\n        checkpoint = PicklePersister.load_pickle(filepath)", 'fire', 'PicklePersister.load_checkpoint')
m('c14-delete-args-swapped', 'C14', PE, "        pickle_filepath = self._pickle_filepath(pid, tag)", "        pickle_filepath = self._pickle_filepath(tag, pid)", 'fire', 'PicklePersister.delete_checkpoint')
m('c14-process-filter-wrong', 'C14', PE, "        return [c for c in self.get_checkpoints() if c.pid == pid]", "        return [c for c in self.get_checkpoints() if str(c.pid).startswith(str(pid))]", 'fire', 'get_process_checkpoints')
m('c14-delete-process-all', 'C14', PE, "        if pid in self._checkpoints:\n            del self._checkpoints[pid]", "        self._checkpoints.clear()", 'fire', 'delete_process_checkpoints')
m('c14-bundle-dereference-shallow', 'C14', PE, "            self.update(copy.deepcopy(savable.save(save_context)))", "            self.update(dict(savable.save(save_context)))", 'fire', 'Bundle.__init__')
m('c14-silent-load-via-local', 'C14', PE, "        return copy.deepcopy(self._checkpoints[pid][tag])", "        bundle = copy.deepcopy(self._checkpoints[pid][tag])\n        return bundle", 'silent')

# ------------------------------------------------------------------ C15
m('c15-port-not-copied', 'C15', PO, "                self[port_name] = copy.deepcopy(port)", "                self[port_name] = port", 'fire', 'absorb')
m('c15-no-ports-reset', 'C15', PO, "                portnamespace._ports = {}\n", "", 'fire', 'absorb')
m('c15-options-ignored', 'C15', PO, "                setattr(self, attr, namespace_options.pop(attr, getattr(port_namespace, attr)))", "                setattr(self, attr, getattr(port_namespace, attr))", 'fire', 'absorb')
m('c15-prefix-matching-again', 'C15', PO, "rule == port_name or rule.startswith(prefix) for rule in include", "rule.startswith(port_name) for rule in include", 'fire', 'absorb', 'reverts the G13 fix')
m('c15-strip-without-separator', 'C15', PO, "        prefix = f'{namespace}{separator}'\n\n        for rule in rules:", "        prefix = f'{namespace}'\n\n        for rule in rules:", 'fire', 'strip_namespace')
m('c15-both-accepted', 'C15', PO, "        if exclude is not None and include is not None:\n            raise ValueError('exclude and include are mutually exclusive')\n", "", 'fire', 'absorb')
m('c15-expose-ignores-exclude', 'C15', SP, "        absorbed_ports = port_namespace.absorb(source, exclude, include, namespace_options)", "        absorbed_ports = port_namespace.absorb(source, None, include, namespace_options)", 'fire', '_expose_ports')
m('c15-expose-into-destination', 'C15', SP, "        if namespace:\n            port_namespace = destination.create_port_namespace(namespace)\n        else:\n            port_namespace = destination", "        port_namespace = destination", 'fire', '_expose_ports')
m('c15-outputs-from-inputs', 'C15', SP, "            source=process_class.spec().outputs,", "            source=process_class.spec().inputs,", 'fire', 'expose_outputs')
m('c15-sub-rules-swapped', 'C15', PO, "                portnamespace.absorb(port, sub_exclude, sub_include)", "                portnamespace.absorb(port, sub_include, sub_exclude)", 'fire', 'absorb')
m('c15-leftover-options-silently-dropped', 'C15', PO, "        if namespace_options:\n            raise ValueError(\n                f'the namespace_options {list(namespace_options.keys())}, is not a supported PortNamespace property'\n            )\n", "", 'fire', 'absorb')
m('c15-silent-prefix-inline', 'C15', PO, "                prefix = f'{port_name}{self.NAMESPACE_SEPARATOR}'\n                if include and not any(rule == port_name or rule.startswith(prefix) for rule in include):", "                if include and not any(rule == port_name or rule.startswith(port_name + self.NAMESPACE_SEPARATOR) for rule in include):", 'silent')

# ------------------------------------------------------------------ C16
m('c16-intents-swapped', 'C16', P, "        if intent == process_comms.Intent.PLAY:\n            return self._schedule_rpc(self.play)\n        if intent == process_comms.Intent.PAUSE:", "        if intent == process_comms.Intent.PAUSE:\n            return self._schedule_rpc(self.play)\n        if intent == process_comms.Intent.PLAY:", 'fire', 'message_receive')
m('c16-from-to-swapped', 'C16', P, "            subject = f'state_changed.{from_label}.{self.state.value}'", "            subject = f'state_changed.{self.state.value}.{from_label}'", 'fire', 'on_entered')
m('c16-timeout-not-tolerated', 'C16', P, "            except kiwipy.TimeoutError:\n                message = 'Process<%s>: sending broadcast of state change from %s to %s timed out'\n                self.logger.warning(message, self.pid, from_label, self.state.value)\n", "", 'fire', 'on_entered')
m('c16-cleanup-not-registered', 'C16', P, "                self.add_cleanup(functools.partial(self._communicator.remove_rpc_subscriber, identifier))\n", "                pass\n", 'fire', 'init')
m('c16-kill-text-dropped-rpc', 'C16', P, "        if intent == process_comms.Intent.KILL:\n            return self._schedule_rpc(self.kill, msg_text=msg.get(process_comms.MESSAGE_TEXT_KEY, None))", "        if intent == process_comms.Intent.KILL:\n            return self._schedule_rpc(self.kill)", 'fire', 'message_receive')
m('c16-broadcast-kill-direct', 'C16', P, "        if subject == process_comms.Intent.KILL:\n            return self._schedule_rpc(self.kill, msg_text=msg.get(process_comms.MESSAGE_TEXT_KEY, None))\n        return None", "        if subject == process_comms.Intent.KILL:\n            return self._schedule_rpc(self.pause, msg_text=msg.get(process_comms.MESSAGE_TEXT_KEY, None))\n        return None", 'fire', 'broadcast_receive')
m('c16-sender-missing', 'C16', P, "self._communicator.broadcast_send(body=None, sender=self.pid, subject=subject)", "self._communicator.broadcast_send(body=None, sender=None, subject=subject)", 'fire', 'on_entered')
m('c16-builder-wrong-intent', 'C16', PC, "        return {\n            INTENT_KEY: Intent.PAUSE,\n            MESSAGE_TEXT_KEY: text,\n        }", "        return {\n            INTENT_KEY: Intent.PLAY,\n            MESSAGE_TEXT_KEY: text,\n        }", 'fire', 'MessageBuilder.pause')
m('c16-controller-wrong-message', 'C16', PC, "        msg = MessageBuilder.kill(text=msg_text)\n        return self._communicator.rpc_send(pid, msg)", "        msg = MessageBuilder.pause(text=msg_text)\n        return self._communicator.rpc_send(pid, msg)", 'fire', 'kill_process')
m('c16-filter-drops-kill', 'C16', P, "subject=re.compile(r'^(?!state_changed).*')", "subject=re.compile(r'^(?!state_changed|kill).*')", 'fire', 'init')
m('c16-loop-communicator-drops-arg', 'C16', CO, "        return self._communicator.broadcast_send(body, sender, subject, correlation_id)", "        return self._communicator.broadcast_send(body, sender, subject)", 'fire', 'broadcast_send')
m('c16-announce-only-terminal', 'C16', P, "        if self._communicator and isinstance(self.state, enum.Enum):", "        if self._communicator and isinstance(self.state, enum.Enum) and self.has_terminated():", 'fire', 'on_entered')
m('c16-unknown-intent-ignored', 'C16', P, "        # Didn't match any known intents\n        raise RuntimeError('Unknown intent')", "        # Didn't match any known intents\n        return None", 'fire', 'message_receive')
m('c16-silent-filter-without-exclusion', 'C16', P, "subject=re.compile(r'^(?!state_changed).*')", "subject=re.compile(r'.*')", 'silent', None, 'rejecting state_changed is an optimisation')
m('c16-silent-log-text', 'C16', P, "            self.logger.info('Process<%s>: Broadcasting state change: %s', self.pid, subject)", "            self.logger.debug('Process<%s>: broadcasting: %s', self.pid, subject)", 'silent')

# ------------------------------------------------------------------ C17
m('c17-rejection-guard-dropped', 'C17', PC, "        if persist and not self._persister:\n            raise communications.TaskRejected('Cannot persist process, no persister')\n\n        if init_args is None:\n            init_args = ()\n        if init_kwargs is None:\n            init_kwargs = {}\n\n        proc_class = self._loader.load_object(process_class)\n        proc = proc_class(*init_args, **init_kwargs)\n        if persist and self._persister is not None:\n            self._persister.save_checkpoint(proc)\n\n        if nowait:",
  "        if init_args is None:\n            init_args = ()\n        if init_kwargs is None:\n            init_kwargs = {}\n\n        proc_class = self._loader.load_object(process_class)\n        proc = proc_class(*init_args, **init_kwargs)\n        if persist and self._persister is not None:\n            self._persister.save_checkpoint(proc)\n\n        if nowait:", 'fire', '_launch')
m('c17-create-runs', 'C17', PC, "            self._persister.save_checkpoint(proc)\n\n        return proc.pid", "            self._persister.save_checkpoint(proc)\n\n        asyncio.ensure_future(proc.step_until_terminated())\n        return proc.pid", 'fire', '_create')
m('c17-continue-ignores-tag', 'C17', PC, "        saved_state = self._persister.load_checkpoint(pid, tag)", "        saved_state = self._persister.load_checkpoint(pid)", 'fire', '_continue')
m('c17-body-key-renamed', 'C17', PC, "msg_body = {TASK_KEY: CONTINUE_TASK, TASK_ARGS: {PID_KEY: pid, NOWAIT_KEY: nowait, TAG_KEY: tag}}", "msg_body = {TASK_KEY: CONTINUE_TASK, TASK_ARGS: {PID_KEY: pid, NOWAIT_KEY: nowait, 'checkpoint': tag}}", 'fire', 'create_continue_body')
m('c17-dispatch-swapped', 'C17', PC, "        if task_type == CONTINUE_TASK:\n            return await self._continue(communicator, **task.get(TASK_ARGS, {}))\n        if task_type == CREATE_TASK:\n            return await self._create(communicator, **task.get(TASK_ARGS, {}))", "        if task_type == CREATE_TASK:\n            return await self._launch(communicator, nowait=True, **task.get(TASK_ARGS, {}))\n        if task_type == CONTINUE_TASK:\n            return await self._continue(communicator, **task.get(TASK_ARGS, {}))", 'fire', '__call__')
m('c17-unknown-task-launches', 'C17', PC, "        raise communications.TaskRejected\n", "        return None\n", 'fire', '__call__')
m('c17-run-before-persist', 'C17', PC, "        proc = proc_class(*init_args, **init_kwargs)\n        if persist and self._persister is not None:\n            self._persister.save_checkpoint(proc)\n\n        if nowait:\n            # XXX: can return a reference and gracefully use task to cancel itself when the upper call stack fails\n            asyncio.ensure_future(proc.step_until_terminated())  # noqa: RUF006\n            return proc.pid\n\n        await proc.step_until_terminated()\n\n        return proc.future().result()\n\n    async def _continue",
  "        proc = proc_class(*init_args, **init_kwargs)\n\n        if nowait:\n            # XXX: can return a reference and gracefully use task to cancel itself when the upper call stack fails\n            asyncio.ensure_future(proc.step_until_terminated())  # noqa: RUF006\n            if persist and self._persister is not None:\n                self._persister.save_checkpoint(proc)\n            return proc.pid\n\n        await proc.step_until_terminated()\n        if persist and self._persister is not None:\n            self._persister.save_checkpoint(proc)\n\n        return proc.future().result()\n\n    async def _continue", 'fire', '_launch')
m('c17-default-loader-used', 'C17', PC, "        proc_class = self._loader.load_object(process_class)\n        proc = proc_class(*init_args, **init_kwargs)\n        if persist and self._persister is not None:\n            self._persister.save_checkpoint(proc)\n\n        return proc.pid", "        proc_class = loaders.get_object_loader().load_object(process_class)\n        proc = proc_class(*init_args, **init_kwargs)\n        if persist and self._persister is not None:\n            self._persister.save_checkpoint(proc)\n\n        return proc.pid", 'fire', '_create')
m('c17-nowait-inverted', 'C17', PC, "        proc = cast('Process', saved_state.unbundle(self._load_context))\n\n        if nowait:", "        proc = cast('Process', saved_state.unbundle(self._load_context))\n\n        if not nowait:", 'fire', '_continue')
m('c17-loader-not-in-context', 'C17', PC, "            self._loader = loader\n            self._load_context = self._load_context.copyextend(loader=loader)", "            self._loader = loader", 'fire', 'ProcessLauncher.__init__')
m('c17-continue-without-persister-proceeds', 'C17', PC, "            raise communications.TaskRejected('Cannot continue process, no persister')", "            return None", 'fire', '_continue')
m('c17-launch-body-persist-dropped', 'C17', PC, "            PROCESS_CLASS_KEY: loader.identify_object(process_class),\n            PERSIST_KEY: persist,\n            NOWAIT_KEY: nowait,", "            PROCESS_CLASS_KEY: loader.identify_object(process_class),\n            PERSIST_KEY: False,\n            NOWAIT_KEY: nowait,", 'fire', 'create_launch_body')
m('c17-silent-log-message', 'C17', PC, "            LOGGER.warning('rejecting task: cannot continue process<%d> because no persister is available', pid)", "            LOGGER.warning('rejecting continue task for process<%s>: no persister', pid)", 'silent')

# ------------------------------------------------------------------ regressions of fix: commits not yet covered above
m('c04-on-kill-unguarded-again', 'C04', P, "        if self.future().done():\n            self._future = persistence.SavableFuture(loop=self._loop)\n        self.future().set_exception(exceptions.KilledError(msg_txt))", "        self.future().set_exception(exceptions.KilledError(msg_txt))", 'fire', 'on_kill', 'reverts the G11 fix')
m('c02-future-replaced-while-pending', 'C02', P, "        if self.future().done():\n            self._future = persistence.SavableFuture(loop=self._loop)\n        self.future().set_exception(exceptions.KilledError(msg_txt))", "        self._future = persistence.SavableFuture(loop=self._loop)\n        self.future().set_exception(exceptions.KilledError(msg_txt))", 'fire', 'on_kill', 'waiters on the old future are never released')
m('c01-bypass-outlives-transition', 'C01', SM, "        finally:\n            self._transition_failing = False\n            self._transitioning = False", "        finally:\n            self._transitioning = False", 'fire', 'transition_to')
m('c01-bypass-raised-eagerly', 'C01', SM, "            self._transitioning = True\n            label = new_state.LABEL\n", "            self._transitioning = True\n            self._transition_failing = self._transition_failing or new_state.is_terminal()\n            label = new_state.LABEL\n", 'fire', 'transition_to')

# ------------------------------------------------------------------ behaviour-preserving variants written by independent sub-agents (must stay silent for every property)
m('c07-event-error-not-rebuildable', 'C07', SM, "    def __reduce__(self) -> Any:\n        # The constructor takes the event in addition to the message that ends up in ``args``: say how to rebuild the\n        # exception, otherwise it cannot be copied, pickled or loaded back from the saved state of an excepted process\n        return self.__class__, (self.event, *self.args)\n", "", 'fire', 'EventError', 'reverts the G48 fix')
import glob as _glob
from os.path import exists as _os_path_exists
import json as _json
# variants that re-shape the very attributes a property's rules are written against (a flag folded into a holder object or a tuple ...): the honest answer of a
# static rule that cannot be translated is "cannot read this" (analysis error, exit 2), never a violation.  Listed with the reason in refactorings/UNREADABLE.json.
_UNREADABLE = _json.load(open(ROOT + '/refactorings/UNREADABLE.json')) if _os_path_exists(ROOT + '/refactorings/UNREADABLE.json') else {}
_OPEN = _json.load(open(ROOT + '/refactorings/OPEN.json')) if _os_path_exists(ROOT + '/refactorings/OPEN.json') else {}
for _p in sorted(_glob.glob(ROOT + '/refactorings/*.diff')):
    _name = _p.split('/')[-1][:-5]
    for _i in range(1, 21):
        _exp = 'no-alarm' if f'C{_i:02d}' in _UNREADABLE.get(_name, {}).get('properties', []) else 'silent'
        if f'C{_i:02d}' in _OPEN.get(_name, {}).get('properties', []):
            _exp = 'open'   # a false alarm of the checks that is NOT repaired yet: listed (refactorings/OPEN.json, DESIGN 9.14), counted by the self-test, not hidden
        pm(f'refac-{_name}-C{_i:02d}', f'C{_i:02d}', f'refactorings/{_name}.diff', _exp, None, 'independent behaviour-preserving refactoring')

# ------------------------------------------------------------------ property-breaking changes seeded by independent sub-agents (seeded/<id>/): the property's own check must fire
import os as _os
# a seed whose demonstrated failure lies outside the quantifier of the property it was written for (its author says so in the notes) is expected from the check of the
# property it does break: seeded/RETARGET.json, each entry with the reason
_STALE = _json.load(open(ROOT + '/seeded/STALE.json')) if _os_path_exists(ROOT + '/seeded/STALE.json') else {}
_RETARGET = _json.load(open(ROOT + '/seeded/RETARGET.json')) if _os_path_exists(ROOT + '/seeded/RETARGET.json') else {}
for _p in sorted(_glob.glob(ROOT + '/seeded/*/patch.diff')):
    _sid = _p.split('/')[-2]
    if _sid in _STALE:
        # a seed that a later "fix:" commit in /repo made harmless (its demonstration passes with the change applied): on today's tree it is a behaviour-preserving
        # edit, and the property's check must be SILENT on it -- seeded/STALE.json, with the commit and the reason
        pm(f'seed-{_sid}', _sid.split('-')[0], f'seeded/{_sid}/patch.diff', 'silent', None, 'formerly breaking change, harmless since ' + _STALE[_sid].get('since', '?'))
        continue
    pm(f'seed-{_sid}', _RETARGET.get(_sid, {}).get('property', _sid.split('-')[0]), f'seeded/{_sid}/patch.diff', 'fire', None,
       'seeded change, confirmed by its demonstration (see seeded/%s/meta.json)' % _sid)

m('c03-waiting-exit-release-dropped', 'C03', PS, "    def exit(self) -> None:\n        super().exit()\n        # The state can be left while a step is still blocked on the waiting future (the process was failed from\n        # outside the step, e.g. by a scheduled callback that raised): release that step, the process has moved on\n        if not self._waiting_future.done():\n            self._waiting_future.set_result(NULL)\n\n    def interrupt", "    def interrupt", 'fire', 'Process.fail', 'reverts the G19 fix')
m('c02-waiting-exit-release-dropped', 'C02', PS, "    def exit(self) -> None:\n        super().exit()\n        # The state can be left while a step is still blocked on the waiting future (the process was failed from\n        # outside the step, e.g. by a scheduled callback that raised): release that step, the process has moved on\n        if not self._waiting_future.done():\n            self._waiting_future.set_result(NULL)\n\n    def interrupt", "    def interrupt", 'fire', 'Process.fail', 'reverts the G19 fix')
m('c03-waiting-exit-release-unguarded', 'C03', PS, "        if not self._waiting_future.done():\n            self._waiting_future.set_result(NULL)\n\n    def interrupt", "        self._waiting_future.set_result(NULL)\n\n    def interrupt", 'fire', 'Waiting.exit', 'the release raises InvalidStateError on the normal way out of WAITING')

# ------------------------------------------------------------------ polarity / presence mutants found by tools/anchor_sweep.py (each confirmed property-breaking by reading)
m('c09-if-predicate-negated', 'C09', WC, "                if conditional.is_true(self._workchain):\n                    break", "                if not conditional.is_true(self._workchain):\n                    break", 'fire', '_IfStepper.step', 'if_ takes the first branch whose predicate is FALSE')
m('c04-set-interrupt-action-does-not-install', 'C04', P, "            self._interrupt_action.cancel()\n        self._interrupt_action = new_action\n", "            self._interrupt_action.cancel()\n", 'fire', '_set_interrupt_action', 'a kill requested during a step is never installed')
m('c11-port-validator-never-asked', 'C11', PO, "            if len(spec[0]) == 1:\n                warnings.warn(VALIDATOR_SIGNATURE_DEPRECATION_WARNING.format(self.validator.__name__))\n                result = self.validator(value)  # type: ignore\n            else:\n                result = self.validator(value, self)\n", "            result = None\n", 'fire', 'Port.validate', 'a configured port validator is never called')
m('c11-namespace-validator-skipped-when-dynamic', 'C11', PO, "        # Validate the validator after the ports themselves, as it most likely will rely on the port values\n        if self.validator is not None:", "        # Validate the validator after the ports themselves, as it most likely will rely on the port values\n        if self.validator is not None and not self.dynamic:", 'fire', 'PortNamespace.validate', 'the namespace validator is skipped for dynamic namespaces')
m('c15-namespace-include-skip-negated', 'C15', PO, "                if include and not any(rule == port_name or rule.startswith(prefix) for rule in include):\n                    continue", "                if include and any(rule == port_name or rule.startswith(prefix) for rule in include):\n                    continue", 'fire', 'absorb', 'a namespace is skipped exactly when an include rule names it')
m('c15-strip-namespace-negated', 'C15', PO, "            if rule.startswith(prefix):\n                stripped.append(rule[len(prefix) :])", "            if not rule.startswith(prefix):\n                stripped.append(rule[len(prefix) :])", 'fire', 'strip_namespace', 'the rules passed down are those that do NOT belong to the namespace')

# ------------------------------------------------------------------ reverting the CancelledError-family fixes (G20, G21, G22)
m('c20-create-task-cancellation-unreported', 'C20', FU, "            try:\n                res = await coro()\n            except asyncio.CancelledError:\n                # A cancellation is not an ``Exception`` and is therefore not captured: report it through the future\n                # instead of leaving whoever waits on it hanging\n                future.cancel()\n                raise\n            future.set_result(res)", "            res = await coro()\n            future.set_result(res)", 'fire', 'run_task', 'reverts the G20 fix')
m('c16-rpc-reply-cancellation-unreported', 'C16', P, "                    try:\n                        while asyncio.isfuture(result):\n                            result = await result\n                    except asyncio.CancelledError:\n                        # What the callback returned was cancelled (e.g. a pause that was called off by a later play\n                        # or kill). This is not an ``Exception``, so it would not be captured: cancel the reply too,\n                        # as for a direct caller, instead of leaving the remote caller hanging\n                        kiwi_future.cancel()\n                        raise\n", "                    while asyncio.isfuture(result):\n                        result = await result\n", 'fire', 'run_callback', 'reverts the G21 fix')
m('c10-cancelled-awaitable-unhandled', 'C10', WC, "        except asyncio.CancelledError:\n            # A cancelled awaitable is a failed one. This is not an ``Exception``, so it has to be caught explicitly,\n            # and it cannot be passed on as it is: raised out of the waiting state it would cancel the stepping task\n            exception = kiwipy.CancelledError(f\"the awaitable assigned to '{key}' was cancelled\")\n            self._waiting_future.set_exception(exception)\n        except Exception as exception:", "        except Exception as exception:", 'fire', '_awaitable_done', 'reverts the G22 fix')
m('c20-cancellation-handler-swallows', 'C20', FU, "                future.cancel()\n                raise\n            future.set_result(res)", "                raise\n            future.set_result(res)", 'fire', 'run_task', 'the handler re-raises without resolving the future')
m('c05-gate-not-rechecked', 'C05', P, "        while self.paused and self._paused is not None:\n            # Wait until played. Checked again after waking up: the process may have been paused anew in the meantime\n            await self._paused", "        if self.paused and self._paused is not None:\n            await self._paused", 'fire', 'Process.step', 'reverts the G23 fix')
m('c19-cancelled-future-save-unguarded', 'C19', PE, "        if self.done() and not self.cancelled() and self.exception() is not None:", "        if self.done() and self.exception() is not None:", 'fire', 'SavableFuture.save_instance_state', 'reverts the G24 fix')
m('c03-callback-reports-through-cleared-attribute', 'C03', EV, "                process.callback_excepted(callback, exc_info[1], exc_info[2])", "                self._process.callback_excepted(self._callback, exc_info[1], exc_info[2])", 'fire', 'ProcessCallback.run', 'reverts the G25 fix')
m('c19-classmethod-auto-persist-in-place', 'C19', PE, "        elif '_auto_persist' not in cls.__dict__:\n            # The set is the one of a parent class: give this class its own before adding to it\n            cls._auto_persist = set(cls._auto_persist)\n", "", 'fire', 'Savable.auto_persist', 'reverts the G26 fix')
m('c15-namespace-options-consumed-in-place', 'C15', PO, "        namespace_options = {} if namespace_options is None else dict(namespace_options)", "        if namespace_options is None:\n            namespace_options = {}", 'fire', 'absorb', 'reverts the G27 fix')
m('c11-default-filled-in-place', 'C11', PO, "                if isinstance(port_value, collections.abc.Mapping):\n                    port_value = dict(port_value)\n                port_values[name] = port.pre_process(port_value)", "                port_values[name] = port.pre_process(port_value)", 'fire', 'pre_process', 'reverts the G29 fix')
m('c15-expose-rejection-weaker-than-absorb', 'C15', SP, "        if exclude is not None and include is not None:\n            raise ValueError('exclude and include are mutually exclusive')\n\n        if namespace:", "        if exclude and include is not None:\n            raise ValueError('exclude and include are mutually exclusive')\n\n        if namespace:", 'fire', '_expose_ports', 'reverts the G42 fix')

# the stale seed C11-1 (one-level clone of the raw inputs) together with the revert of the fix that made it harmless: the combination breaks C11 again and must fire
pm('c11-shallow-clone-without-the-fix', 'C11', 'seeded/C11-1/patch_with_fix_reverted.diff', 'fire', None, 'stale seed C11-1 + revert of ec73fa0')

# ------------------------------------------------------------------ a behaviour-preserving variant of round 10 TOGETHER WITH a break: the normalisation that makes the variant
# readable (record splitting + flag-return sinking, folded anchor helper, seam read as its default, ExitStack nest, unrolled routing table) must not hide the break
pm('r65-2-kill-verdict-forgets-pending-kill', 'C04', 'refactorings/broken/R65-2-kill-verdict-forgets-pending-kill.diff', 'fire', None,
   'kill() split around a (settled, outcome) verdict helper, whose "a kill is already pending" arm now says "not settled": a second kill() goes ahead')
pm('r66-8-folded-dispatch-stop-becomes-killed', 'C13', 'refactorings/broken/R66-8-folded-dispatch-stop-becomes-killed.diff', 'fire', None,
   '_action_command folded into Running.execute, and the Stop branch builds the KILLED state')
pm('r67-3-deepcopy-seam-shallow', 'C11', 'refactorings/broken/R67-3-deepcopy-seam-shallow.diff', 'fire', None,
   'the new class-level seam _deepcopy defaults to copy.copy: encode_input_args / decode_input_args hand out shallow copies')
pm('r67-3-deepcopy-seam-shallow-c12', 'C12', 'refactorings/broken/R67-3-deepcopy-seam-shallow.diff', 'fire', None,
   'the new class-level seam _deepcopy defaults to copy.copy (outputs side)')
pm('r69-6-exit-stack-without-capture', 'C20', 'refactorings/broken/R69-6-exit-stack-without-capture.diff', 'fire', None,
   'CancellableAction.run on an ExitStack that no longer enters capture_exceptions(self): a failing action escapes instead of becoming the outcome')
pm('r68-1-route-continue-to-launch', 'C17', 'refactorings/broken/R68-1-route-continue-to-launch.diff', 'fire', None,
   'launcher dispatch through a routing table whose continue entry points at _launch')
pm('r65-2-kill-verdict-ignores-terminated', 'C01', 'refactorings/broken/R65-2-kill-verdict-ignores-terminated.diff', 'fire', None,
   'the verdict helper of kill() no longer settles the request for a FINISHED / EXCEPTED process: kill() transitions out of a terminal state (the guarded facts kept across '
   'the join must not pretend the guard is still there)')
pm('r66-5-folded-factory-kill-without-cookie', 'C04', 'refactorings/broken/R66-5-folded-factory-kill-without-cookie.diff', 'fire', None,
   '_create_interrupt_action folded into _set_interrupt_action_from_exception, the kill action built without the interruption as its cookie')
