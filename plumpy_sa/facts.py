"""GUARD/ATOM: forward must-fact dataflow inside IP-free regions (DESIGN 2.1).

Facts ("atoms") are tuples keyed by a canonical expression text:
  ('T', k) truthy          ('F', k) falsy (None included)
  ('none', k)              ('notnone', k)
  ('eq', k, c)             ('ne', k, c)          c = repr of a folded constant / enum member
  ('isinst', k, 'A|B')     isinstance(k, one of the classes)
  ('fresh', k)             k was assigned a newly created future in this region

All atoms die at an interleaving point (await / yield / uncontrolled call / call into a plumpy
function that contains one / unresolved call).  An atom mentioning attribute ``x`` dies at any
statement or resolved callee that may write ``.x``.

Only guard idioms enumerated from the repository are understood; an unrecognised guard makes an
obligation *fail* (then triaged), never pass.
"""
from __future__ import annotations

import ast
import re
from typing import Dict, FrozenSet, Iterable, List, Optional, Set, Tuple

from .calls import Calls, Target
from .cfg import CFG, Node, cfg_of
from .model import (accessor_value, AnalysisError, ClassInfo, EnumMember, FuncInfo, Module, Program, UNKNOWN, is_self_attr, norm,
                    strip_cast, unparse, walk_shallow)

Atom = Tuple
TOP = None  # lattice top (unvisited)

FUTURE_CTORS = {'asyncio.Future', 'kiwipy.Future', 'concurrent.futures.Future'}
_ident = re.compile(r'[A-Za-z_][A-Za-z_0-9]*')


def tokens(key: str) -> Set[str]:
    return set(_ident.findall(key))


_var = re.compile(r'(?<![\w.])[A-Za-z_]\w*')


def var_tokens(key: str) -> Set[str]:
    """Identifiers of ``key`` that stand for VARIABLES (not the attribute names after a dot): re-binding the local ``loader`` says nothing about ``ctx.loader``."""
    return set(_var.findall(key))


PURE_TYPE_PREDICATES = ('callable', 'inspect.ismethod', 'inspect.isfunction', 'inspect.isclass', 'inspect.iscoroutinefunction', 'inspect.isawaitable', 'inspect.iscoroutine',
                        'asyncio.isfuture', 'asyncio.iscoroutinefunction', 'asyncio.iscoroutine', 'ismethod', 'isfunction', 'isclass', 'isfuture', 'iscoroutinefunction')
PURE_QUERIES = ('done', 'cancelled', 'is_terminal', 'has_terminated', 'finished')
PURE_BUILTINS = ('callable', 'isinstance', 'issubclass', 'len', 'bool', 'hasattr', 'type', 'id')


class Canon:
    """Expression normalisation: casts stripped, trivial properties / accessors inlined, single-assignment local
    aliases substituted."""

    def __init__(self, prog: Program, calls: Calls, func: FuncInfo):
        self.prog = prog
        self.calls = calls
        self.func = func
        self._alias = self._local_aliases()

    def _local_aliases(self) -> Dict[str, ast.expr]:
        self._stable_params: Set[str] = set()
        counts: Dict[str, int] = {}
        vals: Dict[str, ast.expr] = {}
        f = self.func
        params = set()
        if not isinstance(f.node, ast.Lambda):
            a = f.node.args
            params = {x.arg for x in a.posonlyargs + a.args + a.kwonlyargs}
        for s in f.body:
            for n in walk_shallow(s):
                tg: List[ast.AST] = []
                if isinstance(n, ast.Assign):
                    tg = list(n.targets)
                elif isinstance(n, (ast.AugAssign, ast.AnnAssign)):
                    tg = [n.target]
                elif isinstance(n, (ast.For, ast.AsyncFor)):
                    tg = [n.target]
                elif isinstance(n, ast.ExceptHandler) and n.name:
                    counts[n.name] = counts.get(n.name, 0) + 2
                elif isinstance(n, (ast.With, ast.AsyncWith)):
                    tg = [i.optional_vars for i in n.items if i.optional_vars is not None]
                for t in tg:
                    for x in ast.walk(t):
                        if isinstance(x, ast.Name):
                            counts[x.id] = counts.get(x.id, 0) + 1
                            if isinstance(n, ast.Assign) and len(n.targets) == 1 and isinstance(t, ast.Name):
                                vals[x.id] = n.value
                            else:
                                counts[x.id] += 1
        self._stable_params = {p for p in params if p not in counts and p not in ('self', 'cls')}
        # a parameter that is only re-bound BEFORE the alias is made (``if ctx is None: ctx = Default()`` ... ``loader = ctx.loader``)
        # is as good as a never-reassigned one for that alias: source-order position of every store and of every alias definition
        order: Dict[int, int] = {}
        last_store: Dict[str, int] = {}

        def number(nodes, k=[0]):
            for n in nodes:
                if isinstance(n, (ast.FunctionDef, ast.AsyncFunctionDef, ast.Lambda, ast.ClassDef)):
                    continue
                k[0] += 1
                order[id(n)] = k[0]
                if isinstance(n, ast.Name) and isinstance(n.ctx, (ast.Store, ast.Del)):
                    last_store[n.id] = k[0]
                number(ast.iter_child_nodes(n), k)
        number(f.body)
        out = {}
        for name, c in counts.items():
            if c == 1 and name in vals and name not in params:
                v = strip_cast(vals[name])
                at = order.get(id(vals[name]), 0)
                settled = {p for p in last_store if p not in ('self', 'cls') and p != name and last_store[p] < at}
                saved = self._stable_params
                self._stable_params = saved | settled
                try:
                    if self._inlinable(v):
                        out[name] = v
                finally:
                    self._stable_params = saved
        return out

    def _inlinable(self, v: ast.expr) -> bool:
        """Alias only attribute chains on self / on a never-reassigned parameter, and zero-argument accessor calls on them."""
        if isinstance(v, (ast.Attribute, ast.Name)) and not (isinstance(v, ast.Name) and (v.id == 'self' or v.id in self._stable_params)):
            # ``labels = process_states.ProcessState``: a local name for a class or a module of the program
            try:
                r = self.prog.resolve(self.func.module, v)
            except Exception:  # noqa: BLE001
                r = None
            if isinstance(r, (ClassInfo, Module)):
                return True
        if isinstance(v, ast.Attribute):
            return self._inlinable(v.value)
        if isinstance(v, ast.Name):
            return v.id == 'self' or v.id in self._stable_params
        if isinstance(v, ast.Call) and not v.args and not v.keywords:
            return self._inlinable(v.func)
        return False

    def expr(self, e: ast.expr, _depth: int = 0) -> ast.expr:
        e = strip_cast(e)
        if _depth > 5:
            return e
        if isinstance(e, ast.Name) and e.id in self._alias:
            return self.expr(self._alias[e.id], _depth + 1)
        if isinstance(e, ast.Attribute):
            base = self.expr(e.value, _depth + 1)
            new = ast.Attribute(value=base, attr=e.attr, ctx=ast.Load())
            inl = self._inline_accessor(new, is_call=False)
            return self.expr(inl, _depth + 1) if inl is not None else new
        if isinstance(e, ast.Call) and not e.args and not e.keywords and isinstance(e.func, ast.Attribute):
            base = self.expr(e.func.value, _depth + 1)
            newf = ast.Attribute(value=base, attr=e.func.attr, ctx=ast.Load())
            inl = self._inline_accessor(newf, is_call=True)
            if inl is not None:
                return self.expr(inl, _depth + 1)
            return ast.Call(func=newf, args=[], keywords=[])
        if isinstance(e, ast.Call) and isinstance(e.func, ast.Name) and e.func.id in PURE_BUILTINS and not e.keywords \
                and not any(isinstance(a, ast.Starred) for a in e.args):
            # ``callable(default)`` with ``default = port.default``: the predicate is about port.default
            return ast.Call(func=e.func, args=[self.expr(a, _depth + 1) for a in e.args], keywords=[])
        if isinstance(e, ast.Call) and isinstance(e.func, ast.Attribute) and e.args and not e.keywords and not any(isinstance(a, ast.Starred) for a in e.args):
            # ``instr.is_true(wc)`` with ``instr = self._instr; wc = self._workchain``: names of locals do not belong in the key of a predicate
            base = self.expr(e.func.value, _depth + 1)
            return ast.Call(func=ast.Attribute(value=base, attr=e.func.attr, ctx=ast.Load()), args=[self.expr(a, _depth + 1) for a in e.args], keywords=[])
        return e

    def _inline_accessor(self, attr: ast.Attribute, is_call: bool) -> Optional[ast.expr]:
        """``self.paused`` -> ``self._paused is not None``; ``self.future()`` -> ``self._future``;
        ``self.has_terminated()`` -> ``self._state.is_terminal()``; ``self.state`` -> ``self._state.LABEL``."""
        if not (isinstance(attr.value, ast.Name) and attr.value.id == 'self'):
            return None
        oc = self.func.owner_class
        if oc is None:
            return None
        f = oc.lookup(attr.attr)
        if f is None or isinstance(f.node, ast.Lambda):
            return None
        is_prop = f.has_decorator('property')
        if is_prop == is_call:
            return None
        if len(f.params) != 1:
            return None
        # (the accessor as the view shows it: a private helper it delegates to -- ``return self._label_of(self._state)`` -- is inlined first)
        v = accessor_value(f)
        return v if v is not None else accessor_value(self.prog.view(f))

    def key(self, e: ast.expr) -> str:
        return norm(self.expr(e))


class FactEngine:
    def __init__(self, prog: Program, calls: Calls):
        self.prog = prog
        self.calls = calls
        self._cache: Dict[Tuple[int, FrozenSet], 'FuncFacts'] = {}
        self._derive_live_tables()

    def _derive_live_tables(self) -> None:
        """Which labels / state classes are live (non-empty ALLOWED) is read from the source, not assumed."""
        global LIVE, TERMINAL, LIVE_STATE_CLASSES
        base = self.prog.cls('base.state_machine.State')
        live_classes, live, terminal = set(), set(), set()
        for c in self.prog.all_classes():
            if c is base or not c.is_subclass_of(base):
                continue
            la = c.lookup_attr('LABEL')
            al = c.lookup_attr('ALLOWED')
            if la is None or al is None:
                continue
            lbl = self.prog.fold(la[0].module, la[1], la[0])
            allowed = self.prog.fold(al[0].module, al[1], al[0])
            if not isinstance(lbl, EnumMember) or allowed is UNKNOWN:
                continue
            if allowed:
                live_classes.add(c.qualname)
                live.add(lbl.member)
            else:
                terminal.add(lbl.member)
        if not live or not terminal or live & terminal:
            raise AnalysisError(f'cannot derive live/terminal state tables (live={live}, terminal={terminal})')
        LIVE, TERMINAL, LIVE_STATE_CLASSES = tuple(sorted(live)), tuple(sorted(terminal)), live_classes

    def analyse(self, func: FuncInfo, entry: Iterable[Atom] = ()) -> 'FuncFacts':
        entry_fs = frozenset(entry) | frozenset(self.decorator_facts(func))
        k = (id(func.node), entry_fs)
        if k not in self._cache:
            self._cache[k] = FuncFacts(self, func, entry_fs)
        return self._cache[k]

    def decorator_facts(self, func: FuncInfo) -> List[Atom]:
        out: List[Atom] = []
        ev = func.decorator_call('event')
        if ev is not None:
            for kw in ev.keywords:
                if kw.arg == 'from_states':
                    classes = self._class_list(func, kw.value)
                    if classes:
                        out.append(('isinst', 'self._state', '|'.join(sorted(c.qualname for c in classes))))
        if func.has_decorator('ensure_not_closed'):
            out.append(('F', 'self._closed'))
        return out

    def _class_list(self, func: FuncInfo, e: ast.expr) -> List[ClassInfo]:
        elts = e.elts if isinstance(e, (ast.Tuple, ast.List, ast.Set)) else [e]
        out = []
        for x in elts:
            c = self.prog.resolve_class(func.module, x)
            if c is None:
                return []
            out.append(c)
        return out

    # ---- interleaving-point classification of one call
    def call_is_ip(self, func: FuncInfo, call: ast.Call) -> Tuple[bool, str]:
        t = self.calls.resolve_call(func, call)
        if t.uncontrolled:
            return True, f'uncontrolled:{t.ukind}'
        for g in t.funcs:
            if g.is_async:
                continue  # calling a coroutine function only creates the coroutine
            s = self.calls.summary(g)
            if s.ip:
                return True, f'callee {g.qualname} contains an interleaving point'
        if t.unknown and not t.funcs:
            if self.calls.state_ctor_label(func, call) is not None or t.ukind in ('table-callable', 'local-callable'):
                return False, 'state constructor'
            return True, 'unresolved callee'
        return False, ''

    def call_writes(self, func: FuncInfo, call: ast.Call) -> Set[str]:
        t = self.calls.resolve_call(func, call)
        w: Set[str] = set()
        for g in t.funcs:
            if g.is_async:
                continue
            w |= self.calls.summary(g).all_writes
        if t.ext and t.ext.split('.')[-1] == 'setattr':
            w.add('*')
        return w


class FuncFacts:
    def __init__(self, eng: FactEngine, func: FuncInfo, entry: FrozenSet[Atom]):
        self.eng = eng
        self.func = func
        self.canon = Canon(eng.prog, eng.calls, func)
        self.cfg: CFG = cfg_of(func)
        self.entry = entry
        self.in_: Dict[int, Optional[FrozenSet[Atom]]] = {n.id: TOP for n in self.cfg.nodes}
        self.out_edges: Dict[Tuple[int, int, Optional[str]], FrozenSet[Atom]] = {}
        self._solve()

    # ------------------------------------------------------------------ condition -> atoms
    def cond_atoms(self, e: ast.expr, truth: bool) -> Set[Atom]:
        e = self.canon.expr(e)
        if isinstance(e, ast.UnaryOp) and isinstance(e.op, ast.Not):
            return self.cond_atoms(e.operand, not truth)
        if isinstance(e, ast.BoolOp):
            parts = [self.cond_atoms(v, truth) for v in e.values]
            conj = isinstance(e.op, ast.And)
            if conj == truth:
                return set().union(*parts)
            return set.intersection(*parts) if parts else set()
        if isinstance(e, ast.Compare) and len(e.ops) == 1:
            op, left, right = e.ops[0], e.left, e.comparators[0]
            if isinstance(right, ast.Constant) and right.value is None and isinstance(op, (ast.Is, ast.IsNot)):
                k = self.canon.key(left)
                isnone = isinstance(op, ast.Is) == truth
                return {('none', k), ('F', k)} if isnone else {('notnone', k)}
            if isinstance(op, (ast.In, ast.NotIn)):
                k = f'{self.canon.key(left)} in {self.canon.key(right)}'
                holds = isinstance(op, ast.In) == truth
                return {('T', k), ('notnone', k)} if holds else {('F', k)}
            if isinstance(op, (ast.Eq, ast.NotEq, ast.Is, ast.IsNot)):
                c = self.eng.prog.fold(self.func.module, self.canon.expr(right), self.func.owner_class)
                lk = left
                if c is UNKNOWN:
                    c = self.eng.prog.fold(self.func.module, self.canon.expr(left), self.func.owner_class)
                    lk = right
                if c is not UNKNOWN and not isinstance(c, (frozenset, tuple)):
                    k = self.canon.key(lk)
                    eq = isinstance(op, (ast.Eq, ast.Is)) == truth
                    return {('eq' if eq else 'ne', k, repr(c))}
                # neither side folds to a constant (e.g. ``result == NULL``): symmetric same / differ atoms
                a, b = sorted([self.canon.key(left), self.canon.key(right)])
                eq = isinstance(op, (ast.Eq, ast.Is)) == truth
                return {('same' if eq else 'differ', a, b)}
        if isinstance(e, ast.Call) and unparse(e.func) == 'isinstance' and len(e.args) == 2 and truth:
            classes = self.eng._class_list(self.func, e.args[1])
            if classes:
                return {('isinst', self.canon.key(e.args[0]), '|'.join(sorted(c.qualname for c in classes)))}
        if isinstance(e, ast.Constant):
            return set()
        k = norm(e)
        if truth:
            return {('T', k), ('notnone', k)}
        return {('F', k)}

    # ------------------------------------------------------------------ transfer
    def _kills_of_expr(self, expr: Optional[ast.AST], skip: Optional[ast.Call] = None,
                       only_inside: Optional[ast.Call] = None) -> Tuple[bool, Set[str], List[str]]:
        """(kill_all, attribute names written, reasons) for evaluating ``expr``."""
        if expr is None:
            return False, set(), []
        kill_all = False
        writes: Set[str] = set()
        reasons: List[str] = []
        root = only_inside if only_inside is not None else expr
        for n in walk_shallow(root):
            if only_inside is not None and n is only_inside:
                continue
            if isinstance(n, (ast.Await, ast.Yield, ast.YieldFrom)):
                kill_all = True
                reasons.append(f'{type(n).__name__.lower()}@{getattr(n, "lineno", 0)}')
            elif isinstance(n, ast.Call):
                if n is skip:
                    continue
                ip, why = self.eng.call_is_ip(self.func, n)
                if ip:
                    kill_all = True
                    reasons.append(f'{unparse(n.func)}@{n.lineno}: {why}')
                writes |= self.eng.call_writes(self.func, n)
        return kill_all, writes, reasons

    @staticmethod
    def _apply_kills(fs: FrozenSet[Atom], kill_all: bool, writes: Set[str], names: Set[str] = frozenset()) -> FrozenSet[Atom]:
        if kill_all or '*' in writes:
            # what survives ANY foreign code: a local that stands for a predicate over locals only (``is_ns = isinstance(port, PortNamespace)``) -- nobody else can
            # re-bind a local, and the type of an object does not change under it
            keep = frozenset(a for a in fs if a[0] == 'flagdef' and FuncFacts._locals_only(a[2]) and not (var_tokens(a[1]) | var_tokens(a[2])) & set(names))
            return keep
        if not writes and not names:
            return fs
        out = []
        for a in fs:
            if a[0] == 'imp':
                # a guarded fact lives as long as both its guard and the fact under it would
                if len(FuncFacts._apply_kills(frozenset((a[1], a[2])), kill_all, writes, names)) == 2:
                    out.append(a)
                continue
            toks = tokens(a[1])
            vtoks = var_tokens(a[1])
            if a[0] in ('same', 'differ', 'flagdef'):
                toks = toks | tokens(a[2])
                vtoks = vtoks | var_tokens(a[2])
            if toks & writes or vtoks & names:
                continue
            out.append(a)
        return frozenset(out)

    def _assign_gens(self, target: ast.expr, value: Optional[ast.expr]) -> Set[Atom]:
        if value is None or not isinstance(target, (ast.Attribute, ast.Name)):
            return set()
        if isinstance(target, ast.Name):
            # ``flag = isinstance(x, T)`` / ``flag = a is None or b``: the local stands for the predicate until it or an operand is re-bound
            v = strip_cast(value)
            if self._pure_predicate(v) and not isinstance(v, ast.Name) and target.id not in {x.id for x in ast.walk(v) if isinstance(x, ast.Name)}:
                # (``a = b`` between two locals is a second name, not a predicate: tests of ``a`` stay tests of ``a``)
                return {('flagdef', target.id, norm(v))}
            if isinstance(v, ast.Constant) and (v.value is None or isinstance(v.value, bool)):
                # ``settled = True`` in one branch, ``settled = False`` in another: the joins keep what holds under each (guarded facts, see _join)
                return {('none', target.id), ('F', target.id)} if v.value is None else ({('T', target.id), ('notnone', target.id)} if v.value else {('F', target.id), ('notnone', target.id)})
            return set()
        k = self.canon.key(target)
        v = strip_cast(value)
        if isinstance(v, ast.Constant):
            if v.value is None:
                return {('none', k), ('F', k)}
            if v.value is True:
                return {('T', k), ('notnone', k)}
            if v.value is False:
                return {('F', k), ('notnone', k)}
            return {('eq', k, repr(v.value)), ('notnone', k)}
        if isinstance(v, ast.Call) and self.is_future_ctor(v):
            return {('fresh', k), ('F', f'{k}.done()'), ('notnone', k), ('T', k)}
        return set()

    @staticmethod
    def _locals_only(text: str) -> bool:
        try:
            e = ast.parse(text, mode='eval').body
        except SyntaxError:
            return False
        for n in ast.walk(e):
            if isinstance(n, ast.Attribute):
                # (only as the CLASS argument of a type test: ``isinstance(x, mod.Class)``)
                if not any(isinstance(c, ast.Call) and isinstance(c.func, ast.Name) and c.func.id in ('isinstance', 'issubclass') and len(c.args) == 2 and any(n is y for y in ast.walk(c.args[1]))
                           for c in ast.walk(e)):
                    return False
            if isinstance(n, ast.Call) and not (isinstance(n.func, ast.Name) and n.func.id in ('isinstance', 'issubclass', 'callable')):
                return False
            if isinstance(n, (ast.Subscript, ast.Await)):
                return False
        return True

    @staticmethod
    def _pure_predicate(e: ast.AST) -> bool:
        if isinstance(e, ast.BoolOp):
            return all(FuncFacts._pure_predicate(v) for v in e.values)
        if isinstance(e, ast.UnaryOp) and isinstance(e.op, ast.Not):
            return FuncFacts._pure_predicate(e.operand)
        if isinstance(e, ast.Name):
            return e.id not in ('self', 'cls')   # the truth value of a local (``not finished and ...``)
        if isinstance(e, ast.Attribute):
            r = e
            while isinstance(r, ast.Attribute):
                r = r.value
            return isinstance(r, ast.Name)       # ... or of an attribute / plain property read (``self.dynamic and create_dynamically``)
        if isinstance(e, ast.Compare):
            # (``x in mapping`` asks the mapping: pure for the containers of this code base -- dicts, lists, port namespaces)
            return all(isinstance(o, (ast.Is, ast.IsNot, ast.Eq, ast.NotEq, ast.In, ast.NotIn)) for o in e.ops) and all(isinstance(x, (ast.Name, ast.Constant)) for x in [e.left] + e.comparators)
        if isinstance(e, ast.Call) and isinstance(e.func, ast.Name) and e.func.id == 'isinstance' and len(e.args) == 2 and not e.keywords:
            return isinstance(e.args[0], ast.Name)
        # zero-argument state queries of futures and states (``self.done()``, ``fut.cancelled()``, ``self._state.is_terminal()``): they read, they call nothing back
        if isinstance(e, ast.Call) and not e.args and not e.keywords and isinstance(e.func, ast.Attribute) and e.func.attr in PURE_QUERIES:
            r = e.func.value
            while isinstance(r, ast.Attribute):
                r = r.value
            return isinstance(r, ast.Name)
        # one-argument type predicates of the standard library on a local (``is_method = inspect.ismethod(value)``): they look at the object, they call nothing of it
        if isinstance(e, ast.Call) and len(e.args) == 1 and not e.keywords and isinstance(e.args[0], ast.Name) and norm(e.func) in PURE_TYPE_PREDICATES:
            return True
        return False

    @staticmethod
    def subst_flags(e: ast.expr, fs) -> ast.expr:
        """``e`` with every local that currently stands for a predicate (a 'flagdef' fact) replaced by that predicate."""
        defs = {a[1]: a[2] for a in (fs or ()) if a[0] == 'flagdef'}
        if not defs or not any(isinstance(x, ast.Name) and x.id in defs for x in ast.walk(e)):
            return e
        import copy as _copy

        class T(ast.NodeTransformer):
            def visit_Name(self, node: ast.Name):
                if isinstance(node.ctx, ast.Load) and node.id in defs:
                    return ast.parse(defs[node.id], mode='eval').body
                return node
        return T().visit(_copy.deepcopy(e))

    def is_future_ctor(self, call: ast.Call) -> bool:
        t = self.eng.calls.resolve_call(self.func, call)
        if t.ctor is not None:
            return any(b in FUTURE_CTORS for b in t.ctor.external_bases())
        if t.ext in FUTURE_CTORS:
            return True
        if t.ext and t.ext.endswith('.create_future'):
            return True
        return False

    def _transfer(self, n: Node, fs: FrozenSet[Atom]) -> Dict[Optional[str], FrozenSet[Atom]]:
        """Out-facts per edge label ('*' = default)."""
        e = n.expr()
        kill_all, writes, _ = self._kills_of_expr(e)
        names: Set[str] = set()
        gens: Set[Atom] = set()
        a = n.ast
        if n.kind == 'stmt' and isinstance(a, (ast.Assign, ast.AugAssign, ast.AnnAssign, ast.Delete)):
            tg = a.targets if isinstance(a, (ast.Assign, ast.Delete)) else [a.target]
            for t in tg:
                for x in ast.walk(t):
                    if isinstance(x, ast.Attribute) and isinstance(x.ctx, (ast.Store, ast.Del)):
                        writes = writes | {x.attr}
                    elif isinstance(x, ast.Name) and isinstance(x.ctx, (ast.Store, ast.Del)):
                        names.add(x.id)
            if isinstance(a, ast.Assign) and len(a.targets) == 1:
                gens = self._assign_gens(a.targets[0], a.value)
            elif isinstance(a, ast.AnnAssign):
                gens = self._assign_gens(a.target, a.value)
        elif n.kind in ('iter',):
            for x in ast.walk(a.target):  # type: ignore[union-attr]
                if isinstance(x, ast.Name):
                    names.add(x.id)
        elif n.kind == 'except' and getattr(a, 'name', None):
            names.add(a.name)  # type: ignore[union-attr]
        elif n.kind == 'with':
            for it in a.items:  # type: ignore[union-attr]
                if it.optional_vars is not None:
                    for x in ast.walk(it.optional_vars):
                        if isinstance(x, ast.Name):
                            names.add(x.id)
        base = self._apply_kills(fs, kill_all, writes, names)
        res: Dict[Optional[str], FrozenSet[Atom]] = {}
        # exception edges: the statement may have executed partially -> kills but no gens
        res['exc'] = base
        res['uncaught'] = base
        res['handler'] = base
        if n.kind == 'test':
            test = self.subst_flags(a.test, fs)  # type: ignore[union-attr]
            res['true'] = base | frozenset(self.cond_atoms(test, True))
            res['false'] = base | frozenset(self.cond_atoms(test, False))
            res['*'] = base
        elif n.kind == 'stmt' and isinstance(a, ast.Assert):
            res['*'] = base | frozenset(self.cond_atoms(a.test, True))
        else:
            res['*'] = base | frozenset(gens)
        return {k: self._release(v) for k, v in res.items()}

    @staticmethod
    def _release(fs: FrozenSet[Atom]) -> FrozenSet[Atom]:
        """A guarded fact whose guard holds is a fact."""
        if not any(a[0] == 'imp' for a in fs):
            return fs
        cur = set(fs)
        while True:
            add = {a[2] for a in cur if a[0] == 'imp' and a[1] in cur and a[2] not in cur}
            if not add:
                return frozenset(cur)
            cur |= add

    _OPP = {'T': 'F', 'F': 'T', 'none': 'notnone', 'notnone': 'none'}

    @classmethod
    def _join(cls, vals: List[FrozenSet[Atom]]) -> FrozenSet[Atom]:
        """What holds on all incoming edges.  Beyond the plain intersection: where a LOCAL flag has a known value on every edge, true on some and false on others
        (``settled = True`` / ``settled = False`` in the arms of an if-ladder, as left behind by a helper that returns ``(settled, outcome)``), what holds on all the
        edges of one value is kept as a fact GUARDED by that value -- ``('imp', ('T', 'settled'), fact)`` -- and released again by a later test of the flag."""
        if not vals:
            return frozenset()
        first = vals[0]
        if all(v == first for v in vals[1:]):
            return first

        def contradicted(g: Atom, fs: FrozenSet[Atom]) -> bool:
            o = cls._OPP.get(g[0])
            return o is not None and len(g) == 2 and (o, g[1]) in fs

        def holds(a: Atom, fs: FrozenSet[Atom]) -> bool:
            if a in fs:
                return True
            return a[0] == 'imp' and (a[2] in fs or contradicted(a[1], fs))
        out = {a for v in vals for a in v if all(holds(a, w) for w in vals)}
        flags = {a[1] for a in first if a[0] in ('T', 'F') and len(a) == 2 and a[1].isidentifier()}
        for x in flags:
            sides = {'T': [v for v in vals if ('T', x) in v], 'F': [v for v in vals if ('F', x) in v]}
            if not sides['T'] or not sides['F'] or len(sides['T']) + len(sides['F']) != len(vals):
                continue
            for side, group in sides.items():
                common = frozenset.intersection(*group)
                for a in common:
                    if a not in out and a[0] != 'imp' and not (len(a) == 2 and a[1] == x):
                        out.add(('imp', (side, x), a))
        return frozenset(out)

    def _solve(self) -> None:
        cfg = self.cfg
        self.in_[cfg.entry.id] = self.entry
        work = [cfg.entry]
        outs: Dict[int, Dict[Optional[str], FrozenSet[Atom]]] = {}
        preds: Dict[int, List[Tuple[Node, Optional[str]]]] = {}
        for n in cfg.nodes:
            for t, label in n.succ:
                preds.setdefault(t.id, []).append((n, label))
        iters = 0
        updates: Dict[int, int] = {}
        while work:
            iters += 1
            if iters > 20000:
                raise AnalysisError(f'fact dataflow did not converge in {self.func.qualname}')
            n = work.pop()
            fs = self.in_[n.id]
            if fs is TOP:
                continue
            o = self._transfer(n, fs)
            outs[n.id] = o
            for t, label in n.succ:
                # the facts at a node: what holds on ALL the edges into it that have been reached so far (computed over all of them at once, so that what holds on
                # all the edges of one value of a flag can be kept under that value, see _join)
                vals = [outs[p.id].get(l, outs[p.id]['*']) for p, l in preds.get(t.id, ()) if p.id in outs]
                if t is cfg.entry:
                    vals.append(self.entry)
                cur = self.in_[t.id]
                new = self._join(vals)
                updates[t.id] = updates.get(t.id, 0) + 1
                if cur is not TOP and updates[t.id] > 40:
                    # (a node that keeps changing: from here on its facts only descend -- never stronger than before -- which ends the iteration)
                    new = self._join([cur, new]) if new != cur else new
                if cur is TOP or new != cur:
                    self.in_[t.id] = new
                    work.append(t)
        self._outs = outs

    # ------------------------------------------------------------------ queries
    def at(self, n: Node) -> FrozenSet[Atom]:
        fs = self.in_.get(n.id)
        return frozenset() if fs is TOP or fs is None else fs

    def edge_infeasible(self, n: Node, label: Optional[str]) -> bool:
        """The branch ``label`` of the test ``n`` contradicts what is known on every way to it (``if x is None`` right after ``while x is not None`` took its body):
        such an edge is no path of the program -- path rules that ignore it lose nothing, and stop reporting the loop's impossible early exit."""
        if n.kind != 'test' or label not in ('true', 'false') or not self.reachable(n):
            return False
        fs = self.at(n)
        try:
            new = self.cond_atoms(self.subst_flags(strip_cast(n.ast.test), fs), label == 'true')   # type: ignore[union-attr]
        except Exception:  # noqa: BLE001
            return False
        opposite = {'none': 'notnone', 'notnone': 'none', 'T': 'F', 'F': 'T'}
        return any(a[0] in opposite and len(a) == 2 and (opposite[a[0]], a[1]) in fs for a in new)

    def feasible(self, a: Node, b: Node, label: Optional[str]) -> bool:
        """Edge filter for path rules: normal control flow, minus branches the facts rule out."""
        return label not in ('exc', 'uncaught', 'handler') and not self.edge_infeasible(a, label)

    def site_fact_cases(self, call: ast.Call) -> List[Tuple[Node, FrozenSet[Atom]]]:
        """Like ``site_facts``, but a site that is the first thing run under ``if a or b:`` (or in the else of ``if a and b:``) is
        reported once per way of getting there -- ``a`` true; ``a`` false and ``b`` true -- each with everything that way knows.
        The joined facts only keep what all the ways agree on."""
        out: List[Tuple[Node, FrozenSet[Atom]]] = []
        for n, fs in self.site_facts(call):
            edges = [(p, l) for p, l in n.pred if l not in ('exc', 'uncaught', 'handler')]
            split = None
            if len(edges) == 1 and edges[0][0].kind == 'test' and edges[0][1] in ('true', 'false'):
                t, label = edges[0]
                test = self.subst_flags(strip_cast(t.ast.test), self.at(t))
                want = label == 'true'
                if isinstance(test, ast.UnaryOp) and isinstance(test.op, ast.Not):
                    test, want = test.operand, not want
                if isinstance(test, ast.BoolOp) and isinstance(test.op, ast.Or) == want:
                    split = (t, test.values, want)
            if split is None:
                out.append((n, fs))
                continue
            t, values, want = split
            base = self._transfer(t, self.at(t))['*']
            prior: Set[Atom] = set()
            for v in values:
                out.append((n, frozenset(base | prior | self.cond_atoms(v, want)) | fs))
                prior |= self.cond_atoms(v, not want)
        return out

    def holds_on_every_path(self, target: Node, pred: Callable[[FrozenSet[Atom]], bool], pass_nodes: Iterable[Node] = (),
                            edge_ok: Callable[[Optional[str]], bool] = lambda l: l not in ('exc', 'uncaught', 'handler')) -> bool:
        """Does every path reaching ``target`` either run one of ``pass_nodes`` or arrive knowing ``pred``?

        The joined facts at ``target`` forget what only some of the paths know (``if a: hook() elif b: ... ; return``): this asks
        the question per incoming path.  Walking backwards, an edge is fine when its source is a pass node, when ``pred`` holds on
        the edge, or when the source cannot destroy any fact ``pred`` may rely on (it kills nothing) and every edge into the source
        is fine.  The function entry is never fine on its own."""
        passing = {n.id for n in pass_nodes}
        memo: Dict[int, bool] = {}

        def node_ok(n: Node) -> bool:
            if n.id in memo:
                return memo[n.id]
            memo[n.id] = True   # a cycle adds no new way in
            if pred(self.at(n)) and self.reachable(n):
                return True
            edges = [(p, l) for p, l in n.pred if edge_ok(l) and self.reachable(p)]
            ok = bool(edges) and all(edge_fine(p, l) for p, l in edges)
            memo[n.id] = ok
            return ok

        def edge_fine(p: Node, label: Optional[str]) -> bool:
            if p.id in passing:
                return True
            fs = self.at(p)
            o = self._transfer(p, fs)
            out = o.get(label, o['*'])
            if pred(out):
                return True
            if not fs <= out:   # the node kills something: what an earlier node knew may not survive it
                return False
            return node_ok(p)
        return node_ok(target)

    def reachable(self, n: Node) -> bool:
        return self.in_.get(n.id) is not TOP

    def at_call(self, n: Node, call: ast.Call) -> FrozenSet[Atom]:
        """Facts holding when ``call`` itself is invoked: in-facts of the node minus the effects of everything in
        the same statement that is evaluated before it (its own arguments; conservatively, every other call)."""
        fs = self.at(n)
        e = n.expr()
        if e is None:
            return fs
        kill_all, writes, _ = self._kills_of_expr(e, skip=call)
        # a call that *contains* ``call`` as an argument runs after it: do not count it
        outer_ips = False
        for x in walk_shallow(e):
            if isinstance(x, ast.Call) and x is not call and any(y is call for y in ast.walk(x)):
                # x encloses call -> evaluated after
                ip, _ = self.eng.call_is_ip(self.func, x)
                outer_ips |= ip
        if outer_ips:
            # recompute ignoring enclosing calls
            kill_all, writes = False, set()
            for x in walk_shallow(e):
                if isinstance(x, (ast.Await, ast.Yield, ast.YieldFrom)):
                    if any(y is call for y in ast.walk(x)):
                        continue
                    kill_all = True
                elif isinstance(x, ast.Call) and x is not call:
                    if any(y is call for y in ast.walk(x)):
                        continue
                    ip, _ = self.eng.call_is_ip(self.func, x)
                    kill_all |= ip
                    writes |= self.eng.call_writes(self.func, x)
        fs0 = fs
        fs = self._apply_kills(fs, kill_all, writes)
        return fs | frozenset(self._short_circuit_atoms(e, call, fs0))

    def _short_circuit_atoms(self, root: ast.AST, call: ast.Call, fs=None) -> Set[Atom]:
        """``a and f()``: f runs only if a was true;  ``a or f()``: only if a was false;  ``f() if c else y``: only if c."""
        out: Set[Atom] = set()

        def contains(n: ast.AST) -> bool:
            return n is call or any(x is call for x in ast.walk(n))

        def walk(n: ast.AST) -> None:
            if isinstance(n, (ast.FunctionDef, ast.AsyncFunctionDef, ast.Lambda)):
                return
            if isinstance(n, ast.BoolOp):
                for i, v in enumerate(n.values):
                    if contains(v):
                        for prev in n.values[:i]:
                            if not self._kills_of_expr(prev)[0]:
                                # (a local that stands for a predicate counts as that predicate: ``ok = a and not b`` ; ``ok and f()``)
                                out.update(self.cond_atoms(self.subst_flags(prev, fs) if fs else prev, isinstance(n.op, ast.And)))
                        walk(v)
                        return
                return
            if isinstance(n, ast.IfExp):
                if contains(n.body):
                    if not self._kills_of_expr(n.test)[0]:
                        out.update(self.cond_atoms(n.test, True))
                    walk(n.body)
                elif contains(n.orelse):
                    if not self._kills_of_expr(n.test)[0]:
                        out.update(self.cond_atoms(n.test, False))
                    walk(n.orelse)
                elif contains(n.test):
                    walk(n.test)
                return
            for c in ast.iter_child_nodes(n):
                if contains(c):
                    walk(c)
                    return

        if root is not None and contains(root):
            walk(root)
        return out

    def site_facts(self, call: ast.Call) -> List[Tuple[Node, FrozenSet[Atom]]]:
        """Facts at every CFG copy of the statement containing ``call`` (finally bodies are duplicated)."""
        out = []
        for n in self.cfg.nodes_containing(call):
            if self.reachable(n):
                out.append((n, self.at_call(n, call)))
        if not out:
            raise AnalysisError(f'call {unparse(call)} not found in CFG of {self.func.qualname}')
        return out

    def holds_at_call(self, call: ast.Call, pred) -> bool:
        return all(pred(fs) for _, fs in self.site_facts(call))


# ---------------------------------------------------------------------- semantic predicates over fact sets
TERMINAL = ('FINISHED', 'EXCEPTED', 'KILLED')
LIVE = ('CREATED', 'RUNNING', 'WAITING')
LIVE_STATE_CLASSES = {'process_states.Created', 'process_states.Running', 'process_states.Waiting', 'workchains.Waiting'}
STATE_LABEL_KEY = 'self._state.LABEL'
TERMINAL_KEY = 'self._state.is_terminal()'


def not_terminated(fs: FrozenSet[Atom]) -> bool:
    if ('F', TERMINAL_KEY) in fs:
        return True
    if all(('ne', STATE_LABEL_KEY, f'ProcessState.{t}') in fs for t in TERMINAL):
        return True
    for a in fs:
        if a[0] == 'eq' and a[1] == STATE_LABEL_KEY and a[2] in {f'ProcessState.{x}' for x in LIVE}:
            return True
        if a[0] == 'isinst' and a[1] == 'self._state' and set(a[2].split('|')) <= LIVE_STATE_CLASSES:
            return True
    return False


def state_not(fs: FrozenSet[Atom], label: str) -> bool:
    if ('ne', STATE_LABEL_KEY, f'ProcessState.{label}') in fs:
        return True
    for a in fs:
        if a[0] == 'eq' and a[1] == STATE_LABEL_KEY and a[2] != f'ProcessState.{label}':
            return True
    if label in TERMINAL and not_terminated(fs):
        return True
    return False


def is_none(fs: FrozenSet[Atom], key: str) -> bool:
    return ('none', key) in fs


def falsy(fs: FrozenSet[Atom], key: str) -> bool:
    return ('F', key) in fs or ('none', key) in fs


def truthy(fs: FrozenSet[Atom], key: str) -> bool:
    return ('T', key) in fs


def not_none(fs: FrozenSet[Atom], key: str) -> bool:
    return ('notnone', key) in fs or ('T', key) in fs


def pending(fs: FrozenSet[Atom], key: str) -> bool:
    return ('F', f'{key}.done()') in fs or ('fresh', key) in fs
