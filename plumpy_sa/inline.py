"""Analysis views with private helpers inlined.

Rules are written against the function that *is responsible* for a behaviour (``Process.on_entered`` announces the state
change, ``Running.execute`` wraps plain results ...).  Maintainers routinely move a few statements of such a function
into a new private helper; that must not change any verdict.  ``Inliner.view(func)`` therefore returns a FuncInfo whose
body has calls to *non-anchor private helpers* replaced by the helper's body:

  statement level   ``self._h(a)`` / ``x = self._h(a)`` / ``return self._h(a)`` (and their ``await`` forms) when every
                    ``return`` of the helper is in tail position after if-normalisation (code following an ``if`` whose
                    branch always returns is moved into the other branch); no return inside a loop
  expression level  a helper whose body is a single ``return <expr>``, anywhere in an expression

Parameters are substituted by the argument expressions when those are simple (names, attribute chains, constants) and
the parameter is not reassigned; otherwise they are bound by an assignment.  Helper locals are renamed only on collision.
Only helpers that resolve to exactly one plumpy function (no override in a subclass), are not decorated (other than
static/classmethod), not recursive, and are not *anchors* -- private functions the rules themselves refer to by name --
are inlined.  Depth is bounded.  The view is for analysis only; nothing is ever executed.
"""
from __future__ import annotations

import ast
import copy
from collections import Counter
from typing import Dict, List, Optional, Set, Tuple

from .model import AnalysisError, FuncInfo, Program, accessor_value, unparse

# private functions that rules name explicitly (the mechanism anchors of properties.jsonl and DESIGN section 3)
ANCHORS = {
    '_set_interrupt_action', '_set_interrupt_action_from_exception', '_create_interrupt_action', '_do_pause', '_run_task',
    '_process_scope', '_schedule_rpc', '_fire_event', '_fire_state_event', '_exit_current_state', '_enter_next_state',
    '_create_state_instance', '_action_command', '_do_step', '_awaitable_done', '_ensure_object_loader', '_get_value',
    '_get_meta_type', '_set_meta_type', '_get_create_meta', '_set_class_name', '_get_class_name', '_expose_ports', '_launch',
    '_continue', '_create', '_pickle_filepath', '_setup_event_hooks', '_ensure_persist_configured', '_bundle_representer',
    '_bundle_constructor', '_create_port', '_cleanup', '_done', '_format_msg',
}
MAX_DEPTH = 4


def _docstring_free(body: List[ast.stmt]) -> List[ast.stmt]:
    if body and isinstance(body[0], ast.Expr) and isinstance(body[0].value, ast.Constant) and isinstance(body[0].value.value, str):
        return body[1:]
    return body


def _always_exits(stmts: List[ast.stmt]) -> bool:
    """Every path through the statement list ends in return / raise (no fall-through)."""
    if not stmts:
        return False
    last = stmts[-1]
    if isinstance(last, (ast.Return, ast.Raise)):
        return True
    if isinstance(last, ast.If):
        return _always_exits(last.body) and _always_exits(last.orelse)
    if isinstance(last, (ast.With, ast.AsyncWith)):
        return _always_exits(last.body)
    if isinstance(last, ast.Try) and not last.finalbody:
        return _always_exits(last.body if not last.orelse else last.orelse) and all(_always_exits(h.body) for h in last.handlers)
    return False


def _normalise_ifs(stmts: List[ast.stmt]) -> List[ast.stmt]:
    """Move the code following an ``if`` with an always-exiting branch into the other branch (returns become tail)."""
    out: List[ast.stmt] = []
    for i, s in enumerate(stmts):
        rest = stmts[i + 1:]
        if isinstance(s, ast.If):
            body = _normalise_ifs(s.body)
            orelse = _normalise_ifs(s.orelse)
            if rest and _always_exits(body) and not _always_exits(orelse):
                new = ast.If(test=s.test, body=body, orelse=_normalise_ifs(orelse + rest))
                ast.copy_location(new, s)
                out.append(new)
                return out
            if rest and _always_exits(orelse) and not _always_exits(body):
                new = ast.If(test=s.test, body=_normalise_ifs(body + rest), orelse=orelse)
                ast.copy_location(new, s)
                out.append(new)
                return out
            has_ret = any(isinstance(x, ast.Return) for b in body + orelse for x in ast.walk(b))
            if rest and has_ret and _small_tail(rest):
                # a return buried in one arm, both arms (partly) falling through to a SHORT, call-free rest (``assert x is not None`` ; ``return x``): the rest is
                # the tail of each arm (two copies of a few statements that call nothing -- no call site is counted twice)
                new = ast.If(test=s.test, body=_normalise_ifs(body + copy.deepcopy(rest)), orelse=_normalise_ifs(orelse + copy.deepcopy(rest)))
                ast.copy_location(new, s)
                out.append(new)
                return out
            new = ast.If(test=s.test, body=body, orelse=orelse)
            ast.copy_location(new, s)
            out.append(new)
        elif isinstance(s, (ast.With, ast.AsyncWith)):
            new = type(s)(items=s.items, body=_normalise_ifs(s.body))
            ast.copy_location(new, s)
            out.append(new)
        elif isinstance(s, ast.Try) and not s.finalbody and rest and s.handlers and all(_always_exits(h.body) for h in s.handlers) \
                and not any(isinstance(x, ast.Return) for b in s.body for x in ast.walk(b)):
            # code after a try whose handlers all leave is the try's else clause (neither is protected by the handlers)
            new = ast.Try(body=_normalise_ifs(s.body), handlers=[ast.ExceptHandler(type=h.type, name=h.name, body=_normalise_ifs(h.body)) for h in s.handlers],
                          orelse=_normalise_ifs(list(s.orelse) + rest), finalbody=[])
            ast.copy_location(new, s)
            for hn, ho in zip(new.handlers, s.handlers):
                ast.copy_location(hn, ho)
            out.append(new)
            return out
        else:
            out.append(s)
    return out


def _small_tail(rest: List[ast.stmt]) -> bool:
    return len(rest) <= 3 and all(isinstance(x, (ast.Return, ast.Assert, ast.Assign, ast.Pass)) for x in rest) and not any(isinstance(n, (ast.Call, ast.Await, ast.Yield))
                                                                                                                       for x in rest for n in ast.walk(x))


def _returns_in_tail_only(stmts: List[ast.stmt], tail: bool = True) -> bool:
    for i, s in enumerate(stmts):
        is_last = tail and i == len(stmts) - 1
        if isinstance(s, ast.Return):
            if not is_last:
                return False
        elif isinstance(s, ast.If):
            if not (_returns_in_tail_only(s.body, is_last) and _returns_in_tail_only(s.orelse, is_last)):
                return False
        elif isinstance(s, (ast.With, ast.AsyncWith)):
            if not _returns_in_tail_only(s.body, is_last):
                return False
        elif isinstance(s, ast.Try):
            if s.orelse and any(isinstance(x, ast.Return) for b in s.body for x in ast.walk(b)):
                return False
            if any(isinstance(x, ast.Return) for b in s.body for x in ast.walk(b)) and not is_last:
                return False
            parts = [s.body, s.orelse] + [h.body for h in s.handlers]
            if not all(_returns_in_tail_only(p, is_last and not s.finalbody) for p in parts):
                return False
            if any(isinstance(x, ast.Return) for b in s.finalbody for x in ast.walk(b)):
                return False
        elif isinstance(s, (ast.For, ast.AsyncFor, ast.While)):
            for x in ast.walk(s):
                if isinstance(x, ast.Return):
                    return False
        elif isinstance(s, (ast.FunctionDef, ast.AsyncFunctionDef, ast.ClassDef)):
            continue
    return True


class _Subst(ast.NodeTransformer):
    def __init__(self, mapping: Dict[str, ast.expr], rename: Dict[str, str]):
        self.mapping, self.rename = mapping, rename

    def visit_Name(self, node: ast.Name):
        if node.id in self.mapping and isinstance(node.ctx, ast.Load):
            return copy.deepcopy(self.mapping[node.id])
        if node.id in self.rename:
            return ast.copy_location(ast.Name(id=self.rename[node.id], ctx=node.ctx), node)
        return node

    def visit_FunctionDef(self, node):  # do not descend into nested definitions' own parameter scopes blindly
        self.generic_visit(node)
        return node

    def visit_Call(self, node: ast.Call):
        self.generic_visit(node)
        # a parameter bound to ``lambda: X`` and called without arguments is ``X`` (evaluated where the call stands)
        if isinstance(node.func, ast.Lambda) and not node.args and not node.keywords and not (node.func.args.args or node.func.args.vararg or node.func.args.kwarg
                                                                                            or node.func.args.kwonlyargs or node.func.args.posonlyargs):
            return ast.copy_location(copy.deepcopy(node.func.body), node)
        return node

    def visit_ExceptHandler(self, node: ast.ExceptHandler):
        if node.name in self.rename:
            node.name = self.rename[node.name]
        self.generic_visit(node)
        return node


class _ReturnRewriter(ast.NodeTransformer):
    """Tail ``return e`` -> the statement(s) that deliver e to the call site."""

    def __init__(self, mode: str, target: Optional[List[ast.expr]]):
        self.mode, self.target = mode, target

    def visit_FunctionDef(self, node):
        return node

    visit_AsyncFunctionDef = visit_FunctionDef
    visit_Lambda = visit_FunctionDef

    def visit_Return(self, node: ast.Return):
        val = node.value if node.value is not None else ast.Constant(value=None)
        if self.mode == 'return':
            return node
        if self.mode == 'assign':
            if len(self.target) == 1 and ast.dump(self.target[0]).replace('Store()', 'Load()') == ast.dump(val):
                delivered = ast.copy_location(ast.Pass(), node)   # ``a, b = a, b``: the helper's locals already are the caller's
                delivered._delivers_value = True                  # (the value IS delivered on this path: nothing falls off the helper's end here)
                return delivered
            new = ast.Assign(targets=[copy.deepcopy(t) for t in self.target], value=val, lineno=node.lineno, col_offset=node.col_offset)
            return ast.copy_location(new, node)
        # expression statement: keep the evaluation of the returned expression if it can have an effect
        if any(isinstance(x, (ast.Call, ast.Await)) for x in ast.walk(val)):
            return ast.copy_location(ast.Expr(value=val), node)
        return ast.copy_location(ast.Pass(), node)


def _assigned_names(body: List[ast.stmt]) -> Set[str]:
    out: Set[str] = set()
    for s in body:
        for n in ast.walk(s):
            if isinstance(n, ast.Name) and isinstance(n.ctx, (ast.Store, ast.Del)):
                out.add(n.id)
            elif isinstance(n, ast.ExceptHandler) and n.name:
                out.add(n.name)
            elif isinstance(n, (ast.FunctionDef, ast.AsyncFunctionDef)):
                out.add(n.name)
    return out


def _simple(e: ast.expr) -> bool:
    if isinstance(e, (ast.Name, ast.Constant)):
        return True
    if isinstance(e, ast.Attribute):
        return _simple(e.value)
    return False


class Inliner:
    def __init__(self, prog: Program, calls):
        self.prog, self.calls = prog, calls
        self._views: Dict[int, FuncInfo] = {}
        self._counter = 0
        self.log: List[str] = []
        self.inlined: Dict[int, Set[str]] = {}   # id(helper node) -> qualnames of the functions it was inlined into

    # ------------------------------------------------------------------ which callee may be inlined
    def _target(self, func: FuncInfo, call: ast.Call, stack: Tuple[int, ...], cm: bool = False) -> Optional[FuncInfo]:
        fn = call.func
        name = fn.attr if isinstance(fn, ast.Attribute) else (fn.id if isinstance(fn, ast.Name) else None)
        local = self._local_function(func, fn)
        if local is None and (name is None or not name.startswith('_') or (name.startswith('__') and name.endswith('__')) or name in ANCHORS):
            return None
        if any(isinstance(a, ast.Starred) for a in call.args[:-1]) or any(k.arg is None for k in call.keywords):
            return None      # (a trailing ``*rest`` is looked at by _bind)
        t = self.calls.resolve_call(func, call)
        if t.uncontrolled or t.unknown or t.ctor is not None or len(t.funcs) != 1:
            return None
        g = t.funcs[0]
        if isinstance(g.node, ast.Lambda) or id(g.node) in stack or g is func:
            return None
        decos = g.decorator_names()
        if cm != any(d.split('.')[-1] == 'contextmanager' for d in decos):
            return None
        if any(d.split('.')[-1] not in ('staticmethod', 'classmethod', 'contextmanager') for d in decos):
            return None
        a = g.node.args
        if a.vararg or a.kwarg:
            return None
        if g.cls is not None:
            # no override anywhere in the hierarchy
            if len(self.prog.overrides(g.cls, g.name)) != 1:
                return None
            recv = fn.value if isinstance(fn, ast.Attribute) else None
            if not (isinstance(recv, ast.Name) and (recv.id in ('self', 'cls') or self.prog.resolve_class(func.module, recv) is not None)):
                return None
        for n in ast.walk(g.node):
            if isinstance(n, (ast.YieldFrom, ast.Global)) or (isinstance(n, ast.Yield) and not cm) or (isinstance(n, ast.Nonlocal) and (local is None or n not in g.node.body)):
                return None
        if not call.args and not call.keywords and accessor_value(g) is not None:
            return None   # a zero-argument accessor names a location: expression canonicalisation handles it
        return g

    @staticmethod
    def _is_local(func: FuncInfo, g: FuncInfo) -> bool:
        return func.nested.get(g.name) is g

    def _trivial_props(self, cls) -> Dict[str, str]:
        """property name -> backing attribute, for the properties of ``cls`` (along its MRO) that are nothing but ``return self._x`` and are overridden nowhere."""
        cache = self.__dict__.setdefault('_tprops', {})
        if id(cls) in cache:
            return cache[id(cls)]
        out: Dict[str, str] = {}
        cache[id(cls)] = out
        for k in cls.mro_classes():
            for name, f in k.methods.items():
                if name in out or not f.has_decorator('property') or isinstance(f.node, ast.Lambda):
                    continue
                v = accessor_value(f)
                if (isinstance(v, ast.Attribute) and isinstance(v.value, ast.Name) and v.value.id == 'self' and v.attr != name
                        and len(self.prog.overrides(cls, name)) == 1 and cls.lookup(name) is f):
                    out[name] = v.attr
        return out

    def _trivial_property_reads(self, func: FuncInfo, node: ast.AST) -> Set[str]:
        """``self.validator`` where ``validator`` is the property ``return self._validator``: the read IS a read of the backing attribute (inside the class
        itself either spelling is used; the rules are written against the attribute)."""
        cls = func.owner_class
        if cls is None:
            return set()
        tp = self._trivial_props(cls)
        done: Set[str] = set()
        if not tp:
            return done
        for n in ast.walk(node):
            if isinstance(n, ast.Attribute) and isinstance(n.ctx, ast.Load) and isinstance(n.value, ast.Name) and n.value.id == 'self' and n.attr in tp:
                done.add(n.attr)
                n.attr = tp[n.attr]
        return done

    def _local_function(self, func: FuncInfo, fn: ast.expr) -> Optional[FuncInfo]:
        """``fn`` names a function defined directly inside ``func`` that is only ever *called* there (never passed on, stored or
        returned): such a local function is a block of the enclosing function with a name, and is inlined like a private helper;
        the variables it declares ``nonlocal`` are the enclosing function's own."""
        if not isinstance(fn, ast.Name):
            return None
        g = func.nested.get(fn.id)
        scope_node = func.node
        if g is None and func.parent is not None and not isinstance(func.node, ast.Lambda):
            # a SIBLING local function (defined next to ``func`` in the enclosing function, used only through calls): the callback split in two
            g = func.parent.nested.get(fn.id)
            scope_node = func.parent.node
            if g is func:
                g = None
        if g is None or isinstance(g.node, ast.Lambda) or g.node.decorator_list or g.is_async != func.is_async and g.is_async:
            return None
        called = {id(c.func) for c in ast.walk(scope_node) if isinstance(c, ast.Call)}
        for n in ast.walk(scope_node):
            if isinstance(n, ast.Name) and n.id == fn.id and isinstance(n.ctx, ast.Load) and id(n) not in called:
                return None   # escapes as a value: a callback, not a block
        if any(isinstance(n, ast.Name) and n.id == fn.id for n in ast.walk(g.node)):
            return None       # recursive
        return g

    def _bind(self, g: FuncInfo, call: ast.Call, caller_names: Set[str]) -> Optional[Tuple[List[ast.stmt], Dict[str, ast.expr], Dict[str, str]]]:
        ga = g.node.args
        posonly = [x.arg for x in ga.posonlyargs]
        params = posonly + [x.arg for x in ga.args]          # ``/`` and ``*`` markers only restrict HOW a caller may pass an argument
        kwonly = [x.arg for x in ga.kwonlyargs]
        defaults = ga.defaults
        first_default = len(params) - len(defaults)
        is_static = any(d.split('.')[-1] == 'staticmethod' for d in g.decorator_names())
        skip_self = g.cls is not None and not is_static
        bound: Dict[str, ast.expr] = {}
        plist = params[1:] if skip_self else params
        args = list(call.args)
        if args and isinstance(args[-1], ast.Starred) and not any(isinstance(a, ast.Starred) for a in args[:-1]) and not any(k.arg is None for k in call.keywords) \
                and ga.vararg is None:
            # ``f(a, *rest)``: the parameters that are left (and have no default) take ``rest[0]``, ``rest[1]`` ... -- only for a ``rest`` that can be evaluated
            # again (a pure query such as ``sys.exc_info()[1:]``, a local)
            rest = args.pop().value
            named = {k.arg for k in call.keywords}
            if _simple(rest) or _text(rest).startswith('sys.exc_info()'):
                left = [p for i, p in enumerate(plist[len(args):]) if p not in named and (len(args) + i + (1 if skip_self else 0)) < first_default]
                args += [ast.copy_location(ast.Subscript(value=copy.deepcopy(rest), slice=ast.Constant(value=j), ctx=ast.Load()), rest) for j in range(len(left))]
            else:
                return None
        if len(args) > len(plist) or any(isinstance(a, ast.Starred) for a in args):
            return None
        for p, a in zip(plist, args):
            bound[p] = a
        for k in call.keywords:
            if k.arg not in plist + kwonly or k.arg in bound or k.arg in posonly:
                return None
            bound[k.arg] = k.value
        for i, p in enumerate(params):
            if skip_self and i == 0:
                continue
            if p not in bound:
                if i >= first_default:
                    bound[p] = defaults[i - first_default]
                else:
                    return None
        for p, d in zip(kwonly, ga.kw_defaults):
            if p not in bound:
                if d is None:
                    return None
                bound[p] = d
        body = _docstring_free(g.node.body)
        shared = {n for st in g.node.body if isinstance(st, ast.Nonlocal) for n in st.names}
        assigned = _assigned_names(body) - shared
        self._counter += 1
        pre: List[ast.stmt] = []
        mapping: Dict[str, ast.expr] = {}
        rename: Dict[str, str] = {}
        if skip_self and isinstance(call.func, ast.Attribute):
            recv = call.func.value
            if params and not (isinstance(recv, ast.Name) and recv.id == params[0]):
                mapping[params[0]] = recv
        for p, a in bound.items():
            if isinstance(a, ast.Name) and a.id == p:
                continue  # same name on both sides: nothing to bind (a reassignment inside the helper stays local enough for analysis)
            thunk = isinstance(a, ast.Lambda) and not (a.args.args or a.args.vararg or a.args.kwarg or a.args.kwonlyargs or a.args.posonlyargs)
            if thunk and p not in assigned and all(isinstance(par_, ast.Call) and par_.func is n_ and not par_.args and not par_.keywords
                                                   for par_, n_ in _name_uses(g.node, p)):
                mapping[p] = a     # every use of the parameter is a call without arguments: the thunk's body stands there (see _Subst.visit_Call)
            elif _simple(a) and p not in assigned:
                mapping[p] = a
            else:
                new = p if p not in caller_names else f'{p}__{g.name.strip("_")}{self._counter}'
                if new != p:
                    rename[p] = new
                pre.append(ast.copy_location(ast.Assign(targets=[ast.Name(id=new, ctx=ast.Store())], value=copy.deepcopy(a), lineno=call.lineno, col_offset=call.col_offset), call))
        for loc in assigned:
            if loc in caller_names and loc not in rename and loc not in bound:
                rename[loc] = f'{loc}__{g.name.strip("_")}{self._counter}'
        return pre, mapping, rename

    # ------------------------------------------------------------------ statement / expression inlining
    def _inline_stmt_call(self, func: FuncInfo, stmt: ast.stmt, call: ast.Call, mode: str, target, caller_names: Set[str],
                          stack: Tuple[int, ...]) -> Optional[List[ast.stmt]]:
        g = self._target(func, call, stack)
        if g is None:
            return None
        body = _normalise_ifs([st for st in copy.deepcopy(_docstring_free(g.node.body)) if not isinstance(st, ast.Nonlocal)])
        if not _returns_in_tail_only(body):
            return None
        if mode == 'assign' and not _always_exits(body) and not any(isinstance(x, ast.Return) for s in body for x in ast.walk(s)):
            # helper returns nothing: x = None
            body = body + [ast.copy_location(ast.Return(value=ast.Constant(value=None)), stmt)]
        names_for_collision = set(caller_names)
        if mode == 'assign' and target is not None:
            arg_names = {x.id for a in list(call.args) + [k.value for k in call.keywords] for x in ast.walk(a) if isinstance(x, ast.Name)}
            for t in target:
                for tn in ([t] if isinstance(t, ast.Name) else list(t.elts) if isinstance(t, (ast.Tuple, ast.List)) else []):
                    if isinstance(tn, ast.Name) and tn.id not in arg_names:
                        names_for_collision.discard(tn.id)
        b = self._bind(g, call, names_for_collision)
        if b is None:
            return None
        pre, mapping, rename = b
        sub = _Subst(mapping, rename)
        body = [sub.visit(s) for s in body]
        rr = _ReturnRewriter(mode, target)
        new_body: List[ast.stmt] = []
        for s in body:
            r = rr.visit(s)
            if isinstance(r, list):
                new_body.extend(r)
            elif r is not None:
                new_body.append(r)
        if mode == 'assign' and not _always_exits_or_assigns(new_body, target):
            # a path falls off the helper's end without a value: deliver None there
            new_body.append(ast.copy_location(ast.Assign(targets=[copy.deepcopy(t) for t in target], value=ast.Constant(value=None), lineno=stmt.lineno, col_offset=0), stmt))
        out = pre + new_body
        for s in out:
            ast.fix_missing_locations(s)
        self.log.append(f'{func.qualname}: inlined {g.qualname} ({mode})' + (' (local function)' if g.parent is not None and g.cls is None and self._is_local(func, g) else ''))
        key = id(g.node)
        raw = getattr(func, 'origin_raw', None)
        if raw is not None and self._is_local(func, g) and g.name in raw.nested:
            key = id(raw.nested[g.name].node)   # the local function of the scratch copy stands for the one in the source
        self.inlined.setdefault(key, set()).add(func.qualname)
        # recurse into the inlined helper's own helper calls (it was resolved in g's scope: use g for resolution)
        return self._process_block(g, out, caller_names | _assigned_names(out), stack + (id(g.node),)) if len(stack) < MAX_DEPTH else out

    def _inline_context_manager(self, func: FuncInfo, w: ast.With, names: Set[str], stack: Tuple[int, ...]) -> Optional[List[ast.stmt]]:
        """``with self._cm(args): BODY`` for a private ``@contextmanager`` generator of the shape ``PRE; try: yield [v] finally: POST`` (or
        ``PRE; yield [v]; POST``) is ``PRE; [x = v;] try: BODY finally: POST`` (resp. ``PRE; [x = v;] BODY; POST``)."""
        call = w.items[0].context_expr
        g = self._target(func, call, stack, cm=True)
        if g is None:
            return None
        body = copy.deepcopy(_docstring_free(g.node.body))
        ys = [n for st in body for n in ast.walk(st) if isinstance(n, ast.Yield)]
        if len(ys) != 1 or any(isinstance(n, ast.Return) for st in body for n in ast.walk(st)):
            return None

        def is_yield_stmt(st: ast.stmt) -> bool:
            return isinstance(st, ast.Expr) and st.value is ys[0]
        shape = None
        for i, st in enumerate(body):
            if is_yield_stmt(st):
                shape = ('plain', i)
            elif isinstance(st, ast.Try) and not st.handlers and not st.orelse and len(st.body) == 1 and is_yield_stmt(st.body[0]) and i == len(body) - 1:
                shape = ('finally', i)
        if shape is None or any(n is ys[0] for j, st in enumerate(body) if j != shape[1] for n in ast.walk(st)):
            return None
        b = self._bind(g, call, names)
        if b is None:
            return None
        pre, mapping, rename = b
        sub = _Subst(mapping, rename)
        body = [sub.visit(st) for st in body]
        kind, i = shape
        before = body[:i]
        bind_as: List[ast.stmt] = []
        if w.items[0].optional_vars is not None:
            val = ys[0].value if ys[0].value is not None else ast.Constant(value=None)
            bind_as = [ast.copy_location(ast.Assign(targets=[w.items[0].optional_vars], value=val, lineno=w.lineno, col_offset=w.col_offset), w)]
        inner_body = self._process_block(func, w.body, names, stack)
        if kind == 'finally':
            tr = body[i]
            new = ast.copy_location(ast.Try(body=inner_body, handlers=[], orelse=[], finalbody=tr.finalbody), w)
            out = pre + before + bind_as + [new]
        else:
            out = pre + before + bind_as + inner_body + body[i + 1:]
        for st in out:
            ast.fix_missing_locations(st)
        self.log.append(f'{func.qualname}: inlined {g.qualname} (context manager)')
        self.inlined.setdefault(id(g.node), set()).add(func.qualname)
        return out

    def _expr_inline(self, func: FuncInfo, e: ast.AST, stack: Tuple[int, ...]) -> ast.AST:
        inl = self

        class T(ast.NodeTransformer):
            def visit_Lambda(self, node):
                return node

            def visit_Call(self, node: ast.Call):
                self.generic_visit(node)
                g = inl._target(func, node, stack)
                if g is None:
                    return node
                body = _docstring_free(g.node.body)
                # ``if c: return a`` + ``return b`` (two-way helper) is the expression ``a if c else b``
                if (len(body) == 2 and isinstance(body[0], ast.If) and not body[0].orelse and len(body[0].body) == 1 and isinstance(body[0].body[0], ast.Return)
                        and body[0].body[0].value is not None and isinstance(body[1], ast.Return) and body[1].value is not None):
                    body = [ast.Return(value=ast.IfExp(test=body[0].test, body=body[0].body[0].value, orelse=body[1].value))]
                elif (len(body) == 1 and isinstance(body[0], ast.If) and len(body[0].body) == 1 and len(body[0].orelse) == 1 and isinstance(body[0].body[0], ast.Return)
                        and isinstance(body[0].orelse[0], ast.Return) and body[0].body[0].value is not None and body[0].orelse[0].value is not None):
                    body = [ast.Return(value=ast.IfExp(test=body[0].test, body=body[0].body[0].value, orelse=body[0].orelse[0].value))]
                if len(body) != 1 or not isinstance(body[0], ast.Return) or body[0].value is None:
                    return node
                b = inl._bind(g, node, set())
                if b is None:
                    return node
                pre, mapping, rename = b
                if pre:  # a non-simple argument cannot be substituted inside an expression without changing evaluation count
                    # allowed when the parameter is used exactly once in the returned expression
                    uses = {}
                    for x in ast.walk(body[0].value):
                        if isinstance(x, ast.Name):
                            uses[x.id] = uses.get(x.id, 0) + 1
                    for st in pre:
                        p = st.targets[0].id
                        orig = next((k for k, v in rename.items() if v == p), p)
                        if uses.get(orig, 0) > 1:
                            return node
                        mapping[orig] = st.value
                    rename = {k: v for k, v in rename.items() if k not in mapping}
                new = _Subst(mapping, rename).visit(copy.deepcopy(body[0].value))
                inl.log.append(f'{func.qualname}: inlined {g.qualname} (expression)')
                return ast.copy_location(new, node)

        return T().visit(e)

    def _process_block(self, func: FuncInfo, stmts: List[ast.stmt], caller_names: Set[str], stack: Tuple[int, ...]) -> List[ast.stmt]:
        out: List[ast.stmt] = []
        for s in stmts:
            out.extend(self._process_stmt(func, s, caller_names, stack))
        return out

    def _unwrap_call(self, v: Optional[ast.expr]) -> Optional[ast.Call]:
        if isinstance(v, ast.Await):
            v = v.value
        return v if isinstance(v, ast.Call) else None

    def _process_stmt(self, func: FuncInfo, s: ast.stmt, names: Set[str], stack: Tuple[int, ...]) -> List[ast.stmt]:
        if isinstance(s, (ast.FunctionDef, ast.AsyncFunctionDef, ast.ClassDef)):
            return [s]
        res: Optional[List[ast.stmt]] = None
        if isinstance(s, ast.Expr):
            c = self._unwrap_call(s.value)
            if c is not None:
                res = self._inline_stmt_call(func, s, c, 'expr', None, names, stack)
        elif isinstance(s, ast.Assign):
            c = self._unwrap_call(s.value)
            if c is not None:
                res = self._inline_stmt_call(func, s, c, 'assign', s.targets, names, stack)
        elif isinstance(s, ast.AnnAssign) and s.value is not None:
            c = self._unwrap_call(s.value)
            if c is not None:
                res = self._inline_stmt_call(func, s, c, 'assign', [s.target], names, stack)
        elif isinstance(s, ast.Return):
            c = self._unwrap_call(s.value)
            if c is not None:
                res = self._inline_stmt_call(func, s, c, 'return', None, names, stack)
        if res is not None:
            return res
        # a helper call nested as an argument of the statement's top-level call:  ``return f(self._h(x))``
        # -> ``tmp = self._h(x); return f(tmp)`` when everything evaluated before it is simple
        if isinstance(s, (ast.Expr, ast.Assign, ast.AnnAssign, ast.Return)) and len(stack) < MAX_DEPTH + 2:
            top = self._unwrap_call(getattr(s, 'value', None))
            if top is not None and (isinstance(top.func, ast.Name) or _simple(top.func)):
                args = list(top.args) + [k.value for k in top.keywords]
                for i, a in enumerate(args):
                    inner = self._unwrap_call(a) if not isinstance(a, ast.Starred) else None
                    if inner is None:
                        if isinstance(a, ast.Starred) or not _simple(a):
                            break  # something non-trivial is evaluated before any later argument
                        continue
                    g = self._target(func, inner, stack)
                    if g is None:
                        break
                    body = _docstring_free(g.node.body)
                    if len(body) == 1 and isinstance(body[0], ast.Return):
                        break  # expression-level inlining handles it
                    self._counter += 1
                    tmp = f'{g.name.strip("_")}_value{self._counter}'
                    pre = self._inline_stmt_call(func, s, inner, 'assign', [ast.Name(id=tmp, ctx=ast.Store())], names | {tmp}, stack)
                    if pre is None:
                        break
                    new_arg = ast.copy_location(ast.Name(id=tmp, ctx=ast.Load()), a)
                    if isinstance(a, ast.Await):
                        pass
                    if i < len(top.args):
                        top.args[i] = new_arg
                    else:
                        top.keywords[i - len(top.args)].value = new_arg
                    return pre + self._process_stmt(func, s, names | {tmp}, stack + (id(g.node),))
        # a helper call that is the FIRST thing the statement's value evaluates, below the top level:  ``return self._h(x).pid`` /
        # ``y = self._h(x)[0] + 1``  ->  ``tmp = self._h(x)`` (inlined) ; ``return tmp.pid``
        if isinstance(s, (ast.Expr, ast.Assign, ast.AnnAssign, ast.Return)) and getattr(s, 'value', None) is not None and len(stack) < MAX_DEPTH + 2:
            hold = _first_evaluated_call(s.value)
            if hold is not None:
                parent, field, inner = hold
                g = self._target(func, inner, stack)
                body = _docstring_free(g.node.body) if g is not None else []
                if g is not None and not (len(body) == 1 and isinstance(body[0], ast.Return)):
                    self._counter += 1
                    tmp = f'{g.name.strip("_")}_value{self._counter}'
                    pre = self._inline_stmt_call(func, s, inner, 'assign', [ast.Name(id=tmp, ctx=ast.Store())], names | {tmp}, stack)
                    if pre is not None:
                        setattr(parent, field, ast.copy_location(ast.Name(id=tmp, ctx=ast.Load()), inner))
                        return pre + self._process_stmt(func, s, names | {tmp}, stack + (id(g.node),))
        # compound statements: recurse into blocks; simple ones: expression-level inlining
        if isinstance(s, ast.If) and len(stack) < MAX_DEPTH + 2:
            # ``if not self._helper(x): ...`` with a multi-statement helper evaluated FIRST in the test:
            # ``tmp = self._helper(x)`` (inlined) ; ``if not tmp: ...``
            holder, attr_ = None, None
            t = s.test
            if isinstance(t, ast.UnaryOp) and isinstance(t.op, ast.Not):
                holder, attr_, t = t, 'operand', t.operand
            if isinstance(t, ast.BoolOp):
                holder, attr_, t = t, 0, t.values[0]
                if isinstance(t, ast.UnaryOp) and isinstance(t.op, ast.Not):
                    holder, attr_, t = t, 'operand', t.operand
            inner = self._unwrap_call(t)
            g = self._target(func, inner, stack) if inner is not None else None
            if g is not None:
                body = _docstring_free(g.node.body)
                if not (len(body) == 1 and isinstance(body[0], ast.Return)):
                    self._counter += 1
                    tmp = f'{g.name.strip("_")}_value{self._counter}'
                    pre = self._inline_stmt_call(func, s, inner, 'assign', [ast.Name(id=tmp, ctx=ast.Store())], names | {tmp}, stack)
                    if pre is not None:
                        new_t = ast.copy_location(ast.Name(id=tmp, ctx=ast.Load()), t)
                        # a helper that boils down to one boolean expression (``if x is None: return False; return x.f()``) is put
                        # back into the test as that expression: it is evaluated at the same point, and the rules read conditions
                        folded = _fold_value(pre, tmp)
                        if folded is not None:
                            pre, val = folded
                            new_t = ast.copy_location(val, t)
                        if holder is None:
                            s.test = new_t
                        elif attr_ == 'operand':
                            holder.operand = new_t
                        else:
                            holder.values[0] = new_t
                        return pre + self._process_stmt(func, s, names | {tmp}, stack + (id(g.node),))
        if isinstance(s, ast.If):
            s.test = self._expr_inline(func, s.test, stack)
            s.body = self._process_block(func, s.body, names, stack)
            s.orelse = self._process_block(func, s.orelse, names, stack)
            return [s]
        if isinstance(s, (ast.For, ast.AsyncFor)):
            s.iter = self._expr_inline(func, s.iter, stack)
            s.body = self._process_block(func, s.body, names, stack)
            s.orelse = self._process_block(func, s.orelse, names, stack)
            return [s]
        if isinstance(s, ast.While):
            s.test = self._expr_inline(func, s.test, stack)
            s.body = self._process_block(func, s.body, names, stack)
            s.orelse = self._process_block(func, s.orelse, names, stack)
            return [s]
        if isinstance(s, ast.With) and len(s.items) > 1:
            # ``with a, b: BODY`` is ``with a: with b: BODY``
            inner = ast.copy_location(ast.With(items=s.items[1:], body=s.body), s)
            outer = ast.copy_location(ast.With(items=s.items[:1], body=[inner]), s)
            return self._process_stmt(func, outer, names, stack)
        if isinstance(s, ast.With) and len(s.items) == 1 and isinstance(s.items[0].context_expr, ast.Call) and len(stack) < MAX_DEPTH + 2:
            res_cm = self._inline_context_manager(func, s, names, stack)
            if res_cm is not None:
                return res_cm
        if isinstance(s, (ast.With, ast.AsyncWith)):
            s.body = self._process_block(func, s.body, names, stack)
            return [s]
        if isinstance(s, ast.Try):
            s.body = self._process_block(func, s.body, names, stack)
            for h in s.handlers:
                h.body = self._process_block(func, h.body, names, stack)
            s.orelse = self._process_block(func, s.orelse, names, stack)
            s.finalbody = self._process_block(func, s.finalbody, names, stack)
            return [s]
        return [self._expr_inline(func, s, stack)]

    # ------------------------------------------------------------------ public
    def view(self, func: FuncInfo) -> FuncInfo:
        key = id(func.node)
        if key in self._views:
            return self._views[key]
        self._views[key] = func  # recursion guard
        if isinstance(func.node, ast.Lambda) or getattr(func, 'origin', None) is not None:
            return func
        # quick reject: no call to a private non-anchor name at all
        cand = False
        for n in ast.walk(func.node):
            if isinstance(n, ast.Call):
                nm = n.func.attr if isinstance(n.func, ast.Attribute) else (n.func.id if isinstance(n.func, ast.Name) else '')
                if nm.startswith('_') and not (nm.startswith('__') and nm.endswith('__')) and nm not in ANCHORS:
                    cand = True
                    break
                if isinstance(n.func, ast.Name) and (nm in func.nested or (func.parent is not None and nm in func.parent.nested)):
                    cand = True
                    break
        # ... and no conditional expression as the whole value of an assignment / return (lowered to if/else in the view)
        lower = any(isinstance(n, (ast.Assign, ast.AnnAssign, ast.Return)) and isinstance(getattr(n, 'value', None), ast.IfExp) for n in ast.walk(func.node)) or any(
            isinstance(n, (ast.Expr, ast.Assign, ast.Return)) and isinstance(getattr(n, 'value', None), ast.Call) and any(
                isinstance(x, ast.IfExp) for x in list(n.value.args) + [k.value for k in n.value.keywords]) for n in ast.walk(func.node))
        multi = Counter(n.id for n in ast.walk(func.node) if isinstance(n, ast.Name) and isinstance(n.ctx, ast.Store))
        takeover = any(c_ >= 2 for c_ in multi.values()) or any(isinstance(n, ast.Assign) and isinstance(n.value, ast.Constant) and n.value.value is None and len(n.targets) == 1 and isinstance(n.targets[0], ast.Attribute)
                       for n in ast.walk(func.node)) or any(isinstance(n, ast.Assign) and len(n.targets) == 1 and isinstance(n.targets[0], ast.Tuple) and isinstance(n.value, ast.Tuple)
                                                            for n in ast.walk(func.node))
        aliases = _pure_aliases(func.node) or (_defer_clears(copy.deepcopy(func.node)) if takeover else set())
        has_prop = func.owner_class is not None and any(isinstance(n, ast.Attribute) and isinstance(n.ctx, ast.Load) and isinstance(n.value, ast.Name) and n.value.id == 'self'
                                                        and n.attr in self._trivial_props(func.owner_class) for n in ast.walk(func.node))
        maybe_rev = any(isinstance(n, ast.Assign) and len(n.targets) == 1 and isinstance(n.targets[0], ast.Attribute) and isinstance(n.value, ast.Name) for n in ast.walk(func.node))
        filt = any(_is_filter_comp(getattr(n, 'value', None)) for n in ast.walk(func.node) if isinstance(n, (ast.Assign, ast.Return)))
        if not cand and not lower and not aliases and not has_prop and not maybe_rev and not filt:
            return func
        before = len(self.log)
        node = copy.deepcopy(func.node)
        if filt:
            node.body = _lower_filter_comps(node.body)
            self.log.append(f'{func.qualname}: list comprehension filtered by a private helper read as the loop it stands for')
        if lower:
            node.body = _lower_ifexp(node.body)
            self.log.append(f'{func.qualname}: conditional expressions lowered to if/else')
        tmp = FuncInfo(node, func.module, func.cls, func.parent)
        tmp.origin_raw = func  # type: ignore[attr-defined]
        self.prog._index_nested(tmp, func.module)
        names = _assigned_names(node.body) | {a.arg for a in node.args.posonlyargs + node.args.args + node.args.kwonlyargs}
        node.body = self._process_block(tmp, node.body, names, (id(func.node), id(node)))
        # the scratch function's nested definitions were indexed for call resolution only: nothing may find them afterwards
        # (their parent is in no index, so a rule asking for their callers would find none)
        scratch: Set[int] = set()

        def collect(fi: FuncInfo) -> None:
            for g in list(fi.nested.values()) + list(fi.lambdas):
                scratch.add(id(g))
                collect(g)
        collect(tmp)
        func.module.all_funcs[:] = [g for g in func.module.all_funcs if id(g) not in scratch]
        if _unroll_record_loops(node, self.prog, func.module):
            self.log.append(f'{func.qualname}: loop over a literal table of records read as the ladder it stands for')
        if _split_pair_assigns(node):
            self.log.append(f'{func.qualname}: independent pair assignments read one by one')
        recs = _split_records(node, self.prog, func.module)
        if recs:
            self.log.append(f'{func.qualname}: local records read field by field ({", ".join(sorted(recs))})')
        sunk = _sink_flag_returns(node)
        if sunk:
            self.log.append(f'{func.qualname}: "if flag: return value" after a ladder that sets the flag moved into the ladder\'s arms ({", ".join(sorted(sunk))})')
        shadows = _shadow_locals(node)
        if shadows:
            self.log.append(f'{func.qualname}: local kept in step with an attribute read as that attribute ({", ".join(sorted(shadows))})')
        taken = _defer_clears(node)
        if taken:
            self.log.append(f'{func.qualname}: value taken out of an attribute before it is cleared, read as the attribute cleared afterwards ({", ".join(sorted(taken))})')
        al = _pure_aliases(node)
        if al:
            _propagate(node, al)
            self.log.append(f'{func.qualname}: local aliases read through ({", ".join(sorted(al))})')
        rev = _reverse_aliases(node)
        if rev:
            self.log.append(f'{func.qualname}: locals stored into an attribute read as that attribute ({", ".join(sorted(rev))})')
        props = self._trivial_property_reads(func, node)
        if props:
            self.log.append(f'{func.qualname}: trivial properties read through ({", ".join(sorted(props))})')
        if len(self.log) == before:
            return func
        # a local function all of whose calls were inlined is no longer referenced: its definition goes (rules that walk the
        # function would otherwise see its statements twice)
        def prune(stmts: List[ast.stmt]) -> List[ast.stmt]:
            keep = []
            for st in stmts:
                if isinstance(st, (ast.FunctionDef, ast.AsyncFunctionDef)) and id(st) in local_defs and not any(
                        isinstance(x, ast.Name) and x.id == st.name and isinstance(x.ctx, ast.Load) for o in node.body if o is not st for x in ast.walk(o)):
                    continue
                keep.append(st)
            return keep
        local_defs = {id(st) for st in node.body if isinstance(st, (ast.FunctionDef, ast.AsyncFunctionDef))
                      and any(l.endswith('(local function)') and f'.{st.name} (' in l for l in self.log[before:])}
        node.body = prune(node.body)
        ast.fix_missing_locations(node)
        v = FuncInfo(node, func.module, func.cls, func.parent)
        v.origin = func  # type: ignore[attr-defined]
        self.prog._index_nested(v, func.module)
        self._views[key] = v
        self._views[id(node)] = v
        return v


def _lower_ifexp(stmts: List[ast.stmt]) -> List[ast.stmt]:
    """``t = a if c else b`` -> ``if c: t = a / else: t = b`` (same for ``return``), recursively through compound statements and nested
    conditional expressions; nested function bodies are left alone.  One normal form for the two spellings of a two-way choice."""
    out: List[ast.stmt] = []
    for s in stmts:
        if isinstance(s, (ast.FunctionDef, ast.AsyncFunctionDef, ast.ClassDef)):
            out.append(s)
            continue
        v = getattr(s, 'value', None)
        if isinstance(s, (ast.Assign, ast.AnnAssign, ast.Return)) and isinstance(v, ast.IfExp):
            def mk(val):
                if isinstance(s, ast.Return):
                    n = ast.Return(value=val)
                elif isinstance(s, ast.Assign):
                    n = ast.Assign(targets=copy.deepcopy(s.targets), value=val)
                else:
                    n = ast.Assign(targets=[copy.deepcopy(s.target)], value=val)
                return ast.copy_location(n, s)
            new = ast.If(test=v.test, body=_lower_ifexp([mk(v.body)]), orelse=_lower_ifexp([mk(v.orelse)]))
            ast.copy_location(new, s)
            out.append(new)
            continue
        # a conditional expression as ONE argument of the statement's call, callee and the other arguments being plain names / attribute chains (nothing whose
        # evaluation could be reordered observably):  ``f(x, a if c else b)``  ->  ``if c: f(x, a) / else: f(x, b)``
        call = v if isinstance(v, ast.Call) else None
        if isinstance(s, (ast.Expr, ast.Assign, ast.Return)) and call is not None and (_simple(call.func)):
            slots = [('args', i) for i in range(len(call.args))] + [('keywords', i) for i in range(len(call.keywords))]
            vals = [call.args[i] if k == 'args' else call.keywords[i].value for k, i in slots]
            ife = [j for j, x in enumerate(vals) if isinstance(x, ast.IfExp)]
            if len(ife) == 1 and all(_simple(x) or isinstance(x, ast.Constant) for j, x in enumerate(vals) if j != ife[0]):
                kind, idx = slots[ife[0]]
                ie = vals[ife[0]]

                def variant(val):
                    s2 = copy.deepcopy(s)
                    c2 = s2.value
                    if kind == 'args':
                        c2.args[idx] = copy.deepcopy(val)
                    else:
                        c2.keywords[idx].value = copy.deepcopy(val)
                    return s2
                new = ast.If(test=ie.test, body=_lower_ifexp([variant(ie.body)]), orelse=_lower_ifexp([variant(ie.orelse)]))
                ast.copy_location(new, s)
                out.append(new)
                continue
        for fld in ('body', 'orelse', 'finalbody'):
            if hasattr(s, fld) and isinstance(getattr(s, fld), list) and getattr(s, fld) and isinstance(getattr(s, fld)[0], ast.stmt):
                setattr(s, fld, _lower_ifexp(getattr(s, fld)))
        if isinstance(s, ast.Try):
            for h in s.handlers:
                h.body = _lower_ifexp(h.body)
        out.append(s)
    return out


def _always_exits_or_assigns(stmts: List[ast.stmt], target) -> bool:
    """After return rewriting: does every path end with an assignment to the target (or raise)?"""
    if not stmts:
        return False
    last = stmts[-1]
    if isinstance(last, ast.Raise):
        return True
    if isinstance(last, ast.Pass) and getattr(last, '_delivers_value', False):
        return True
    if isinstance(last, ast.Assign) and target is not None and [unparse(t) for t in last.targets] == [unparse(t) for t in target]:
        return True
    if isinstance(last, ast.If):
        return _always_exits_or_assigns(last.body, target) and _always_exits_or_assigns(last.orelse, target)
    if isinstance(last, (ast.With, ast.AsyncWith)):
        return _always_exits_or_assigns(last.body, target)
    if isinstance(last, ast.Try) and not last.finalbody:
        return _always_exits_or_assigns(last.orelse or last.body, target) and all(_always_exits_or_assigns(h.body, target) for h in last.handlers)
    return False


def _fold_value(stmts: List[ast.stmt], tmp: str) -> Optional[Tuple[List[ast.stmt], ast.expr]]:
    """``stmts`` ends by delivering one value into ``tmp`` through assignments at the tails of an if/else tree: return the
    statements before that tail and the value as ONE expression (boolean constants become and/or/not, else a conditional
    expression).  None when the tail does anything else."""
    def value_of(block: List[ast.stmt]) -> Optional[ast.expr]:
        if len(block) != 1:
            return None
        st = block[0]
        if isinstance(st, ast.Assign) and len(st.targets) == 1 and isinstance(st.targets[0], ast.Name) and st.targets[0].id == tmp:
            return st.value
        if isinstance(st, ast.If) and st.orelse:
            a, b = value_of(st.body), value_of(st.orelse)
            if a is None or b is None:
                return None
            c = st.test
            neg = ast.UnaryOp(op=ast.Not(), operand=c)
            if isinstance(a, ast.Constant) and a.value is False:
                return ast.BoolOp(op=ast.And(), values=[neg, b])
            if isinstance(a, ast.Constant) and a.value is True:
                return ast.BoolOp(op=ast.Or(), values=[c, b])
            if isinstance(b, ast.Constant) and b.value is False:
                return ast.BoolOp(op=ast.And(), values=[c, a])
            if isinstance(b, ast.Constant) and b.value is True:
                return ast.BoolOp(op=ast.Or(), values=[neg, a])
            return ast.IfExp(test=c, body=a, orelse=b)
        return None
    if not stmts:
        return None
    v = value_of(stmts[-1:])
    if v is None:
        return None
    if any(isinstance(n, ast.Name) and n.id == tmp for st in stmts[:-1] for n in ast.walk(st)):
        return None
    return stmts[:-1], ast.fix_missing_locations(ast.copy_location(v, stmts[-1]))


def _pure_aliases(fn: ast.AST) -> Dict[str, ast.expr]:
    """Locals bound exactly once, by ``name = <attribute chain>`` rooted at ``self`` / ``cls`` / a parameter or global that the function
    never re-binds, where the function stores into none of the attributes of the chain: reading the local is reading the chain."""
    if isinstance(fn, ast.Lambda):
        return {}
    stores: Dict[str, int] = {}
    attr_stores: Set[str] = set()
    cands: Dict[str, ast.expr] = {}
    a = fn.args
    params = {x.arg for x in a.posonlyargs + a.args + a.kwonlyargs} | ({a.vararg.arg} if a.vararg else set()) | ({a.kwarg.arg} if a.kwarg else set())
    declared: Set[str] = set()
    for n in ast.walk(fn):
        if isinstance(n, ast.Name) and isinstance(n.ctx, (ast.Store, ast.Del)):
            stores[n.id] = stores.get(n.id, 0) + 1
        elif isinstance(n, ast.Attribute) and isinstance(n.ctx, (ast.Store, ast.Del)):
            attr_stores.add(n.attr)
        elif isinstance(n, ast.ExceptHandler) and n.name:
            stores[n.name] = stores.get(n.name, 0) + 2
        elif isinstance(n, (ast.Global, ast.Nonlocal)):
            declared.update(n.names)
        elif isinstance(n, (ast.FunctionDef, ast.AsyncFunctionDef)) and n is not fn:
            stores[n.name] = stores.get(n.name, 0) + 2
        elif isinstance(n, ast.Call) and isinstance(n.func, ast.Name) and n.func.id in ('setattr', 'delattr') and len(n.args) >= 2 and isinstance(n.args[1], ast.Constant):
            attr_stores.add(str(n.args[1].value))
    # source-order position of every name store (a root bound once BEFORE the alias is made is as good as a never re-bound one)
    pos: Dict[int, int] = {}
    first_store: Dict[str, int] = {}

    attr_store_pos: Dict[str, List[int]] = {}
    last_load: Dict[str, int] = {}
    in_loop: Set[str] = set()

    def number(nodes, k=[0], loop=False):
        for n in nodes:
            k[0] += 1
            pos[id(n)] = k[0]
            if isinstance(n, ast.Name) and isinstance(n.ctx, (ast.Store, ast.Del)):
                first_store.setdefault(n.id, k[0])
            elif isinstance(n, ast.Name):
                last_load[n.id] = k[0]
                if loop:
                    in_loop.add(n.id)
            elif isinstance(n, ast.Attribute) and isinstance(n.ctx, (ast.Store, ast.Del)):
                attr_store_pos.setdefault(n.attr, []).append(k[0])
            elif isinstance(n, (ast.Await, ast.Yield, ast.YieldFrom)):
                await_pos.append(k[0])
            number(ast.iter_child_nodes(n), k, loop or isinstance(n, (ast.For, ast.While, ast.AsyncFor)))
    await_pos: List[int] = []
    number(fn.body)

    def stores_only_after_uses(name: str, attrs: List[str], def_pos: int = 0) -> bool:
        """``x = self._a; ... x(...) ...; self._a = None``: every store into an attribute of the chain comes after the last read of the alias (straight-line code)
        -- or before the alias is made (``self._a = new(); x = self._a; x.step()``: the alias takes the value the store left)."""
        ps = [p_ for a_ in attrs for p_ in attr_store_pos.get(a_, []) if not (def_pos and p_ < def_pos)]
        every = [p_ for a_ in attrs for p_ in attr_store_pos.get(a_, [])]
        return bool(every) and name not in in_loop and name in last_load and (not ps or min(ps) > last_load[name])
    for st in ast.walk(fn):
        if isinstance(st, ast.NamedExpr) and isinstance(st.target, ast.Name):
            st = ast.Assign(targets=[st.target], value=st.value)   # ``(x := self._a) is not None``: the same binding, made inside an expression
        if isinstance(st, ast.Assign) and len(st.targets) == 1 and isinstance(st.targets[0], ast.Name):
            v = st.value
            while isinstance(v, ast.Call) and isinstance(v.func, ast.Name) and v.func.id == 'cast' and len(v.args) == 2:
                v = v.args[1]
            attrs, root = [], v
            while isinstance(root, ast.Attribute):
                attrs.append(root.attr)
                root = root.value
            name = st.targets[0].id
            # a local taken from an attribute of ``self`` BEFORE an await and used after it is a snapshot: whatever runs during the await may re-bind the attribute,
            # the local keeps the old object -- it is not "the attribute" any more
            if attrs and isinstance(root, ast.Name) and root.id == 'self' and any(pos.get(id(st), 0) < p_ < last_load.get(name, 0) for p_ in await_pos):
                continue
            if ((attrs or (isinstance(root, ast.Name) and root.id not in ('None', 'True', 'False'))) and isinstance(root, ast.Name) and stores.get(name) == 1 and name not in params and name not in declared
                    and (stores.get(root.id, 0) == 0 or (stores.get(root.id) == 1 and attrs and root.id not in params and first_store.get(root.id, 1 << 30) < pos.get(id(st.value), 0)))
                    and root.id not in declared and root.id != name and (not (set(attrs) & attr_stores) or (stores_only_after_uses(name, attrs, pos.get(id(st), pos.get(id(st.value), 0)) if first_store.get(name) else 0) and not any(
                        isinstance(c_, ast.Call) and isinstance(c_.func, ast.Name) and c_.func.id in ('setattr', 'delattr') for c_ in ast.walk(fn))))):
                cands[name] = v
    return cands


def _propagate(fn: ast.AST, aliases: Dict[str, ast.expr]) -> None:
    class T(ast.NodeTransformer):
        def visit_Name(self, node: ast.Name):
            if isinstance(node.ctx, ast.Load) and node.id in aliases:
                return ast.copy_location(copy.deepcopy(aliases[node.id]), node)
            return node

        def visit_NamedExpr(self, node: ast.NamedExpr):
            if isinstance(node.target, ast.Name) and node.target.id in aliases:
                return self.visit(node.value)   # the name is read through everywhere: the binding expression is its value
            return self.generic_visit(node)
    for i, st in enumerate(fn.body):
        fn.body[i] = T().visit(st)
    ast.fix_missing_locations(fn)


def _first_evaluated_call(e: ast.expr):
    """(parent, field, call) for the call that is evaluated before anything else in ``e`` and is not ``e`` itself
    (``H(...).a``, ``H(...)[i]``, ``H(...).m(x)``, ``await H(...)...``, ``H(...) + y``, ``H(...) == y``); None otherwise."""
    parent, field, cur = None, None, e
    while True:
        if isinstance(cur, ast.Await):
            parent, field, cur = cur, 'value', cur.value
        elif isinstance(cur, (ast.Attribute, ast.Subscript, ast.Starred)):
            parent, field, cur = cur, 'value', cur.value
        elif isinstance(cur, ast.BinOp):
            parent, field, cur = cur, 'left', cur.left
        elif isinstance(cur, ast.Compare):
            parent, field, cur = cur, 'left', cur.left
        elif isinstance(cur, ast.UnaryOp):
            parent, field, cur = cur, 'operand', cur.operand
        elif isinstance(cur, ast.IfExp):
            parent, field, cur = cur, 'test', cur.test
        elif isinstance(cur, ast.Call):
            if isinstance(cur.func, ast.Name) or _simple(cur.func):
                return (parent, field, cur) if parent is not None and not isinstance(parent, ast.Await) else None
            parent, field, cur = cur, 'func', cur.func
        else:
            return None


def _reverse_aliases(fn: ast.AST) -> Set[str]:
    """``box = {}`` ; ``self._x = box`` ; ``box[k] = v``: once the local has been stored into the attribute the two name one object; if neither is re-bound
    afterwards in this function, later reads of the local are rewritten (in place) as reads of the attribute.  Returns the names rewritten."""
    if isinstance(fn, ast.Lambda):
        return set()
    stores: Dict[str, int] = {}
    attr_stores: Dict[str, int] = {}
    pos: Dict[int, int] = {}
    loops: List[Tuple[int, int]] = []

    calls: List[Tuple[int, int]] = []

    def number(nodes, k=[0]):
        for n in nodes:
            k[0] += 1
            pos[id(n)] = k[0]
            start = k[0]
            if isinstance(n, ast.Name) and isinstance(n.ctx, (ast.Store, ast.Del)):
                stores[n.id] = stores.get(n.id, 0) + 1
            elif isinstance(n, ast.Attribute) and isinstance(n.ctx, (ast.Store, ast.Del)):
                attr_stores[n.attr] = attr_stores.get(n.attr, 0) + 1
            number(ast.iter_child_nodes(n), k)
            if isinstance(n, (ast.For, ast.While, ast.AsyncFor)):
                loops.append((start, k[0]))
            if isinstance(n, (ast.Call, ast.Await, ast.Yield, ast.YieldFrom)):
                calls.append((start, k[0]))
    number(fn.body)
    a = fn.args
    params = {x.arg for x in a.posonlyargs + a.args + a.kwonlyargs}
    done: Set[str] = set()
    for st in list(ast.walk(fn)):
        if not (isinstance(st, ast.Assign) and len(st.targets) == 1 and isinstance(st.targets[0], ast.Attribute) and isinstance(st.value, ast.Name)):
            continue
        tgt, name = st.targets[0], st.value.id
        if not (isinstance(tgt.value, ast.Name) and tgt.value.id == 'self') or attr_stores.get(tgt.attr) != 1:
            continue
        at = pos[id(st)]
        if any(lo <= at <= hi for lo, hi in loops):
            continue
        if name in params:
            # ``self._block = block`` with ``block`` a parameter never re-bound: until something is CALLED (which might re-bind the attribute) the two name one object
            if stores.get(name, 0) != 0 or name == 'self':
                continue
            for n in ast.walk(fn):
                for field, val in ast.iter_fields(n):
                    items = val if isinstance(val, list) else [val]
                    for i, ch in enumerate(items):
                        if isinstance(ch, ast.Name) and ch.id == name and isinstance(ch.ctx, ast.Load) and pos.get(id(ch), 0) > at and ch is not st.value \
                                and not any(at < lo and hi < pos[id(ch)] for lo, hi in calls) and not any(lo <= pos[id(ch)] <= hi for lo, hi in loops):
                            new = ast.copy_location(ast.Attribute(value=ast.Name(id='self', ctx=ast.Load()), attr=tgt.attr, ctx=ast.Load()), ch)
                            if isinstance(val, list):
                                val[i] = new
                            else:
                                setattr(n, field, new)
                            done.add(name)
            continue
        if stores.get(name) != 1:
            continue
        # the local must hold a fresh container / object (a literal or a constructor call), so that nobody else can re-bind the attribute's object
        defs = [d for d in ast.walk(fn) if isinstance(d, (ast.Assign, ast.AnnAssign)) and isinstance(d.targets[0] if isinstance(d, ast.Assign) else d.target, ast.Name)
                and (d.targets[0] if isinstance(d, ast.Assign) else d.target).id == name and d.value is not None]
        if len(defs) != 1 or not isinstance(defs[0].value, (ast.Dict, ast.List, ast.Set, ast.Call, ast.ListComp, ast.DictComp, ast.SetComp)):
            continue
        for n in ast.walk(fn):
            for field, val in ast.iter_fields(n):
                items = val if isinstance(val, list) else [val]
                for i, ch in enumerate(items):
                    if isinstance(ch, ast.Name) and ch.id == name and isinstance(ch.ctx, ast.Load) and pos.get(id(ch), 0) > at and ch is not st.value:
                        new = ast.copy_location(ast.Attribute(value=ast.Name(id='self', ctx=ast.Load()), attr=tgt.attr, ctx=ast.Load()), ch)
                        if isinstance(val, list):
                            val[i] = new
                        else:
                            setattr(n, field, new)
                        done.add(name)
    if done:
        ast.fix_missing_locations(fn)
    return done


def _defer_clears(fn: ast.AST) -> Set[str]:
    """``x, self._a = self._a, None`` (or ``x = self._a`` ; ``self._a = None``) followed by uses of ``x`` that touch nothing but ``x`` itself:
    the object is taken out of the attribute, the attribute cleared, the object then worked on.  Normal form (in place): ``x = self._a`` ; the uses ; ``self._a = None``
    -- the order the rules about "who resolves the future kept in self._a" are written against (the alias is then read through as the attribute).
    Only when, between the clearing and the last use, nothing is called except methods of ``x`` with constant arguments, and ``self._a`` is not mentioned."""
    if isinstance(fn, ast.Lambda):
        return set()
    done: Set[str] = set()

    def simple(e: ast.AST) -> bool:
        return isinstance(e, (ast.Name, ast.Constant)) or (isinstance(e, ast.Attribute) and simple(e.value))

    def blocks(stmts: List[ast.stmt]):
        yield stmts
        for st in stmts:
            if isinstance(st, (ast.FunctionDef, ast.AsyncFunctionDef, ast.ClassDef)):
                continue
            for fld in ('body', 'orelse', 'finalbody'):
                sub = getattr(st, fld, None)
                if isinstance(sub, list) and sub and isinstance(sub[0], ast.stmt):
                    yield from blocks(sub)
            for h in getattr(st, 'handlers', []) or []:
                yield from blocks(h.body)
    stores = Counter(n.id for n in ast.walk(fn) if isinstance(n, ast.Name) and isinstance(n.ctx, (ast.Store, ast.Del)))
    for block in list(blocks(fn.body)):
        i = 0
        while i < len(block):
            st = block[i]
            # ``a, b = e1, e2`` with simple values and no target read by a later value: the assignments one after the other
            if (isinstance(st, ast.Assign) and len(st.targets) == 1 and isinstance(st.targets[0], ast.Tuple) and isinstance(st.value, ast.Tuple)
                    and len(st.targets[0].elts) == len(st.value.elts) == 2 and all(simple(e) for e in st.value.elts) and all(simple(t) for t in st.targets[0].elts)
                    and isinstance(st.targets[0].elts[0], ast.Name) and isinstance(st.targets[0].elts[1], ast.Attribute)
                    and _text(st.targets[0].elts[1]) == _text(st.value.elts[0]) and isinstance(st.value.elts[1], ast.Constant) and st.value.elts[1].value is None):
                t0, t1 = st.targets[0].elts
                a1 = ast.copy_location(ast.Assign(targets=[t0], value=st.value.elts[0]), st)
                a2 = ast.copy_location(ast.Assign(targets=[t1], value=st.value.elts[1]), st)
                block[i:i + 1] = [a1, a2]
                st = a1
            # ``x = self._a`` ; ``self._a = None``
            if not (isinstance(st, ast.Assign) and len(st.targets) == 1 and isinstance(st.targets[0], ast.Name) and isinstance(st.value, ast.Attribute) and simple(st.value)
                    and i + 1 < len(block)):
                i += 1
                continue
            nx = block[i + 1]
            x, attr = st.targets[0].id, _text(st.value)
            if not (isinstance(nx, ast.Assign) and len(nx.targets) == 1 and _text(nx.targets[0]) == attr and isinstance(nx.value, ast.Constant) and nx.value.value is None
                    and stores[x] == 1):
                i += 1
                continue
            rest = block[i + 2:]
            uses = [j for j, r in enumerate(rest) if any(isinstance(n, ast.Name) and n.id == x for n in ast.walk(r))]
            if not uses:
                i += 1
                continue
            last = uses[-1]
            span = rest[:last + 1]
            loads_all = sum(1 for n in ast.walk(fn) if isinstance(n, ast.Name) and n.id == x and isinstance(n.ctx, ast.Load))
            loads_span = sum(1 for r in span for n in ast.walk(r) if isinstance(n, ast.Name) and n.id == x and isinstance(n.ctx, ast.Load))
            ok = loads_all == loads_span   # every use of the local is in the stretch that is moved over
            for r in span:
                for n in ast.walk(r):
                    if _text(n) == attr if isinstance(n, ast.Attribute) else False:
                        ok = False
                    if isinstance(n, (ast.Await, ast.Yield, ast.YieldFrom, ast.FunctionDef, ast.AsyncFunctionDef, ast.Lambda, ast.For, ast.While, ast.Return, ast.Raise, ast.Try, ast.With)):
                        ok = False
                    if isinstance(n, ast.Call) and not (isinstance(n.func, ast.Attribute) and isinstance(n.func.value, ast.Name) and n.func.value.id == x
                                                        and all(isinstance(a_, ast.Constant) for a_ in n.args) and not n.keywords):
                        ok = False
            if not ok:
                i += 1
                continue
            clear = block.pop(i + 1)
            block.insert(i + 1 + last + 1, clear)
            done.add(x)
            i += 1
    if done:
        ast.fix_missing_locations(fn)
    return done


def _text(e: ast.AST) -> str:
    return ' '.join(ast.unparse(e).split())


def _shadow_locals(fn: ast.AST) -> Set[str]:
    """A local that is kept IN STEP with an attribute of ``self``: every assignment to it is ``x = self._a`` -- or ``x = None`` inside ``if x is None:`` before anything
    was stored into ``self._a`` there -- and whenever ``self._a`` is stored into, the next thing that happens to ``x`` is such a re-synchronisation.  Then ``x`` IS
    ``self._a`` wherever it is read: the reads are rewritten (in place), the assignments to ``x`` dropped.  Straight-line / if code only (no loop around any of it)."""
    if isinstance(fn, ast.Lambda):
        return set()
    done: Set[str] = set()
    pos: Dict[int, int] = {}
    in_loop: Set[int] = set()
    parents: Dict[int, ast.AST] = {}

    def number(nodes, parent, loop, k=[0]):
        for n in nodes:
            k[0] += 1
            pos[id(n)] = k[0]
            parents[id(n)] = parent
            if loop:
                in_loop.add(id(n))
            number(ast.iter_child_nodes(n), n, loop or isinstance(n, (ast.For, ast.While, ast.AsyncFor)), k)
    number(fn.body, fn, False)
    stores: Dict[str, List[ast.Assign]] = {}
    for n in ast.walk(fn):
        if isinstance(n, ast.Assign) and len(n.targets) == 1 and isinstance(n.targets[0], ast.Name):
            stores.setdefault(n.targets[0].id, []).append(n)
    params = {a.arg for a in ast.walk(fn.args) if isinstance(a, ast.arg)} if hasattr(fn, 'args') else set()
    for name, asg in stores.items():
        if len(asg) < 2 or name in params:
            continue
        other_stores = [n for n in ast.walk(fn) if isinstance(n, ast.Name) and n.id == name and isinstance(n.ctx, (ast.Store, ast.Del)) and not any(n is a.targets[0] for a in asg)]
        if other_stores or any(id(a) in in_loop for a in asg):
            continue
        attrs = {_text(a.value) for a in asg if isinstance(a.value, ast.Attribute) and isinstance(a.value.value, ast.Name) and a.value.value.id == 'self'}
        if len(attrs) != 1:
            continue
        attr = next(iter(attrs))
        ok = True
        for a in asg:
            if _text(a.value) == attr:
                continue
            if not (isinstance(a.value, ast.Constant) and a.value.value is None):
                ok = False
                break
            # ``x = None`` only where x (== the attribute) is known to be None and the attribute was not stored into since
            p_ = parents.get(id(a))
            guard = None
            while p_ is not None and p_ is not fn:
                if isinstance(p_, ast.If) and _text(p_.test) in (f'{name} is None', f'{attr} is None') and any(a is x for b in p_.body for x in ast.walk(b)):
                    guard = p_
                    break
                p_ = parents.get(id(p_))
            if guard is None or any(isinstance(x, ast.Attribute) and _text(x) == attr and isinstance(x.ctx, (ast.Store, ast.Del)) and pos[id(guard)] < pos[id(x)] < pos[id(a)]
                                    for x in ast.walk(guard)):
                ok = False
                break
        if not ok:
            continue
        # after every store into the attribute, the next access of the local (in source order) is a re-synchronising assignment -- or there is none
        loads = sorted(pos[id(n)] for n in ast.walk(fn) if isinstance(n, ast.Name) and n.id == name and isinstance(n.ctx, ast.Load))
        syncs = sorted(pos[id(a)] for a in asg)
        for x in ast.walk(fn):
            if isinstance(x, ast.Attribute) and _text(x) == attr and isinstance(x.ctx, (ast.Store, ast.Del)):
                if id(x) in in_loop:
                    ok = False
                    break
                later_loads = [p for p in loads if p > pos[id(x)]]
                later_syncs = [p for p in syncs if p > pos[id(x)]]
                if later_loads and not (later_syncs and later_syncs[0] < later_loads[0]):
                    ok = False
                    break
        if not ok or not loads or min(syncs) > loads[0]:
            continue

        class T(ast.NodeTransformer):
            def visit_Name(self, node):
                if node.id == name and isinstance(node.ctx, ast.Load):
                    return ast.copy_location(ast.parse(attr, mode='eval').body, node)
                return node

            def visit_Assign(self, node):
                if any(node is a for a in asg):
                    return ast.copy_location(ast.Pass(), node)
                return self.generic_visit(node)

            def visit_FunctionDef(self, node):
                return node
            visit_AsyncFunctionDef = visit_FunctionDef
            visit_Lambda = visit_FunctionDef
        fn.body = [T().visit(st) for st in fn.body]
        done.add(name)
    if done:
        ast.fix_missing_locations(fn)
    return done


def _split_records(fn: ast.AST, prog, module) -> Set[str]:
    """A local that only ever holds a freshly built private record -- ``verdict = _KillVerdict(True, outcome)`` (a NamedTuple of the program) or a plain
    ``pair = (True, outcome)`` -- and is only read field by field (``verdict.settled``, ``pair[0]``) is one local per field.  (What a helper that returns
    ``(settled, outcome)`` leaves behind once it is inlined.)"""
    if isinstance(fn, ast.Lambda):
        return set()
    done: Set[str] = set()
    stores: Dict[str, List[ast.Assign]] = {}
    for n in ast.walk(fn):
        if isinstance(n, ast.Assign) and len(n.targets) == 1 and isinstance(n.targets[0], ast.Name):
            stores.setdefault(n.targets[0].id, []).append(n)
    params = {a.arg for a in ast.walk(fn.args) if isinstance(a, ast.arg)}
    parent: Dict[int, ast.AST] = {}
    for n in ast.walk(fn):
        for c in ast.iter_child_nodes(n):
            parent[id(c)] = n
    for name, asg in stores.items():
        if name in params:
            continue
        fields: Optional[List[str]] = None
        ok = True
        for a in asg:
            v = a.value
            if isinstance(v, ast.Call) and not v.keywords and not any(isinstance(x, ast.Starred) for x in v.args):
                k = prog.resolve_class(module, v.func)
                if k is None or not any(_text(b).split('.')[-1] == 'NamedTuple' for b in k.base_exprs) or k.methods:
                    ok = False
                    break
                fl = [st.target.id for st in k.node.body if isinstance(st, ast.AnnAssign) and isinstance(st.target, ast.Name)]
                if len(fl) != len(v.args):
                    ok = False
                    break
            elif isinstance(v, ast.Tuple) and v.elts and not any(isinstance(x, ast.Starred) for x in v.elts):
                fl = [str(i) for i in range(len(v.elts))]
            else:
                ok = False
                break
            if fields is None:
                fields = fl
            elif fields != fl:
                ok = False
                break
        if not ok or not fields:
            continue
        # every other occurrence of the name is a field read
        targets = {id(a.targets[0]) for a in asg}
        reads = [n for n in ast.walk(fn) if isinstance(n, ast.Name) and n.id == name and id(n) not in targets]
        repl: Dict[int, str] = {}
        for r in reads:
            par = parent.get(id(r))
            if not isinstance(r.ctx, ast.Load):
                ok = False
                break
            if isinstance(par, ast.Attribute) and par.value is r and isinstance(par.ctx, ast.Load) and par.attr in fields:
                repl[id(par)] = par.attr
            elif isinstance(par, ast.Subscript) and par.value is r and isinstance(par.ctx, ast.Load) and isinstance(par.slice, ast.Constant) and isinstance(par.slice.value, int) \
                    and 0 <= par.slice.value < len(fields):
                repl[id(par)] = fields[par.slice.value]
            else:
                ok = False
                break
        if not ok or not reads:
            continue
        taken = {n.id for n in ast.walk(fn) if isinstance(n, ast.Name)}
        local = {f: (f'{name}_{f}' if f'{name}_{f}' not in taken else f'{name}__{f}_') for f in fields}

        class T(ast.NodeTransformer):
            def generic_visit(self, node):
                if id(node) in repl:
                    return ast.copy_location(ast.Name(id=local[repl[id(node)]], ctx=ast.Load()), node)
                return super().generic_visit(node)

            def visit_Assign(self, node):
                if any(node is a for a in asg):
                    vals = node.value.args if isinstance(node.value, ast.Call) else node.value.elts
                    # all the fields are computed before any is bound: temporaries only where a value mentions another field's local -- it cannot, the names are new
                    return [ast.copy_location(ast.Assign(targets=[ast.Name(id=local[f], ctx=ast.Store())], value=self.visit(x), lineno=node.lineno, col_offset=node.col_offset), node)
                            for f, x in zip(fields, vals)]
                return self.generic_visit(node)
        new_body = []
        for st in fn.body:
            r = T().visit(st)
            new_body.extend(r if isinstance(r, list) else [r])
        fn.body = new_body
        done.add(name)
    if done:
        ast.fix_missing_locations(fn)
    return done


def _sink_flag_returns(fn: ast.AST) -> Set[str]:
    """``if A: done, out = True, x  elif B: done, out = True, y  else: done, out = False, None`` ; ``if done: return out`` -- what is left of a helper that answers
    "(is it settled, with what)" once it is inlined and its record split -- is the ladder of early returns it was made from: the arms that set the flag return their
    value, the others fall through.  Only when EVERY arm of the ladder (there must be a final else) sets the flag to a constant as one of its last, straight-line
    statements."""
    done: Set[str] = set()

    def arms_of(st: ast.If) -> Optional[List[List[ast.stmt]]]:
        arms = [st.body]
        cur = st
        while len(cur.orelse) == 1 and isinstance(cur.orelse[0], ast.If):
            cur = cur.orelse[0]
            arms.append(cur.body)
        if not cur.orelse:
            return None
        arms.append(cur.orelse)
        return arms

    def tail_consts(arm: List[ast.stmt]) -> Dict[str, ast.expr]:
        """locals bound by the trailing run of plain ``name = expr`` statements of the arm"""
        out: Dict[str, ast.expr] = {}
        for st in reversed(arm):
            if isinstance(st, ast.Assign) and len(st.targets) == 1 and isinstance(st.targets[0], ast.Name):
                out.setdefault(st.targets[0].id, st.value)
            elif isinstance(st, ast.Pass):
                continue
            else:
                break
        return out

    def rewrite(block: List[ast.stmt]) -> List[ast.stmt]:
        out: List[ast.stmt] = []
        i = 0
        while i < len(block):
            st = block[i]
            for fld in ('body', 'orelse', 'finalbody'):
                if isinstance(getattr(st, fld, None), list) and not isinstance(st, (ast.FunctionDef, ast.AsyncFunctionDef, ast.ClassDef)):
                    setattr(st, fld, rewrite(getattr(st, fld)))
            for h in getattr(st, 'handlers', []) or []:
                h.body = rewrite(h.body)
            nxt = block[i + 1] if i + 1 < len(block) else None
            if isinstance(st, ast.If) and isinstance(nxt, ast.If) and not nxt.orelse and len(nxt.body) == 1 and isinstance(nxt.body[0], ast.Return) \
                    and isinstance(nxt.body[0].value, ast.Name) and _text(nxt.test) == f'{nxt.body[0].value.id} is not None':
                # ``if A: r = f() elif B: r = g() else: r = None`` ; ``if r is not None: return r``: the test moves to the end of the arms that bind ``r`` to
                # something (where it stays a test: ``f()`` may hand back None), the arms that bind None fall through
                var = nxt.body[0].value.id
                arms = arms_of(st)
                tails = [tail_consts(a) for a in arms] if arms is not None else []
                reads = [n for n in ast.walk(fn) if isinstance(n, ast.Name) and n.id == var and isinstance(n.ctx, ast.Load)]
                if arms is not None and all(var in t for t in tails) and len(reads) == 2 and any(isinstance(t[var], ast.Constant) and t[var].value is None for t in tails):
                    for a, t in zip(arms, tails):
                        if not (isinstance(t[var], ast.Constant) and t[var].value is None):
                            a.append(copy.deepcopy(nxt))
                    done.add(var)
                    out.append(st)
                    i += 2
                    continue
            if isinstance(st, ast.If) and isinstance(nxt, ast.If) and not nxt.orelse and isinstance(nxt.test, ast.Name) and len(nxt.body) == 1 \
                    and isinstance(nxt.body[0], ast.Return) and nxt.body[0].value is not None and _simple(nxt.body[0].value):
                flag = nxt.test.id
                arms = arms_of(st)
                ok = arms is not None
                tails = [tail_consts(a) for a in arms] if ok else []
                ok = ok and all(flag in t and isinstance(t[flag], ast.Constant) and isinstance(t[flag].value, bool) for t in tails)
                # the flag must not be read anywhere else (it exists only to carry the decision to this test)
                if ok:
                    reads = [n for n in ast.walk(fn) if isinstance(n, ast.Name) and n.id == flag and isinstance(n.ctx, ast.Load)]
                    ok = len(reads) == 1
                if ok:
                    rv = nxt.body[0].value
                    for a, t in zip(arms, tails):
                        if t[flag].value is True:
                            val = t.get(rv.id) if isinstance(rv, ast.Name) else None
                            ret = ast.Return(value=copy.deepcopy(val) if val is not None and _simple(val) else copy.deepcopy(rv))
                            a.append(ast.copy_location(ret, nxt.body[0]))
                    done.add(flag)
                    out.append(st)
                    i += 2
                    continue
            out.append(st)
            i += 1
        return out
    if isinstance(fn, ast.Lambda):
        return done
    fn.body = rewrite(fn.body)
    if done:
        ast.fix_missing_locations(fn)
    return done


def _is_filter_comp(v) -> bool:
    """``[x for x, y in it if self._helper(x, y)]``: one generator, one condition, and the condition is a call of a private helper (which may do the work of the
    loop body it was lifted from)."""
    if not isinstance(v, ast.ListComp) or len(v.generators) != 1:
        return False
    g = v.generators[0]
    if g.is_async or len(g.ifs) != 1 or not isinstance(g.ifs[0], ast.Call):
        return False
    fn = g.ifs[0].func
    name = fn.attr if isinstance(fn, ast.Attribute) else (fn.id if isinstance(fn, ast.Name) else '')
    return name.startswith('_') and not name.startswith('__')


def _lower_filter_comps(stmts: List[ast.stmt], k=[0]) -> List[ast.stmt]:
    """``return [x for t in it if self._h(t)]`` -> ``acc = [] ; for t in it: if self._h(t): acc.append(x)`` ; ``return acc`` (statement level only)."""
    out: List[ast.stmt] = []
    for s in stmts:
        if isinstance(s, (ast.FunctionDef, ast.AsyncFunctionDef, ast.ClassDef)):
            out.append(s)
            continue
        v = getattr(s, 'value', None)
        if isinstance(s, (ast.Assign, ast.Return)) and _is_filter_comp(v):
            k[0] += 1
            acc = f'collected_{k[0]}'
            g = v.generators[0]
            app = ast.Expr(value=ast.Call(func=ast.Attribute(value=ast.Name(id=acc, ctx=ast.Load()), attr='append', ctx=ast.Load()), args=[v.elt], keywords=[]))
            loop = ast.For(target=g.target, iter=g.iter, body=[ast.If(test=g.ifs[0], body=[app], orelse=[])], orelse=[])
            init = ast.Assign(targets=[ast.Name(id=acc, ctx=ast.Store())], value=ast.List(elts=[], ctx=ast.Load()))
            s.value = ast.Name(id=acc, ctx=ast.Load())
            for x in (init, loop, s):
                ast.copy_location(x, s)
                ast.fix_missing_locations(x)
            out += [init, loop, s]
            continue
        for fld in ('body', 'orelse', 'finalbody'):
            if isinstance(getattr(s, fld, None), list):
                setattr(s, fld, _lower_filter_comps(getattr(s, fld)))
        for h in getattr(s, 'handlers', []) or []:
            h.body = _lower_filter_comps(h.body)
        out.append(s)
    return out


def _split_pair_assigns(fn: ast.AST) -> bool:
    """``a, b = (x, y)`` where neither ``a`` nor ``b`` occurs in ``x`` or ``y`` and both are plain locals is ``a = x`` ; ``b = y`` (what an inlined helper that returns
    a pair leaves behind).  Values are simple (names, attributes, constants, empty displays): evaluation order is immaterial."""
    if isinstance(fn, ast.Lambda):
        return False
    hit = [False]

    def ok_value(v: ast.expr) -> bool:
        return _simple(v) or (isinstance(v, (ast.Tuple, ast.List, ast.Dict)) and not (getattr(v, 'elts', None) or getattr(v, 'keys', None)))

    def rewrite(block: List[ast.stmt]) -> List[ast.stmt]:
        out: List[ast.stmt] = []
        for st in block:
            if isinstance(st, (ast.FunctionDef, ast.AsyncFunctionDef, ast.ClassDef)):
                out.append(st)
                continue
            for fld in ('body', 'orelse', 'finalbody'):
                if isinstance(getattr(st, fld, None), list):
                    setattr(st, fld, rewrite(getattr(st, fld)))
            for h in getattr(st, 'handlers', []) or []:
                h.body = rewrite(h.body)
            if isinstance(st, ast.Assign) and len(st.targets) == 1 and isinstance(st.targets[0], ast.Tuple) and isinstance(st.value, ast.Tuple) \
                    and len(st.targets[0].elts) == len(st.value.elts) and all(isinstance(t, ast.Name) for t in st.targets[0].elts) and all(ok_value(v) for v in st.value.elts):
                tn = {t.id for t in st.targets[0].elts}
                used = {x.id for v in st.value.elts for x in ast.walk(v) if isinstance(x, ast.Name)}
                if not (tn & used) and len(tn) == len(st.targets[0].elts):
                    for t, v in zip(st.targets[0].elts, st.value.elts):
                        out.append(ast.copy_location(ast.Assign(targets=[t], value=v, lineno=st.lineno, col_offset=st.col_offset), st))
                    hit[0] = True
                    continue
            out.append(st)
        return out
    fn.body = rewrite(fn.body)
    if hit[0]:
        ast.fix_missing_locations(fn)
    return hit[0]


def _name_uses(fn: ast.AST, name: str) -> List[Tuple[Optional[ast.AST], ast.Name]]:
    """(parent, node) for every read of the local ``name`` in the function"""
    out = []
    for par in ast.walk(fn):
        for ch in ast.iter_child_nodes(par):
            if isinstance(ch, ast.Name) and ch.id == name and isinstance(ch.ctx, ast.Load):
                out.append((par, ch))
    return out


def _unroll_record_loops(fn: ast.AST, prog, module) -> bool:
    """``for r in (Route(A, self._a), Route(B, self._b)): if key == r.key: return await r.handler(x)`` -- a routing table written out in place (or handed back by an
    inlined one-expression helper) -- is the if-ladder ``if key == A: return await self._a(x)`` ; ``if key == B: ...``.  Conditions: a literal tuple / list of at most 8
    record constructions (one NamedTuple class of the program, or plain tuples of one length) whose fields are simple expressions, a loop variable that is only read
    field by field (or unpacked in the loop header), no ``break`` / ``continue`` / ``else``."""
    if isinstance(fn, ast.Lambda):
        return False
    hit = [False]

    def fields_of(e: ast.expr) -> Optional[Tuple[List[str], List[ast.expr]]]:
        if isinstance(e, ast.Call) and not e.keywords and not any(isinstance(a, ast.Starred) for a in e.args):
            k = prog.resolve_class(module, e.func)
            if k is None or not any(_text(b).split('.')[-1] == 'NamedTuple' for b in k.base_exprs):
                return None
            fl = [st.target.id for st in k.node.body if isinstance(st, ast.AnnAssign) and isinstance(st.target, ast.Name)]
            return (fl, list(e.args)) if len(fl) == len(e.args) else None
        if isinstance(e, ast.Tuple) and e.elts and not any(isinstance(a, ast.Starred) for a in e.elts):
            return [str(i) for i in range(len(e.elts))], list(e.elts)
        return None

    def rewrite(block: List[ast.stmt]) -> List[ast.stmt]:
        out: List[ast.stmt] = []
        for st in block:
            if isinstance(st, (ast.FunctionDef, ast.AsyncFunctionDef, ast.ClassDef)):
                out.append(st)
                continue
            for fld in ('body', 'orelse', 'finalbody'):
                if isinstance(getattr(st, fld, None), list):
                    setattr(st, fld, rewrite(getattr(st, fld)))
            for h in getattr(st, 'handlers', []) or []:
                h.body = rewrite(h.body)
            if isinstance(st, ast.For) and not st.orelse and isinstance(st.iter, (ast.Tuple, ast.List)) and 1 <= len(st.iter.elts) <= 8:
                recs = [fields_of(e) for e in st.iter.elts]
                if all(r is not None for r in recs) and len({tuple(r[0]) for r in recs}) == 1 and all(_simple(v) for r in recs for v in r[1]) \
                        and not any(isinstance(n, (ast.Break, ast.Continue)) for b in st.body for n in ast.walk(b)):
                    names = recs[0][0]
                    ok = True
                    if isinstance(st.target, ast.Name):
                        var = st.target.id
                        parent = {id(c): p for b in st.body for p in ast.walk(b) for c in ast.iter_child_nodes(p)}
                        for b in st.body:
                            for n in ast.walk(b):
                                if isinstance(n, ast.Name) and n.id == var:
                                    par = parent.get(id(n))
                                    if not (isinstance(n.ctx, ast.Load) and ((isinstance(par, ast.Attribute) and par.attr in names) or (
                                            isinstance(par, ast.Subscript) and par.value is n and isinstance(par.slice, ast.Constant) and isinstance(par.slice.value, int) and 0 <= par.slice.value < len(names)))):
                                        ok = False
                    elif isinstance(st.target, ast.Tuple) and all(isinstance(t, ast.Name) for t in st.target.elts) and len(st.target.elts) == len(names):
                        var = None
                        if any(isinstance(n, ast.Name) and n.id in {t.id for t in st.target.elts} and not isinstance(n.ctx, ast.Load) for b in st.body for n in ast.walk(b)):
                            ok = False
                    else:
                        ok = False
                    if ok:
                        for fl, vals in recs:
                            if var is not None:
                                class T(ast.NodeTransformer):
                                    def visit_Attribute(self, node, _fl=fl, _vals=vals):
                                        if isinstance(node.value, ast.Name) and node.value.id == var and node.attr in _fl:
                                            return ast.copy_location(copy.deepcopy(_vals[_fl.index(node.attr)]), node)
                                        return self.generic_visit(node)

                                    def visit_Subscript(self, node, _vals=vals):
                                        if isinstance(node.value, ast.Name) and node.value.id == var and isinstance(node.slice, ast.Constant):
                                            return ast.copy_location(copy.deepcopy(_vals[node.slice.value]), node)
                                        return self.generic_visit(node)
                            else:
                                tn = [t.id for t in st.target.elts]

                                class T(ast.NodeTransformer):   # type: ignore[no-redef]
                                    def visit_Name(self, node, _tn=tn, _vals=vals):
                                        if node.id in _tn and isinstance(node.ctx, ast.Load):
                                            return ast.copy_location(copy.deepcopy(_vals[_tn.index(node.id)]), node)
                                        return node
                            out.extend(T().visit(copy.deepcopy(b)) for b in st.body)
                        hit[0] = True
                        continue
            out.append(st)
        return out
    fn.body = rewrite(fn.body)
    if hit[0]:
        ast.fix_missing_locations(fn)
    return hit[0]
