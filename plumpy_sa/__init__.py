"""Static analysis engine for the plumpy property checks (stdlib ``ast`` only).

Nothing in this package imports or executes plumpy (the thorough tier's
resolved-program cross-check imports class objects for ``inspect`` only, in
``crosscheck.py``, and never instantiates or runs anything).
"""
