"""Program model: modules, classes (with C3 MRO), functions (incl. nested), constants.

Every lookup that a rule needs and that fails raises ``AnalysisError`` -- the
engine is fail-closed: "I cannot find my way around" is never a pass.
"""
from __future__ import annotations

import ast
import hashlib
import os
from typing import Dict, Iterable, Iterator, List, Optional, Sequence, Tuple, Union

REPO = os.environ.get('PLUMPY_SA_REPO', '/repo')
PKG_REL = 'src/plumpy'


class AnalysisError(Exception):
    """The analysis itself cannot be trusted (exit code 2)."""


def unparse(node: Optional[ast.AST]) -> str:
    if node is None:
        return ''
    return ast.unparse(node)


class FuncInfo:
    origin: Optional['FuncInfo'] = None  # set on analysis views produced by inline.Inliner

    def __init__(self, node, module: 'Module', cls: Optional['ClassInfo'], parent: Optional['FuncInfo']):
        self.node: Union[ast.FunctionDef, ast.AsyncFunctionDef, ast.Lambda] = node
        self.module = module
        self.cls = cls
        self.parent = parent
        self.name = getattr(node, 'name', '<lambda>')
        self.nested: Dict[str, FuncInfo] = {}
        self.lambdas: List[FuncInfo] = []
        self.is_async = isinstance(node, ast.AsyncFunctionDef)
        self.decorators: List[ast.expr] = list(getattr(node, 'decorator_list', []))

    @property
    def owner_class(self) -> Optional['ClassInfo']:
        """The class whose ``self`` is in scope (own class or that of an enclosing method)."""
        f: Optional[FuncInfo] = self
        while f is not None:
            if f.cls is not None:
                return f.cls
            f = f.parent
        return None

    @property
    def short(self) -> str:
        """Path inside the module: ``Class.method.nested``."""
        parts = [self.name]
        top = self
        while top.parent is not None:
            top = top.parent
            parts.append(top.name)
        if top.cls is not None:
            parts.append(top.cls.name)
        return '.'.join(reversed(parts))

    @property
    def qualname(self) -> str:
        # (a method re-homed from a dissolved mixin is named by the class that has it; ``module`` stays the module its names resolve in)
        home = getattr(self, 'home', None)
        if home is None and self.parent is not None:
            top = self
            while top.parent is not None:
                top = top.parent
            home = getattr(top, 'home', None)
        return f'{(home or self.module).short}.{self.short}'

    def decorator_names(self) -> List[str]:
        out = []
        for d in self.decorators:
            if isinstance(d, ast.Call):
                d = d.func
            out.append(unparse(d))
        return out

    def has_decorator(self, name: str) -> bool:
        return any(n == name or n.endswith('.' + name) for n in self.decorator_names())

    def decorator_call(self, name: str) -> Optional[ast.Call]:
        for d in self.decorators:
            if isinstance(d, ast.Call):
                n = unparse(d.func)
                if n == name or n.endswith('.' + name):
                    return d
        return None

    @property
    def params(self) -> List[str]:
        a = self.node.args
        return [x.arg for x in a.posonlyargs + a.args]

    @property
    def body(self) -> List[ast.stmt]:
        if isinstance(self.node, ast.Lambda):
            return [ast.Return(value=self.node.body, lineno=self.node.lineno, col_offset=0)]
        return self.node.body

    @property
    def lineno(self) -> int:
        return self.node.lineno

    def where(self, node: Optional[ast.AST] = None) -> str:
        line = getattr(node, 'lineno', None) or self.node.lineno
        return f'{self.module.rel}:{line} {self.short}'

    def __repr__(self) -> str:
        return f'<Func {self.qualname}>'


class ClassInfo:
    def __init__(self, node: ast.ClassDef, module: 'Module'):
        self.node = node
        self.module = module
        self.name = node.name
        self.methods: Dict[str, FuncInfo] = {}
        self.attrs: Dict[str, ast.expr] = {}  # class-level assignments  name -> value expr
        self.annots: Dict[str, ast.expr] = {}  # class-level annotations  name -> annotation
        self.base_exprs = list(node.bases)
        self.bases: List[Union['ClassInfo', str]] = []  # resolved later
        self._mro: Optional[List[Union['ClassInfo', str]]] = None
        self.decorators = list(node.decorator_list)

    @property
    def qualname(self) -> str:
        return f'{self.module.short}.{self.name}'

    @property
    def vmethods(self) -> Dict[str, FuncInfo]:
        """The methods as the rules should read them: their analysis views (private helpers inlined, aliases read through)."""
        prog = getattr(self.module, 'prog', None)
        if prog is None:
            return self.methods
        return {k: prog.view(f) for k, f in self.methods.items()}

    @property
    def emethods(self) -> Dict[str, FuncInfo]:
        """``vmethods`` without the private helpers that are inlined at every one of their call sites: a rule that looks at ALL the methods of a class sees such a
        helper's statements as part of its callers, not a second time as a method of its own."""
        prog = getattr(self.module, 'prog', None)
        if prog is None or getattr(prog, 'inliner', None) is None:
            return self.vmethods
        from .rules import subsumed_helpers
        sub = subsumed_helpers(prog)
        return {k: prog.view(f) for k, f in self.methods.items() if id(f.node) not in sub}

    def mro(self) -> List[Union['ClassInfo', str]]:
        if self._mro is None:
            self._mro = _c3(self)
        return self._mro

    def mro_classes(self) -> List['ClassInfo']:
        return [c for c in self.mro() if isinstance(c, ClassInfo)]

    def external_bases(self) -> List[str]:
        return [c for c in self.mro() if isinstance(c, str)]

    def lookup(self, name: str) -> Optional[FuncInfo]:
        for c in self.mro_classes():
            if name in c.methods:
                return c.methods[name]
        return None

    def lookup_after(self, after: 'ClassInfo', name: str) -> Optional[FuncInfo]:
        """``super()`` lookup: first definition after class ``after`` in self's MRO."""
        seen = False
        for c in self.mro_classes():
            if seen and name in c.methods:
                return c.methods[name]
            if c is after:
                seen = True
        return None

    def lookup_attr(self, name: str) -> Optional[Tuple['ClassInfo', ast.expr]]:
        for c in self.mro_classes():
            if name in c.attrs:
                return c, c.attrs[name]
        return None

    def is_subclass_of(self, other: Union['ClassInfo', str]) -> bool:
        if isinstance(other, str):
            return other in self.external_bases()
        return other in self.mro_classes()

    def where(self) -> str:
        return f'{self.module.rel}:{self.node.lineno} {self.name}'

    def decorator_calls(self, name: str) -> List[ast.Call]:
        out = []
        for d in self.decorators:
            if isinstance(d, ast.Call):
                n = unparse(d.func)
                if n == name or n.endswith('.' + name):
                    out.append(d)
        return out

    def __repr__(self) -> str:
        return f'<Class {self.qualname}>'


def _c3(cls: ClassInfo) -> List[Union[ClassInfo, str]]:
    def merge(seqs: List[List]) -> List:
        res = []
        seqs = [list(s) for s in seqs if s]
        while seqs:
            for s in seqs:
                head = s[0]
                if not any(head in t[1:] for t in seqs):
                    break
            else:
                raise AnalysisError(f'inconsistent MRO for {cls.qualname}')
            res.append(head)
            for t in seqs:
                if t and t[0] == head:
                    del t[0]
            seqs = [s for s in seqs if s]
        return res

    parents = []
    for b in cls.bases:
        parents.append(b.mro() if isinstance(b, ClassInfo) else [b])
    return [cls] + merge(parents + [list(cls.bases)])


class Module:
    def __init__(self, short: str, path: str, rel: str):
        self.short = short  # e.g. 'processes', 'base.state_machine'
        self.path = path
        self.rel = rel  # path relative to the repo root
        with open(path, 'rb') as fh:
            raw = fh.read()
        self.digest = hashlib.sha256(raw).hexdigest()
        self.source = raw.decode('utf-8')
        try:
            self.tree = ast.parse(self.source, filename=path)
        except SyntaxError as exc:  # pragma: no cover
            raise AnalysisError(f'cannot parse {path}: {exc}')
        self.classes: Dict[str, ClassInfo] = {}
        self.functions: Dict[str, FuncInfo] = {}
        self.constants: Dict[str, ast.expr] = {}
        # alias -> ('module', 'plumpy.x') | ('name', 'plumpy.x', 'Name') | ('ext', 'kiwipy') | ('extname','asyncio','Future')
        self.imports: Dict[str, Tuple] = {}
        self.all_funcs: List[FuncInfo] = []

    @property
    def dotted(self) -> str:
        return 'plumpy.' + self.short if self.short != '__init__' else 'plumpy'

    def __repr__(self) -> str:
        return f'<Module {self.short}>'


class Program:
    def __init__(self, repo: Optional[str] = None):
        self.folded = {}     # private helper (as named by the rules) -> the caller it was folded into on THIS tree
        self.repo = repo or REPO
        self.pkg = os.path.join(self.repo, PKG_REL)
        if not os.path.isdir(self.pkg):
            raise AnalysisError(f'package directory not found: {self.pkg}')
        self.modules: Dict[str, Module] = {}
        for root, _dirs, files in os.walk(self.pkg):
            for fn in sorted(files):
                if not fn.endswith('.py'):
                    continue
                path = os.path.join(root, fn)
                relpkg = os.path.relpath(path, self.pkg)[:-3].replace(os.sep, '.')
                short = relpkg
                if short.endswith('.__init__'):
                    short = short[: -len('.__init__')] + '.__init__'
                rel = os.path.relpath(path, self.repo)
                self.modules[short] = Module(short, path, rel)
        # private names that were consistently renamed are renamed back (alpha.py): the checkers name the members they reason about
        from . import alpha
        trees = {k: m.tree for k, m in self.modules.items()}
        self.alpha_map: Dict[str, str] = alpha.rename_back(trees)
        for m in self.modules.values():
            m.prog = self  # type: ignore[attr-defined]
            self._index_module(m)
        for m in self.modules.values():
            for c in m.classes.values():
                c.bases = [self._resolve_base(m, b) for b in c.base_exprs]
        self._rehome_new_bases()
        self._subclasses: Dict[ClassInfo, List[ClassInfo]] = {}
        for c in self.all_classes():
            c.mro()
        for c in self.all_classes():
            for p in c.mro_classes()[1:]:
                self._subclasses.setdefault(p, []).append(c)

    def _rehome_new_bases(self) -> None:
        """A class that is NEW with respect to the tree the rules were written against (not in the baseline's class list), has no constructor of its own and is
        there only to be inherited from -- a mixin or private base that a group of methods was moved into -- is dissolved: each direct subclass gets the methods and
        class attributes it does not override (names inside them keep resolving in the module they are written in), and inherits from the new class's own bases in its
        place.  That is what inheritance does at run time; the rules keep naming the methods by the class that HAS them."""
        import copy as _copy
        from . import alpha
        known = alpha.baseline_classes()
        if known is None:
            return
        known = set(known)
        self.rehomed: List[str] = []
        for m in list(self.modules.values()):
            for M in list(m.classes.values()):
                q = f'{m.short}.{M.name}'
                if q in known or '__init__' in M.methods or M.node.keywords or M.node.decorator_list:
                    continue
                subs = [c for c in self.all_classes() if any(b is M for b in c.bases)]
                if not subs or any(isinstance(b, ClassInfo) and b.node.keywords for b in M.bases):
                    continue
                # (an enum, an exception, a dataclass-like holder is instantiated, not inherited from: only classes every use of which is "being a base")
                used_otherwise = False
                for mod2 in self.modules.values():
                    for n in ast.walk(mod2.tree):
                        if isinstance(n, ast.Call) and isinstance(n.func, (ast.Name, ast.Attribute)) and (n.func.id if isinstance(n.func, ast.Name) else n.func.attr) == M.name:
                            used_otherwise = True
                if used_otherwise:
                    continue
                for S in subs:
                    for name, g in M.methods.items():
                        if name in S.methods:
                            continue
                        node = _copy.deepcopy(g.node)
                        f2 = FuncInfo(node, g.module, S, None)
                        f2.home = S.module   # type: ignore[attr-defined]
                        S.methods[name] = f2
                        S.module.all_funcs.append(f2)
                        self._index_nested(f2, g.module)
                    for a_, v_ in M.attrs.items():
                        S.attrs.setdefault(a_, v_)
                    for a_, v_ in M.annots.items():
                        S.annots.setdefault(a_, v_)
                    new_bases = []
                    for b in S.bases:
                        if b is M:
                            new_bases.extend(x for x in M.bases if x not in new_bases and x not in S.bases and not (isinstance(x, str) and x.split('.')[-1] == 'object'))
                        else:
                            new_bases.append(b)
                    S.bases = new_bases
                    S._mro = None
                drop = {id(g) for g in M.methods.values()}

                def nested_ids(fi):
                    for h in list(fi.nested.values()) + list(fi.lambdas):
                        drop.add(id(h))
                        nested_ids(h)
                for g in M.methods.values():
                    nested_ids(g)
                m.all_funcs[:] = [f for f in m.all_funcs if id(f) not in drop]
                del m.classes[M.name]
                self.rehomed.append(q)

    # ------------------------------------------------------------------ indexing
    def _index_module(self, m: Module) -> None:
        pkgparts = ('plumpy.' + m.short).split('.')[:-1]  # package of this module

        def absolutise(level: int, mod: Optional[str]) -> str:
            if level == 0:
                return mod or ''
            base = pkgparts[: len(pkgparts) - (level - 1)]
            return '.'.join(base + ([mod] if mod else []))

        for node in ast.walk(m.tree):
            if isinstance(node, ast.Import):
                for a in node.names:
                    alias = a.asname or a.name.split('.')[0]
                    if a.name.startswith('plumpy'):
                        m.imports[alias] = ('module', a.name if a.asname else a.name.split('.')[0])
                    else:
                        m.imports[alias] = ('ext', a.name if a.asname else a.name.split('.')[0])
            elif isinstance(node, ast.ImportFrom):
                src = absolutise(node.level, node.module)
                for a in node.names:
                    alias = a.asname or a.name
                    if src.startswith('plumpy'):
                        sub = f'{src}.{a.name}'
                        if self._mod_short(sub) in self.modules:
                            m.imports[alias] = ('module', sub)
                        else:
                            m.imports[alias] = ('name', src, a.name)
                    else:
                        m.imports[alias] = ('extname', src, a.name)

        def visit_func(node, cls, parent) -> FuncInfo:
            f = FuncInfo(node, m, cls, parent)
            m.all_funcs.append(f)
            self._index_nested(f, m)
            return f

        for node in m.tree.body:
            self._index_toplevel(node, m, visit_func)

    def _index_toplevel(self, node, m: Module, visit_func) -> None:
        if isinstance(node, ast.ClassDef):
            c = ClassInfo(node, m)
            m.classes[c.name] = c
            for sub in node.body:
                if isinstance(sub, (ast.FunctionDef, ast.AsyncFunctionDef)):
                    f = visit_func(sub, c, None)
                    # property setters share the name: keep the getter under the name, setter under name.setter
                    if any(unparse(d).endswith('.setter') for d in sub.decorator_list):
                        c.methods[sub.name + '.setter'] = f
                    else:
                        c.methods[sub.name] = f
                elif isinstance(sub, ast.Assign):
                    for t in sub.targets:
                        if isinstance(t, ast.Name):
                            c.attrs[t.id] = sub.value
                elif isinstance(sub, ast.AnnAssign) and isinstance(sub.target, ast.Name):
                    c.annots[sub.target.id] = sub.annotation
                    if sub.value is not None:
                        c.attrs[sub.target.id] = sub.value
        elif isinstance(node, (ast.FunctionDef, ast.AsyncFunctionDef)):
            m.functions[node.name] = visit_func(node, None, None)
        elif isinstance(node, ast.Assign):
            for t in node.targets:
                if isinstance(t, ast.Name):
                    m.constants[t.id] = node.value
        elif isinstance(node, ast.AnnAssign) and isinstance(node.target, ast.Name) and node.value is not None:
            m.constants[node.target.id] = node.value
        elif isinstance(node, (ast.If, ast.Try)):
            for sub in ast.iter_child_nodes(node):
                if isinstance(sub, ast.stmt):
                    self._index_toplevel(sub, m, visit_func)
                elif isinstance(sub, ast.ExceptHandler):
                    for s2 in sub.body:
                        self._index_toplevel(s2, m, visit_func)

    def _index_nested(self, f: FuncInfo, m: Module) -> None:
        def walk(node):
            for child in ast.iter_child_nodes(node):
                if isinstance(child, (ast.FunctionDef, ast.AsyncFunctionDef)):
                    g = FuncInfo(child, m, None, f)
                    m.all_funcs.append(g)
                    f.nested[child.name] = g
                    self._index_nested(g, m)
                elif isinstance(child, ast.Lambda):
                    g = FuncInfo(child, m, None, f)
                    m.all_funcs.append(g)
                    f.lambdas.append(g)
                    self._index_nested(g, m)
                elif isinstance(child, ast.ClassDef):
                    continue
                else:
                    walk(child)

        if isinstance(f.node, ast.Lambda):
            walk(f.node.body) if not isinstance(f.node.body, ast.Lambda) else None
            if isinstance(f.node.body, ast.Lambda):
                g = FuncInfo(f.node.body, m, None, f)
                m.all_funcs.append(g)
                f.lambdas.append(g)
        else:
            for s in f.node.body:
                if isinstance(s, (ast.FunctionDef, ast.AsyncFunctionDef)):
                    g = FuncInfo(s, m, None, f)
                    m.all_funcs.append(g)
                    f.nested[s.name] = g
                    self._index_nested(g, m)
                else:
                    walk(s)
            for d in f.node.args.defaults + f.node.args.kw_defaults:
                if d is not None:
                    walk(d)

    @staticmethod
    def _mod_short(dotted: str) -> str:
        if dotted == 'plumpy':
            return '__init__'
        return dotted[len('plumpy.'):] if dotted.startswith('plumpy.') else dotted

    # ------------------------------------------------------------------ resolution
    def module(self, short: str) -> Module:
        try:
            return self.modules[short]
        except KeyError:
            raise AnalysisError(f'module plumpy.{short} not found')

    def resolve(self, m: Module, expr: ast.expr) -> Optional[Union[ClassInfo, FuncInfo, Module, Tuple]]:
        """Resolve a Name / dotted Attribute in module ``m`` to a plumpy entity, an external ('ext', dotted) or None."""
        if isinstance(expr, ast.Constant) and isinstance(expr.value, str):
            try:
                expr = ast.parse(expr.value, mode='eval').body
            except SyntaxError:
                return None
        if isinstance(expr, ast.Subscript):  # Optional[X] etc. are not resolved here
            return None
        if isinstance(expr, ast.Name):
            return self._resolve_name(m, expr.id)
        if isinstance(expr, ast.Attribute):
            base = self.resolve(m, expr.value)
            if isinstance(base, Module):
                return self._member(base, expr.attr)
            if isinstance(base, tuple) and base[0] == 'ext':
                return ('ext', base[1] + '.' + expr.attr)
            if isinstance(base, ClassInfo):
                f = base.lookup(expr.attr)
                if f is not None:
                    return f
                a = base.lookup_attr(expr.attr)
                if a is not None:
                    return ('classattr', a[0], expr.attr, a[1])
                return None
        return None

    def _member(self, mod: Module, name: str, _depth: int = 0):
        if name in mod.classes:
            return mod.classes[name]
        if name in mod.functions:
            return mod.functions[name]
        if name in mod.constants:
            v = mod.constants[name]
            # alias constants such as ``Future = asyncio.Future`` / ``TaskRejected = kiwipy.TaskRejected``
            if isinstance(v, (ast.Attribute, ast.Name)) and _depth < 4:
                r = self.resolve(mod, v)
                if r is not None:
                    return r
            return ('const', mod, name, v)
        if name in mod.imports and _depth < 4:
            return self._resolve_name(mod, name, _depth + 1)
        sub = f'{mod.short}.{name}' if mod.short != '__init__' else name
        if sub in self.modules:
            return self.modules[sub]
        return None

    def _resolve_name(self, m: Module, name: str, _depth: int = 0):
        if name in m.classes or name in m.functions or name in m.constants:
            return self._member(m, name, _depth)
        imp = m.imports.get(name)
        if imp is None:
            return None
        if imp[0] == 'module':
            short = self._mod_short(imp[1])
            if short in self.modules:
                return self.modules[short]
            if short + '.__init__' in self.modules:
                return self.modules[short + '.__init__']
            return None
        if imp[0] == 'name':
            short = self._mod_short(imp[1])
            mod = self.modules.get(short) or self.modules.get(short + '.__init__')
            if mod is None:
                return None
            return self._member(mod, imp[2], _depth + 1)
        if imp[0] == 'ext':
            return ('ext', imp[1])
        if imp[0] == 'extname':
            return ('ext', f'{imp[1]}.{imp[2]}')
        return None

    def _resolve_base(self, m: Module, expr: ast.expr) -> Union[ClassInfo, str]:
        r = self.resolve(m, expr)
        if isinstance(r, ClassInfo):
            return r
        if isinstance(r, tuple) and r[0] == 'ext':
            return r[1]
        return unparse(expr)

    def resolve_class(self, m: Module, expr: ast.expr) -> Optional[ClassInfo]:
        r = self.resolve(m, expr)
        return r if isinstance(r, ClassInfo) else None

    # ------------------------------------------------------------------ lookups (fail closed)
    def cls(self, qual: str) -> ClassInfo:
        mod, _, name = qual.rpartition('.')
        m = self.module(mod)
        if name not in m.classes:
            raise AnalysisError(f'anchor class {qual} not found')
        return m.classes[name]

    def func(self, qual: str, raw: bool = False, _alt: bool = False) -> FuncInfo:
        """'processes.Process.kill', 'futures.create_task.run_task', 'processes.Process._create_interrupt_action.do_kill'"""
        for short in sorted(self.modules, key=len, reverse=True):
            if qual.startswith(short + '.'):
                rest = qual[len(short) + 1:].split('.')
                m = self.modules[short]
                cur: Optional[FuncInfo] = None
                if rest[0] in m.classes:
                    c = m.classes[rest[0]]
                    if len(rest) < 2:
                        break
                    if rest[1] not in c.methods:
                        # the method the class HAS, wherever along its bases it is written (a group of private methods moved into a mixin / private base class)
                        inherited = c.lookup(rest[1])
                        if inherited is None:
                            break
                        cur = inherited
                    else:
                        cur = c.methods[rest[1]]
                    rest = rest[2:]
                elif rest[0] in m.functions:
                    cur = m.functions[rest[0]]
                    rest = rest[1:]
                else:
                    break
                for part in rest:
                    if part not in cur.nested:
                        cur = None
                        break
                    cur = cur.nested[part]
                if cur is not None:
                    return self.view(cur) if not raw else cur
                break
        # a PRIVATE helper that takes no self is the same thing as a static method of a class and as a function of the module next to
        # it (``Savable._set_meta_type(...)`` <-> ``_set_meta_type(...)``): look for the other spelling before giving up
        if not _alt:
            for short in sorted(self.modules, key=len, reverse=True):
                if qual.startswith(short + '.'):
                    rest = qual[len(short) + 1:].split('.')
                    m = self.modules[short]
                    if len(rest) == 2 and rest[0] in m.classes and rest[1].startswith('_') and not rest[1].startswith('__') and rest[1] in m.functions:
                        return self.func(f'{short}.{rest[1]}', raw, _alt=True)
                    if len(rest) == 1 and rest[0].startswith('_') and not rest[0].startswith('__'):
                        for c in m.classes.values():
                            g = c.methods.get(rest[0])
                            if g is not None and g.has_decorator('staticmethod'):
                                return self.func(f'{short}.{c.name}.{rest[0]}', raw, _alt=True)
                    break
        # a private helper with ONE caller on the tree the rules were written against, gone now while that caller is still there: it was folded into the caller,
        # which is where its statements are to be found (a nested function of the helper is looked up in the caller as well)
        if not _alt:
            from . import alpha as _alpha
            callers = _alpha.baseline_callers()
            parts = qual.split('.')
            for cut in range(len(parts), 1, -1):
                head = '.'.join(parts[:cut])
                last = parts[cut - 1]
                if head in callers and last.startswith('_') and not last.startswith('__') and len(callers[head]) == 1:
                    try:
                        host = self.func(callers[head][0], raw, _alt=True)
                    except AnalysisError:
                        break
                    for part in parts[cut:]:
                        if part not in host.nested:
                            raise AnalysisError(f'anchor function {qual} not found (its helper {head} was folded into {callers[head][0]}, which has no {part})')
                        host = host.nested[part]
                    self.folded[head] = callers[head][0]
                    return host
        raise AnalysisError(f'anchor function {qual} not found')


    inliner = None  # set by report.Ctx once call resolution is available

    def view(self, f: FuncInfo) -> FuncInfo:
        """Analysis view of ``f`` with non-anchor private helpers inlined (see inline.py)."""
        if self.inliner is None or f is None:
            return f
        return self.inliner.view(f)

    def try_func(self, qual: str) -> Optional[FuncInfo]:
        try:
            return self.func(qual)
        except AnalysisError:
            return None

    def all_classes(self) -> Iterator[ClassInfo]:
        for m in self.modules.values():
            yield from m.classes.values()

    def all_funcs(self) -> Iterator[FuncInfo]:
        for m in self.modules.values():
            yield from m.all_funcs

    def subclasses(self, c: ClassInfo) -> List[ClassInfo]:
        return list(self._subclasses.get(c, []))

    def overrides(self, c: ClassInfo, name: str) -> List[FuncInfo]:
        """Definitions of ``name`` that a call on an instance of static type ``c`` may reach."""
        out = []
        f = c.lookup(name)
        if f is not None:
            out.append(f)
        for s in self.subclasses(c):
            if name in s.methods and s.methods[name] not in out:
                out.append(s.methods[name])
        return out

    def methods_named(self, name: str) -> List[FuncInfo]:
        out = []
        for c in self.all_classes():
            if name in c.methods:
                out.append(c.methods[name])
        return out

    def digest(self, shorts: Optional[Iterable[str]] = None) -> str:
        h = hashlib.sha256()
        for s in sorted(shorts or self.modules):
            h.update(s.encode())
            h.update(self.modules[s].digest.encode())
        return h.hexdigest()

    # ------------------------------------------------------------------ constant folding
    def fold(self, m: Module, expr: ast.expr, cls: Optional[ClassInfo] = None, _depth: int = 0):
        """Fold to python constants; enum members become 'Enum.MEMBER' strings wrapped in EnumMember."""
        if _depth > 6:
            return UNKNOWN
        if isinstance(expr, ast.Constant):
            return expr.value
        if isinstance(expr, (ast.Set, ast.Tuple, ast.List)):
            vals = [self.fold(m, e, cls, _depth + 1) for e in expr.elts]
            if any(v is UNKNOWN for v in vals):
                return UNKNOWN
            if isinstance(expr, ast.Set):
                return frozenset(vals)
            return tuple(vals)
        if isinstance(expr, ast.Call) and unparse(expr.func) == 'set' and not expr.args:
            return frozenset()
        if isinstance(expr, ast.Attribute):
            # self.X / cls.X -> class attribute
            if isinstance(expr.value, ast.Name) and expr.value.id in ('self', 'cls') and cls is not None:
                a = cls.lookup_attr(expr.attr)
                if a is not None:
                    return self.fold(a[0].module, a[1], a[0], _depth + 1)
                return UNKNOWN
            base = self.resolve(m, expr.value)
            if isinstance(base, ClassInfo):
                if any(isinstance(b, str) and b.split('.')[-1] == 'Enum' for b in base.mro()):
                    if expr.attr in base.attrs:
                        return EnumMember(base.name, expr.attr)
                    return UNKNOWN
                a = base.lookup_attr(expr.attr)
                if a is not None:
                    return self.fold(a[0].module, a[1], a[0], _depth + 1)
                return UNKNOWN
            if isinstance(base, Module):
                if expr.attr in base.constants:
                    return self.fold(base, base.constants[expr.attr], None, _depth + 1)
            return UNKNOWN
        if isinstance(expr, ast.Name):
            r = self._resolve_name(m, expr.id)
            if isinstance(r, tuple) and r[0] == 'const':
                return self.fold(r[1], r[3], None, _depth + 1)
            return UNKNOWN
        if isinstance(expr, ast.JoinedStr):
            parts = []
            for v in expr.values:
                if isinstance(v, ast.Constant):
                    parts.append(str(v.value))
                elif isinstance(v, ast.FormattedValue):
                    fv = self.fold(m, v.value, cls, _depth + 1)
                    if fv is UNKNOWN:
                        return UNKNOWN
                    parts.append(str(fv))
            return ''.join(parts)
        return UNKNOWN


class _Unknown:
    def __repr__(self) -> str:
        return 'UNKNOWN'


UNKNOWN = _Unknown()


class EnumMember:
    def __init__(self, enum: str, member: str):
        self.enum = enum
        self.member = member

    def __eq__(self, other) -> bool:
        return isinstance(other, EnumMember) and (self.enum, self.member) == (other.enum, other.member)

    def __hash__(self) -> int:
        return hash((self.enum, self.member))

    def __repr__(self) -> str:
        return f'{self.enum}.{self.member}'

    def __lt__(self, other) -> bool:
        return repr(self) < repr(other)


# ---------------------------------------------------------------------- small AST helpers
def calls_in(node: ast.AST, skip_nested_defs: bool = True) -> Iterator[ast.Call]:
    """All Call nodes evaluated when ``node`` is evaluated (not inside nested defs / lambdas)."""
    stack = [node]
    while stack:
        n = stack.pop()
        if isinstance(n, ast.Call):
            yield n
        for c in ast.iter_child_nodes(n):
            if skip_nested_defs and isinstance(c, (ast.FunctionDef, ast.AsyncFunctionDef, ast.Lambda, ast.ClassDef)):
                continue
            stack.append(c)


def walk_shallow(node: ast.AST) -> Iterator[ast.AST]:
    """ast.walk that does not descend into nested function/class definitions or lambdas."""
    stack = [node] if node is not None else []
    first = True
    while stack:
        n = stack.pop()
        if not first and isinstance(n, (ast.FunctionDef, ast.AsyncFunctionDef, ast.Lambda, ast.ClassDef)):
            continue
        first = False
        yield n
        stack.extend(ast.iter_child_nodes(n))


def body_walk(func: FuncInfo) -> Iterator[ast.AST]:
    for s in func.body:
        yield from walk_shallow_stmt(s)


def walk_shallow_stmt(stmt: ast.AST) -> Iterator[ast.AST]:
    if isinstance(stmt, (ast.FunctionDef, ast.AsyncFunctionDef, ast.ClassDef)):
        yield stmt
        return
    stack = [stmt]
    while stack:
        n = stack.pop()
        yield n
        for c in ast.iter_child_nodes(n):
            if isinstance(c, (ast.FunctionDef, ast.AsyncFunctionDef, ast.ClassDef)):
                yield c
                continue
            if isinstance(c, ast.Lambda):
                continue
            stack.append(c)


def is_self_attr(node: ast.AST, attr: Optional[str] = None) -> bool:
    return (
        isinstance(node, ast.Attribute)
        and isinstance(node.value, ast.Name)
        and node.value.id == 'self'
        and (attr is None or node.attr == attr)
    )


def strip_cast(e: ast.expr) -> ast.expr:
    """``cast(T, e)`` is transparent."""
    while isinstance(e, ast.Call) and unparse(e.func) in ('cast', 'typing.cast') and len(e.args) == 2:
        e = e.args[1]
    return e


def norm(e: Optional[ast.AST]) -> str:
    """Normalised text of an expression/statement: used as a line-number-free key."""
    if e is None:
        return ''
    return ' '.join(ast.unparse(e).split())


def accessor_value(f: 'FuncInfo') -> Optional[ast.expr]:
    """The expression a trivial zero-argument accessor stands for (``return self._x``, the ``None``-guarded label accessor,
    or a lazily created attribute), else None."""
    if isinstance(f.node, ast.Lambda) or len(f.params) != 1:
        return None
    body = [s for s in f.node.body
            if not (isinstance(s, ast.Expr) and isinstance(s.value, ast.Constant) and isinstance(s.value.value, str))]
    # leading aliases of an attribute of self are read through: ``cur = self._x`` ; ``if cur is None: return None`` ; ``return cur.Y``
    while (len(body) > 1 and isinstance(body[0], ast.Assign) and len(body[0].targets) == 1 and isinstance(body[0].targets[0], ast.Name)
           and is_self_attr(body[0].value) and not any(isinstance(n, ast.Name) and n.id == body[0].targets[0].id and isinstance(n.ctx, ast.Store) for st in body[1:] for n in ast.walk(st))):
        import copy as _copy
        nm, val = body[0].targets[0].id, body[0].value

        class _S(ast.NodeTransformer):
            def visit_Name(self, node):
                return _copy.deepcopy(val) if node.id == nm and isinstance(node.ctx, ast.Load) else node
        body = [_S().visit(_copy.deepcopy(st)) for st in body[1:]]
    # ``if self._x is None: return None`` + ``return self._x.Y``  (StateMachine.state)
    if (len(body) == 2 and isinstance(body[0], ast.If) and isinstance(body[1], ast.Return)
            and len(body[0].body) == 1 and isinstance(body[0].body[0], ast.Return) and not body[0].orelse
            and isinstance(body[0].body[0].value, ast.Constant) and body[0].body[0].value.value is None
            and isinstance(body[0].test, ast.Compare) and isinstance(body[0].test.ops[0], ast.Is)):
        body = [body[1]]
    # the same None-guard spelled as if/else, with the sense reversed, or as a conditional expression
    two = None
    if len(body) == 1 and isinstance(body[0], ast.Return) and isinstance(body[0].value, ast.IfExp):
        two = (body[0].value.test, body[0].value.body, body[0].value.orelse)
    elif (len(body) in (1, 2) and isinstance(body[0], ast.If) and len(body[0].body) == 1 and isinstance(body[0].body[0], ast.Return)
            and body[0].body[0].value is not None):
        rest = body[0].orelse if len(body) == 1 else ([body[1]] if not body[0].orelse else [])
        if len(rest) == 1 and isinstance(rest[0], ast.Return) and rest[0].value is not None:
            two = (body[0].test, body[0].body[0].value, rest[0].value)
    if two is not None:
        t, a, b = two
        if isinstance(t, ast.Compare) and len(t.ops) == 1 and isinstance(t.ops[0], (ast.Is, ast.IsNot)) and norm(t.comparators[0]) == 'None':
            none_side, other = (a, b) if isinstance(t.ops[0], ast.Is) else (b, a)
            if isinstance(none_side, ast.Constant) and none_side.value is None and norm(other).startswith(norm(t.left) + '.'):
                body = [ast.Return(value=other)]
    # lazily created attribute: ``if self._x is None: self._x = <new object>`` + ``return self._x`` names the location self._x
    if (len(body) == 2 and isinstance(body[0], ast.If) and isinstance(body[1], ast.Return) and body[1].value is not None
            and len(body[0].body) == 1 and not body[0].orelse and isinstance(body[0].body[0], ast.Assign) and len(body[0].body[0].targets) == 1
            and is_self_attr(body[0].body[0].targets[0]) and norm(body[0].body[0].targets[0]) == norm(body[1].value)
            and isinstance(body[0].test, ast.Compare) and len(body[0].test.ops) == 1 and isinstance(body[0].test.ops[0], ast.Is)
            and norm(body[0].test.left) == norm(body[1].value) and norm(body[0].test.comparators[0]) == 'None'):
        body = [body[1]]
    if len(body) != 1 or not isinstance(body[0], ast.Return) or body[0].value is None:
        return None
    v = body[0].value
    for n in ast.walk(v):
        if isinstance(n, ast.Name) and n.id not in ('self', 'None', 'True', 'False'):
            return None
        if isinstance(n, (ast.Call,)) and (n.args or n.keywords):
            return None
    return v
