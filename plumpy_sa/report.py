"""Obligations, verdicts, known findings, evidence files, exit codes (DESIGN 1.6 / 7)."""
from __future__ import annotations

import ast
import json
import os
import time
from typing import Any, Dict, Iterable, List, Optional

from .calls import Calls
from .facts import FactEngine
from .model import AnalysisError, FuncInfo, Program, norm

VERIF = os.path.dirname(os.path.dirname(os.path.abspath(__file__)))
KNOWN_FILE = os.path.join(VERIF, 'known_findings.json')


class Ctx:
    """Shared analysis context of one run."""

    def __init__(self, repo: Optional[str] = None):
        self.prog = Program(repo)
        self.calls = Calls(self.prog)
        from .inline import Inliner
        self.prog.inliner = Inliner(self.prog, self.calls)
        self.facts = FactEngine(self.prog, self.calls)


class Obligation:
    __slots__ = ('rule', 'construct', 'where', 'expr', 'kind', 'ok', 'why', 'verdict', 'finding_id', 'informational', 'func')

    def __init__(self, rule, construct, where, expr, kind, ok, why, informational=False):
        self.rule, self.construct, self.where, self.expr, self.kind = rule, construct, where, expr, kind
        self.ok, self.why = ok, why
        self.verdict = 'discharged' if ok else 'VIOLATION'
        self.finding_id: Optional[str] = None
        self.informational = informational
        self.func: Optional[FuncInfo] = None

    def key(self) -> Dict[str, str]:
        return {'rule': self.rule, 'construct': self.construct, 'expr': self.expr, 'kind': self.kind}

    def as_dict(self) -> Dict[str, Any]:
        d = {'rule': self.rule, 'construct': self.construct, 'where': self.where, 'kind': self.kind,
             'verdict': self.verdict, 'why': self.why}
        if self.expr:
            d['expr'] = self.expr
        if self.finding_id:
            d['finding'] = self.finding_id
        return d


class Check:
    def __init__(self, pid: str, tier: str, ctx: Ctx):
        self.pid = pid
        self.tier = tier
        self.ctx = ctx
        self.prog = ctx.prog
        self.obs: List[Obligation] = []
        self.infos: List[Dict[str, Any]] = []
        self.floors: List[str] = []
        self.units: Dict[str, Any] = {}
        self.consulted: set = set()
        self.assumptions: List[str] = []
        self.t0 = time.time()

    # ------------------------------------------------------------------ recording
    def ob(self, rule: str, func_or_construct, ok: bool, why: str, node: Optional[ast.AST] = None,
           kind: str = '', expr: Optional[str] = None) -> bool:
        if isinstance(func_or_construct, FuncInfo):
            construct = func_or_construct.qualname
            where = func_or_construct.where(node)
            self.consulted.add(func_or_construct.module.short)
        else:
            construct = str(func_or_construct)
            where = construct
        if expr is None:
            expr = norm(node) if node is not None and not isinstance(node, (ast.FunctionDef, ast.AsyncFunctionDef, ast.ClassDef, ast.If, ast.Try, ast.For, ast.While, ast.With)) else ''
            if node is not None and not expr:
                if isinstance(node, (ast.If, ast.While)):
                    expr = 'if ' + norm(node.test)
        if isinstance(func_or_construct, FuncInfo) and node is not None:
            sp = structural_path(func_or_construct, node)
            if sp:
                expr = f'{expr[:300]} @ {sp}'
        o = Obligation(rule, construct, where, expr[:600], kind or rule, bool(ok), why)
        o.func = func_or_construct if isinstance(func_or_construct, FuncInfo) else None
        self.obs.append(o)
        return bool(ok)

    # private attributes whose NAME is read from the code (role -> name when the known findings were accepted)
    ACCEPTED_ROLE_NAMES = {'waiting-future': '_waiting_future'}

    def _role_neutral(self, text: str) -> str:
        """Replace the attribute that currently plays a role, and the name it had when findings were accepted, by the role itself."""
        try:
            from .props.common import waiting_future_key
            cur = waiting_future_key(self.prog).split('.', 1)[1]
        except Exception:  # noqa: BLE001
            cur = self.ACCEPTED_ROLE_NAMES['waiting-future']
        for nm in {cur, self.ACCEPTED_ROLE_NAMES['waiting-future']}:
            text = text.replace(f'self.{nm}', 'self.<waiting-future>')
        return text

    def _canon_reduced(self, func: Optional[FuncInfo], expr: str):
        """reduced_key with the callee's receiver canonicalised in ``func`` (local aliases, accessors): a known finding
        keeps its identity when the receiver is spelled through a local or an accessor."""
        callee, ctx = reduced_key(expr)
        if func is None:
            return callee, ctx
        try:
            e = ast.parse(callee, mode='eval').body
        except SyntaxError:
            return callee, ctx
        if isinstance(e, ast.Attribute):
            try:
                canon = self.ctx.facts.analyse(func).canon
                rk = canon.key(e.value)
                if rk.isidentifier() and rk not in ('self', 'cls'):
                    rk = '<local>'   # the name of a local is not part of a construct's identity
                return f'{rk}.{e.attr}', ctx
            except Exception:  # noqa: BLE001
                return callee, ctx
        return callee, ctx

    def info(self, rule: str, what: str, **extra: Any) -> None:
        d = {'rule': rule, 'what': what}
        d.update(extra)
        self.infos.append(d)

    def floor(self, rule: str, count: int, minimum: int) -> None:
        """A rule matching fewer instances than confirmed by hand passes vacuously: refuse."""
        self.units[f'instances:{rule}'] = count
        if count < minimum:
            raise AnalysisError(f'rule {rule}: {count} instance(s) found, floor is {minimum} -- anchors moved, '
                                f'the check cannot vouch for the property')

    def need(self, cond: bool, what: str) -> None:
        if not cond:
            raise AnalysisError(what)

    # ------------------------------------------------------------------ finishing
    def finish(self) -> int:
        known = load_known()
        mine = [k for k in known.get('findings', []) if k.get('property') == self.pid]
        used = set()
        lines: List[str] = []
        violations: List[Obligation] = []
        folded = getattr(self.prog, 'folded', {})

        def same_place(k, o) -> bool:
            # (a finding recorded in a private helper that has since been folded into its only caller is found in that caller)
            return k.get('rule') == o.rule and k.get('kind') == o.kind and (k.get('construct') == o.construct or folded.get(k.get('construct')) == o.construct)
        for o in self.obs:
            if o.ok:
                continue
            hit = None
            for i, k in enumerate(mine):
                if same_place(k, o) and k.get('expr', '') == o.expr:
                    hit = (i, k)
                    break
            if hit is None:
                # the same construct after a behaviour-preserving restructuring (renamed local, inverted if, flattened
                # try/else): same rule, function and kind, same callee, same handler context
                for i, k in enumerate(mine):
                    if same_place(k, o) and (
                            reduced_key(k.get('expr', '')) == reduced_key(o.expr) or self._canon_reduced(o.func, k.get('expr', '')) == self._canon_reduced(o.func, o.expr)
                            or self._canon_reduced(o.func, self._role_neutral(k.get('expr', ''))) == self._canon_reduced(o.func, self._role_neutral(o.expr))):
                        hit = (i, k)
                        break
            if hit is not None:
                o.verdict = 'KNOWN'
                o.finding_id = hit[1].get('id')
                if hit[0] not in used:
                    used.add(hit[0])
                    lines.append(f"KNOWN-FINDING: property={self.pid} {hit[1].get('id', '')} {o.where} -- {o.rule} -- "
                                 f"{hit[1].get('what', o.why)}")
            else:
                violations.append(o)
        stale = [k for i, k in enumerate(mine) if i not in used]
        dry = bool(os.environ.get('PLUMPY_SA_NO_EVIDENCE'))
        if not dry:
            os.makedirs(os.path.join(VERIF, 'out', 'violations'), exist_ok=True)
        for i, o in enumerate(violations):
            path = os.path.join(VERIF, 'out', 'violations', f'{self.pid}-{i}.json')
            if not dry:
                with open(path, 'w') as fh:
                    json.dump({'property': self.pid, **o.as_dict(), 'key': o.key()}, fh, indent=1)
            lines.append(f'VIOLATION property={self.pid} replay={path}')
            lines.append(f'  {o.where} -- {o.rule} [{o.kind}] -- {o.expr} -- {o.why}')
        for k in stale:
            self.info('known-finding-not-reproduced', f"listed finding {k.get('id')} no longer matches any violation "
                                                    f"(fixed or moved): {k.get('construct')} {k.get('rule')}")
        if not dry:
            self.write_evidence(violations)
        n_ok = sum(1 for o in self.obs if o.ok)
        n_known = sum(1 for o in self.obs if o.verdict == 'KNOWN')
        print(f'[{self.pid}] tier={self.tier} obligations={len(self.obs)} discharged={n_ok} known={n_known} '
              f'violations={len(violations)} wall={time.time() - self.t0:.2f}s')
        for ln in lines:
            print(ln)
        return 1 if violations else 0

    def write_evidence(self, violations: List[Obligation]) -> None:
        obs = self.obs
        n_ok = sum(1 for o in obs if o.ok)
        n_known = sum(1 for o in obs if o.verdict == 'KNOWN')
        distinct = len({(o.rule, o.construct, o.expr, o.kind) for o in obs})
        rules = sorted({o.rule for o in obs})
        shorts = sorted(self.consulted) or sorted(self.prog.modules)
        ev = {
            'property_id': self.pid,
            'tier': self.tier,
            'seed': int(os.environ.get('VERIF_SEED', '0') or 0),
            'level': 'other',
            'coverage': {
                'explanation': (
                    'Static analysis of the current working tree of /repo (stdlib ast; no plumpy code executed by the '
                    'deciding step). Each obligation is one instance of a rule (named in "rule") evaluated on one '
                    'construct of the source; the property clauses decided are necessary conditions listed in '
                    'DESIGN.md section 3 for this property; what is NOT decided is listed there too.'),
                'obligations': len(obs),
                'discharged': n_ok,
                'known_findings': n_known,
                'violations': len(violations),
                'evaluations': len(obs),
                'distinct_nontrivial': distinct,
                'rule': 'one evaluation = one (rule, construct, expression, kind) obligation derived from the source; '
                        'distinct = distinct such tuples; every obligation inspects code (none is constant)',
                'rules_applied': rules,
                'samples': [o.as_dict() for o in obs],
                'informational': self.infos,
                'units': dict(self.units, modules=len(self.prog.modules),
                              functions=sum(1 for _ in self.prog.all_funcs()),
                              classes=sum(1 for _ in self.prog.all_classes())),
                'modules_consulted': shorts,
                'source_digest': self.prog.digest(s for s in shorts if s in self.prog.modules),
                'exhaustive': True,
            },
            'assumptions': self.assumptions + ([
                'private names renamed back before analysis (alpha.py; current -> name the checkers use): '
                + ', '.join(f'{a} -> {b}' for a, b in sorted(self.prog.alpha_map.items()))] if getattr(self.prog, 'alpha_map', None) else []) + [
                'CPython ast parse of the files is the program that runs; nobody monkey-patches plumpy at run time',
                'asyncio runs callbacks one at a time on one thread (atomic-region lemma, DESIGN section 0)',
            ],
            'wall_s': round(time.time() - self.t0, 3),
            'violations': len(violations),
        }
        os.makedirs(os.path.join(VERIF, 'evidence'), exist_ok=True)
        with open(os.path.join(VERIF, 'evidence', f'{self.pid}.json'), 'w') as fh:
            json.dump(ev, fh, indent=1, default=str)


def reduced_key(expr: str):
    """(callee without arguments, innermost handler context) of an obligation's ``<statement> @ <structural path>`` text."""
    stmt, _, path = expr.partition(' @ ')
    callee = stmt
    try:
        tree = ast.parse(stmt.strip(), mode='exec').body
        node = tree[0] if tree else None
        val = getattr(node, 'value', None)
        if isinstance(val, ast.Await):
            val = val.value
        if isinstance(val, ast.Call):
            callee = norm(val.func)
        elif isinstance(node, ast.Assign):
            t0 = node.targets[0]
            # for a store into a container the identity of the construct is the container, not how the index is spelled
            callee = 'assign ' + (norm(t0.value) + '[...]' if isinstance(t0, ast.Subscript) else norm(t0))
    except SyntaxError:
        pass
    ctx = ''
    for part in path.split('>'):
        if part == 'finally' or part.startswith('except'):
            ctx = part
    return callee, ctx


def structural_path(func: FuncInfo, node: ast.AST) -> str:
    """Position of ``node`` inside ``func`` as the chain of enclosing compound statements (no line numbers):
    ``try>except Interruption>if self._interrupt_action is not None>else``.  Distinguishes textually identical
    statements in different branches, so a known finding names one construct only."""
    target = node

    def search(stmts, trail):
        for s in stmts:
            r = visit(s, trail)
            if r is not None:
                return r
        return None

    def contains_expr(s) -> bool:
        return any(x is target for x in ast.walk(s))

    def visit(s, trail):
        if s is target:
            return trail
        if isinstance(s, (ast.FunctionDef, ast.AsyncFunctionDef, ast.ClassDef)):
            return None
        if isinstance(s, ast.If):
            if any(x is target for x in ast.walk(s.test)):
                return trail
            r = search(s.body, trail + ['if ' + norm(s.test)])
            if r is not None:
                return r
            return search(s.orelse, trail + ['else of if ' + norm(s.test)])
        if isinstance(s, (ast.For, ast.AsyncFor, ast.While)):
            head = 'for ' + norm(s.target) if not isinstance(s, ast.While) else 'while ' + norm(s.test)
            hexpr = s.iter if not isinstance(s, ast.While) else s.test
            if any(x is target for x in ast.walk(hexpr)):
                return trail
            r = search(s.body, trail + [head])
            if r is not None:
                return r
            return search(s.orelse, trail + [head + ' else'])
        if isinstance(s, (ast.With, ast.AsyncWith)):
            for it in s.items:
                if any(x is target for x in ast.walk(it.context_expr)):
                    return trail
            return search(s.body, trail + ['with ' + ', '.join(norm(i.context_expr) for i in s.items)])
        if isinstance(s, ast.Try):
            r = search(s.body, trail + ['try'])
            if r is not None:
                return r
            for h in s.handlers:
                r = search(h.body, trail + ['except ' + (norm(h.type) if h.type is not None else '')])
                if r is not None:
                    return r
            r = search(s.orelse, trail + ['try-else'])
            if r is not None:
                return r
            return search(s.finalbody, trail + ['finally'])
        if contains_expr(s):
            return trail
        return None

    body = func.body
    r = search(body, [])
    return '>'.join(r) if r else ''


def load_known() -> Dict[str, Any]:
    if not os.path.exists(KNOWN_FILE):
        return {'findings': [], 'fixed': []}
    with open(KNOWN_FILE) as fh:
        return json.load(fh)
