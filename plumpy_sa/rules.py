"""Shared rule helpers: call-site enumeration, writer sets, branch queries, interprocedural guard contexts."""
from __future__ import annotations

import ast
import copy
from typing import Callable, Dict, FrozenSet, Iterable, Iterator, List, Optional, Sequence, Set, Tuple

from .calls import Calls, walk_shallow_stmts
from .cfg import CFG, Node, cfg_of, no_exc
from .facts import Atom, FactEngine, FuncFacts
from .model import (AnalysisError, ClassInfo, FuncInfo, Program, body_walk, is_self_attr, norm, strip_cast, unparse,
                    walk_shallow)
from .report import Check, Ctx


def last_name(call: ast.Call) -> str:
    f = call.func
    if isinstance(f, ast.Attribute):
        return f.attr
    if isinstance(f, ast.Name):
        return f.id
    return ''


def calls_in_func(func: FuncInfo, name: Optional[str] = None) -> List[ast.Call]:
    out = []
    for s in func.body:
        for n in walk_shallow_stmts(s):
            if isinstance(n, ast.Call) and (name is None or last_name(n) == name):
                out.append(n)
    out.sort(key=lambda c: (c.lineno, c.col_offset))
    return out


def effective_funcs(prog: Program) -> List[FuncInfo]:
    """The functions the rules look at: the analysis view of every top-level function / method that is not a helper inlined at all its call sites, and the local
    functions and lambdas OF THAT VIEW (a view re-creates its nested definitions: the ones of the source function it was made from are not looked at a second time)."""
    cached = getattr(prog, '_effective_funcs', None)
    if cached is not None:
        return cached
    sub = subsumed_helpers(prog) if getattr(prog, 'inliner', None) is not None else set()
    out: List[FuncInfo] = []

    def add(f: FuncInfo) -> None:
        out.append(f)
        for g in list(f.nested.values()) + list(f.lambdas):
            # (a local function has helpers inlined into it like any other function: the enclosing view does not descend into it)
            add(prog.view(g) if getattr(prog, 'inliner', None) is not None else g)
    for f in prog.all_funcs():
        if f.parent is not None or id(f.node) in sub:
            continue
        add(prog.view(f) if getattr(prog, 'inliner', None) is not None else f)
    prog._effective_funcs = out  # type: ignore[attr-defined]
    return out


def call_sites(prog: Program, name: str) -> List[Tuple[FuncInfo, ast.Call]]:
    """Every call of ``name`` -- over the helper-inlined views: a call made inside a private helper that is inlined at all its call sites is a
    call of each of its callers, not of the helper."""
    out = []
    for v in effective_funcs(prog):
        for c in calls_in_func(v, name):
            out.append((v, c))
    return out


def attr_writers(prog: Program, attr: str) -> List[Tuple[FuncInfo, ast.AST]]:
    """Every statement that stores into ``<anything>.<attr>`` (plain/aug/annotated assignment, del, setattr literal)."""
    out = []
    for f in prog.all_funcs():
        for n in body_walk(f):
            if isinstance(n, ast.Attribute) and n.attr == attr and isinstance(n.ctx, (ast.Store, ast.Del)):
                out.append((f, n))
            elif (isinstance(n, ast.Call) and unparse(n.func) == 'setattr' and len(n.args) >= 2
                  and isinstance(n.args[1], ast.Constant) and n.args[1].value == attr):
                out.append((f, n))
    return out


def subsumed_helpers(prog: Program) -> Set[int]:
    """Private helpers whose every call site was inlined into the caller's analysis view: their statements are examined as
    part of the callers, the helper is not a construct of its own."""
    cached = getattr(prog, '_subsumed_helpers', None)
    if cached is not None:
        return cached
    for f in list(prog.all_funcs()):
        prog.view(f)
    inl = prog.inliner.inlined if prog.inliner is not None else {}
    out: Set[int] = set()
    by_id = {id(f.node): f for f in prog.all_funcs()}
    for gid, callers in inl.items():
        g = by_id.get(gid)
        if g is None:
            continue
        ok = True
        for f in prog.all_funcs():
            for c in calls_in_func(f):
                nm = c.func.attr if isinstance(c.func, ast.Attribute) else (c.func.id if isinstance(c.func, ast.Name) else None)
                if nm == g.name and f.qualname not in callers and f is not g:
                    ok = False
        # referenced as a value (callback) somewhere: not subsumed
        if ok and any(isinstance(n, ast.Attribute) and n.attr == g.name and isinstance(n.ctx, ast.Load) and not any(n is c.func for c in calls_in_func(f))
                      for f in prog.all_funcs() for n in body_walk(f)):
            ok = False
        if ok:
            out.add(gid)
    prog._subsumed_helpers = out  # type: ignore[attr-defined]
    return out


def effective_writers(prog: Program, attr: str) -> List[Tuple[FuncInfo, ast.AST]]:
    """attr_writers over the helper-inlined views: a store made inside a private helper that is inlined at all its call
    sites is reported in (the view of) each caller, not in the helper."""
    out = []
    for v in effective_funcs(prog):
        for n in body_walk(v):
            if isinstance(n, ast.Attribute) and n.attr == attr and isinstance(n.ctx, (ast.Store, ast.Del)):
                out.append((v, n))
            elif (isinstance(n, ast.Call) and unparse(n.func) == 'setattr' and len(n.args) >= 2
                  and isinstance(n.args[1], ast.Constant) and n.args[1].value == attr):
                out.append((v, n))
    return out


def name_refs_as_value(prog: Program, func: FuncInfo) -> List[Tuple[FuncInfo, ast.AST]]:
    """Places where ``func`` is referenced without being called (passed as a callback, wrapped in partial...)."""
    out = []
    name = func.name
    cands = list(effective_funcs(prog))   # references are looked for in the analysis views (and in the local functions of those views)
    if func.parent is not None and not any(f is func.parent for f in cands):
        cands.append(func.parent)
    for f in cands:
        if func.cls is None and func.parent is not None:
            # nested function: only visible in its enclosing function (and siblings)
            if f is not func.parent and f.parent is not func.parent:
                continue
        called = {id(c.func) for c in calls_in_func(f)}
        for n in body_walk(f):
            ref = None
            if func.cls is not None and isinstance(n, ast.Attribute) and n.attr == name and isinstance(n.ctx, ast.Load) \
                    and isinstance(n.value, ast.Name) and n.value.id in ('self', 'cls'):
                oc = f.owner_class
                if oc is not None and (oc.is_subclass_of(func.cls) or func.cls.is_subclass_of(oc)):
                    ref = n
            elif func.cls is None and isinstance(n, ast.Name) and n.id == name and isinstance(n.ctx, ast.Load):
                ref = n
            if ref is not None and id(ref) not in called:
                # ``call_with_super_check(self.m, ...)`` is a synchronous call, not a deferral
                out.append((f, ref))
    return out


def branch_reaches_exit(cfg: CFG, node: Node, label: str) -> bool:
    """Can control, having taken edge ``label`` out of ``node``, reach the function's normal exit?"""
    starts = [t for t, l in node.succ if l == label]
    if not starts:
        return False
    seen = cfg.reachable(starts, include_src=True)
    return cfg.exit.id in seen


def stmt_nodes(cfg: CFG, pred: Callable[[Node], bool]) -> List[Node]:
    return [n for n in cfg.nodes if pred(n)]


def node_has_call(n: Node, name: str) -> bool:
    e = n.expr()
    if e is None:
        return False
    return any(isinstance(x, ast.Call) and last_name(x) == name for x in walk_shallow(e))


def node_calls(n: Node) -> List[ast.Call]:
    e = n.expr()
    if e is None:
        return []
    return [x for x in walk_shallow(e) if isinstance(x, ast.Call)]


def mentions(e: Optional[ast.AST], text: str) -> bool:
    return e is not None and text in unparse(e)


# ---------------------------------------------------------------------- interprocedural guard contexts
class Contexts:
    """Facts holding at the entry of a function, per synchronous calling context (DESIGN 2.1, bounded depth)."""

    # deferred actions and the site that runs them synchronously (verified by verify_runner_table)
    def __init__(self, ctx: Ctx):
        self.ctx = ctx
        self.prog = ctx.prog
        self._memo: Dict[Tuple[int, int], List[Tuple[str, FrozenSet[Atom]]]] = {}
        self._runner_sites: Optional[List[Tuple[FuncInfo, ast.Call]]] = None

    def same_self_callers(self, func: FuncInfo) -> List[Tuple[FuncInfo, ast.Call]]:
        out = []
        if func.cls is None:
            # nested function called directly by name inside its parent
            if func.parent is not None:
                for f in [func.parent] + list(func.parent.nested.values()):
                    for c in calls_in_func(f, func.name):
                        if isinstance(c.func, ast.Name):
                            out.append((f, c))
            return out
        for f in self.prog.all_funcs():
            oc = f.owner_class
            if oc is None or not (oc.is_subclass_of(func.cls) or func.cls.is_subclass_of(oc)):
                continue
            for c in calls_in_func(f, func.name):
                if isinstance(c.func, ast.Attribute) and isinstance(c.func.value, ast.Name) and c.func.value.id == 'self':
                    out.append((f, c))
                elif (isinstance(c.func, ast.Attribute) and isinstance(c.func.value, ast.Call)
                      and unparse(c.func.value.func) == 'super'):
                    out.append((f, c))
        return out

    def action_runner_sites(self) -> List[Tuple[FuncInfo, ast.Call]]:
        """Sites that run a CancellableAction built by Process._create_interrupt_action: ``<action>.run(...)`` with a
        receiver of static type CancellableAction."""
        if self._runner_sites is None:
            ca = self.prog.cls('futures.CancellableAction')
            run = ca.lookup('run')
            if run is None:
                raise AnalysisError('CancellableAction.run not found')
            sites = []
            for f, c in call_sites(self.prog, 'run'):
                t = self.ctx.calls.resolve_call(f, c)
                if run in t.funcs and not t.unknown:
                    sites.append((f, c))
            self._runner_sites = sites
        return self._runner_sites

    def is_interrupt_action(self, func: FuncInfo) -> bool:
        """Is ``func`` handed to ``CancellableAction(...)`` (directly or via functools.partial)?"""
        for f, ref in name_refs_as_value(self.prog, func):
            for c in calls_in_func(f):
                t = self.ctx.calls.resolve_call(f, c)
                if t.ctor is not None and t.ctor.qualname == 'futures.CancellableAction':
                    args = list(c.args) + [k.value for k in c.keywords]
                    for a in args:
                        a = strip_cast(a)
                        if a is ref:
                            return True
                        # partial stored in a local first:  do_pause = partial(self._do_pause, ...); CancellableAction(do_pause)
                        if isinstance(a, ast.Name):
                            for v in self.ctx.calls._local_assigned_value(f, a.id):
                                if any(x is ref for x in ast.walk(v)):
                                    return True
                        if any(x is ref for x in ast.walk(a)):
                            return True
        return False

    def contexts(self, func: FuncInfo, depth: int = 3) -> List[Tuple[str, FrozenSet[Atom]]]:
        key = (id(func.node), depth)
        if key in self._memo:
            return self._memo[key]
        self._memo[key] = [('recursion', frozenset())]
        out: List[Tuple[str, FrozenSet[Atom]]] = []
        public = func.parent is None and not func.name.startswith('_')
        if public or depth == 0:
            out.append(('public-entry', frozenset()))
        if depth > 0:
            for g, c in self.same_self_callers(func):
                for gname, gentry in self.contexts(g, depth - 1):
                    ff = self.ctx.facts.analyse(g, gentry)
                    for n, fs in ff.site_facts(c):
                        out.append((f'{g.short}:{c.lineno}<{gname}>' if False else f'called from {g.short}', fs))
            refs = name_refs_as_value(self.prog, func)
            # call_with_super_check(self.m, ...) runs m synchronously in the caller's region
            sync_refs = []
            for f, ref in refs:
                for c in calls_in_func(f, 'call_with_super_check'):
                    if c.args and c.args[0] is ref:
                        sync_refs.append((f, c))
            for g, c in sync_refs:
                for gname, gentry in self.contexts(g, depth - 1):
                    ff = self.ctx.facts.analyse(g, gentry)
                    for n, fs in ff.site_facts(c):
                        out.append((f'called from {g.short}', fs))
            deferred = [r for r in refs if not any(c.args and c.args[0] is r[1] for g, c in sync_refs)]
            if deferred:
                if self.is_interrupt_action(func):
                    for g, c in self.action_runner_sites():
                        for gname, gentry in self.contexts(g, depth - 1):
                            ff = self.ctx.facts.analyse(g, gentry)
                            for n, fs in ff.site_facts(c):
                                out.append((f'interrupt action run at {g.short}', self._through_run_glue(fs)))
                    if not self.action_runner_sites():
                        out.append(('deferred (no runner found)', frozenset()))
                else:
                    out.append(('deferred callback', frozenset()))
        if not out:
            out.append(('no callers found', frozenset()))
        # merge identical contexts
        merged: Dict[Tuple[str, FrozenSet[Atom]], None] = {}
        for o in out:
            merged[o] = None
        res = list(merged)
        self._memo[key] = res
        return res

    def _through_run_glue(self, fs: FrozenSet[Atom]) -> FrozenSet[Atom]:
        """Facts about the process survive ``CancellableAction.run`` up to the ``self._action(...)`` call only if that
        prefix has no interleaving point: checked with a probe atom."""
        run = self.prog.func('futures.CancellableAction.run')
        probe = ('T', '__probe__')
        ff = self.ctx.facts.analyse(run, [probe])
        sites = [c for c in calls_in_func(run) if unparse(c.func) == 'self._action']
        if not sites:
            # the action taken into a local first (``action, self._action = self._action, None``): the call that forwards
            # run()'s own *args / **kwargs is the one that runs the action
            a = run.node.args
            va, kw = (a.vararg.arg if a.vararg else None), (a.kwarg.arg if a.kwarg else None)
            sites = [c for c in calls_in_func(run) if isinstance(c.func, ast.Name) and va and kw
                     and any(isinstance(x, ast.Starred) and norm(x.value) == va for x in c.args) and any(k.arg is None and norm(k.value) == kw for k in c.keywords)]
        if not sites:
            raise AnalysisError('CancellableAction.run no longer calls self._action: runner table stale')
        for c in sites:
            for n, got in ff.site_facts(c):
                if probe not in got:
                    return frozenset()
        return fs


def guard_obligations(chk: Check, cx: Contexts, rule: str, func: FuncInfo, call: ast.Call,
                      pred: Callable[[FrozenSet[Atom]], bool], what: str, depth: int = 3) -> bool:
    """One obligation per calling context: ``pred`` must hold on the facts at ``call`` in every context."""
    all_ok = True
    seen = set()
    for cname, entry in cx.contexts(func, depth):
        ff = chk.ctx.facts.analyse(func, entry)
        ok = all(pred(fs) for _, fs in ff.site_facts(call))
        if (cname, ok) in seen:
            continue
        seen.add((cname, ok))
        held = sorted({a for _, fs in ff.site_facts(call) for a in fs})
        chk.ob(rule, func, ok,
               f'{what}: ' + ('holds' if ok else 'NOT established') + f' in context [{cname}]; facts at the site: '
               + (', '.join(fmt_atom(a) for a in held) or 'none'),
               node=call, kind=f'{rule}:{cname}')
        all_ok &= ok
    return all_ok


def fmt_atom(a: Atom) -> str:
    if a[0] in ('eq', 'ne', 'isinst'):
        return f'{a[0]}({a[1]}, {a[2]})'
    return f'{a[0]}({a[1]})'


# ---------------------------------------------------------------------- value resolution for shape comparisons
class Resolver:
    """Expands single-assignment locals so that ``x = f(a); g(x)`` and ``g(f(a))`` compare equal.

    A local qualifies when it is assigned exactly once in the function (plain ``name = value``), is not a parameter, a
    loop / with / except target, and is not augmented anywhere.  Expansion is for comparing *shapes* (which value
    reaches which place), never for evaluation order.
    """

    def __init__(self, func: FuncInfo):
        self.func = func
        counts: Dict[str, int] = {}
        vals: Dict[str, ast.expr] = {}
        params: Set[str] = set()
        if not isinstance(func.node, ast.Lambda):
            a = func.node.args
            params = {x.arg for x in a.posonlyargs + a.args + a.kwonlyargs}
            if a.vararg:
                params.add(a.vararg.arg)
            if a.kwarg:
                params.add(a.kwarg.arg)
        for s in func.body:
            for n in walk_shallow(s):
                tg: List[ast.AST] = []
                single = False
                if isinstance(n, ast.Assign):
                    tg = list(n.targets)
                    single = len(n.targets) == 1 and isinstance(n.targets[0], ast.Name)
                elif isinstance(n, (ast.AugAssign,)):
                    tg = [n.target]
                elif isinstance(n, ast.AnnAssign):
                    tg = [n.target]
                    single = isinstance(n.target, ast.Name) and n.value is not None
                elif isinstance(n, (ast.For, ast.AsyncFor)):
                    tg = [n.target]
                elif isinstance(n, ast.ExceptHandler) and n.name:
                    counts[n.name] = counts.get(n.name, 0) + 2
                elif isinstance(n, (ast.With, ast.AsyncWith)):
                    tg = [i.optional_vars for i in n.items if i.optional_vars is not None]
                elif isinstance(n, ast.comprehension):
                    tg = [n.target]
                # ``a, b = value``: each name stands for the element at its position
                if isinstance(n, ast.Assign) and len(n.targets) == 1 and isinstance(n.targets[0], (ast.Tuple, ast.List)) and n.targets[0].elts \
                        and all(isinstance(x, ast.Name) for x in n.targets[0].elts):
                    for i_, x in enumerate(n.targets[0].elts):
                        counts[x.id] = counts.get(x.id, 0) + 1
                        if isinstance(n.value, (ast.Tuple, ast.List)) and len(n.value.elts) == len(n.targets[0].elts) and not any(isinstance(y, ast.Starred) for y in n.value.elts):
                            vals[x.id] = n.value.elts[i_]
                        else:
                            vals[x.id] = ast.Subscript(value=n.value, slice=ast.Constant(value=i_), ctx=ast.Load())
                    continue
                for t in tg:
                    for x in ast.walk(t):
                        if isinstance(x, ast.Name) and isinstance(x.ctx, (ast.Store, ast.Del)):
                            counts[x.id] = counts.get(x.id, 0) + (1 if single else 2)
                            if single:
                                vals[x.id] = n.value  # type: ignore[union-attr]
        self.vals = {k: v for k, v in vals.items() if counts.get(k) == 1 and k not in params
                     and not any(isinstance(x, (ast.Await, ast.Yield, ast.YieldFrom)) for x in ast.walk(v))}
        self._grow_dicts()

    def _grow_dicts(self) -> None:
        """``d = {A: a}`` followed, in the same block and unconditionally, by ``d[B] = b`` / ``d.update({C: c})`` / ``d.update([(D, d_)])`` / ``d.update(e=e_)``
        is the display ``{A: a, B: b, C: c, D: d_, 'e': e_}``: one reading for a mapping built in one piece or in several."""
        if isinstance(self.func.node, ast.Lambda):
            return

        def blocks(stmts):
            yield stmts
            for st in stmts:
                for fld in ('body', 'orelse', 'finalbody'):
                    sub = getattr(st, fld, None)
                    if isinstance(sub, list) and sub and isinstance(sub[0], ast.stmt) and not isinstance(st, (ast.FunctionDef, ast.AsyncFunctionDef, ast.ClassDef)):
                        yield from blocks(sub)
                for h in getattr(st, 'handlers', []) or []:
                    yield from blocks(h.body)
        for block in blocks(self.func.node.body):
            for i, st in enumerate(block):
                if not (isinstance(st, (ast.Assign, ast.AnnAssign)) and st.value is not None):
                    continue
                tgt = st.targets[0] if isinstance(st, ast.Assign) and len(st.targets) == 1 else (st.target if isinstance(st, ast.AnnAssign) else None)
                if not (isinstance(tgt, ast.Name) and tgt.id in self.vals and self.vals[tgt.id] is st.value and isinstance(strip_cast(st.value), ast.Dict)):
                    continue
                name = tgt.id
                keys, values = list(strip_cast(st.value).keys), list(strip_cast(st.value).values)
                grown = False
                for nx in block[i + 1:]:
                    add = None
                    if isinstance(nx, ast.Assign) and len(nx.targets) == 1 and isinstance(nx.targets[0], ast.Subscript) and isinstance(nx.targets[0].value, ast.Name) \
                            and nx.targets[0].value.id == name:
                        add = [(nx.targets[0].slice, nx.value)]
                    elif isinstance(nx, ast.Expr) and isinstance(nx.value, ast.Call) and isinstance(nx.value.func, ast.Attribute) and nx.value.func.attr == 'update' \
                            and isinstance(nx.value.func.value, ast.Name) and nx.value.func.value.id == name and len(nx.value.args) <= 1 \
                            and all(k.arg is not None for k in nx.value.keywords):
                        add = []
                        if nx.value.args:
                            a0 = strip_cast(nx.value.args[0])
                            if isinstance(a0, ast.Dict) and all(k is not None for k in a0.keys):
                                add += list(zip(a0.keys, a0.values))
                            elif isinstance(a0, (ast.List, ast.Tuple)) and all(isinstance(e, (ast.Tuple, ast.List)) and len(e.elts) == 2 for e in a0.elts):
                                add += [(e.elts[0], e.elts[1]) for e in a0.elts]
                            else:
                                add = None
                        if add is not None:
                            add += [(ast.Constant(value=k.arg), k.value) for k in nx.value.keywords]
                    if add is None:
                        # anything else that mentions the name ends the construction phase (it may be read, passed on, or changed in a way not followed here)
                        if any(isinstance(x, ast.Name) and x.id == name for x in ast.walk(nx)):
                            break
                        continue
                    if any(isinstance(x, ast.Name) and x.id == name for k_, v_ in add for x in list(ast.walk(k_)) + list(ast.walk(v_))):
                        break
                    for k_, v_ in add:
                        same = [j for j, k0 in enumerate(keys) if k0 is not None and norm(k0) == norm(k_)]
                        if same:
                            values[same[0]] = v_
                        else:
                            keys.append(k_)
                            values.append(v_)
                    grown = True
                if grown:
                    self.vals[name] = ast.copy_location(ast.Dict(keys=keys, values=values), st.value)

    def expand(self, e: Optional[ast.AST], depth: int = 4) -> Optional[ast.AST]:
        if e is None or depth == 0:
            return e
        res = self

        class T(ast.NodeTransformer):
            def visit_Name(self, node: ast.Name):
                if isinstance(node.ctx, ast.Load) and node.id in res.vals:
                    return res.expand(copy.deepcopy(strip_cast(res.vals[node.id])), depth - 1)
                return node

            def visit_Lambda(self, node):
                return node

        import copy
        return T().visit(copy.deepcopy(strip_cast(e)) if isinstance(e, ast.expr) else copy.deepcopy(e))

    def text(self, e: Optional[ast.AST]) -> str:
        return norm(self.expand(e))


def rnorm(func: FuncInfo, e: Optional[ast.AST]) -> str:
    return Resolver(func).text(e)


# ---------------------------------------------------------------------- site-centric dispatch tables
def pinned(fs: FrozenSet[Atom]) -> Dict[str, Set[str]]:
    """subject key -> the constants / classes the facts pin it to (``eq`` atoms and positive ``isinst`` atoms)."""
    out: Dict[str, Set[str]] = {}
    for a in fs:
        if a[0] == 'eq':
            out.setdefault(a[1], set()).add(a[2])
        elif a[0] == 'isinst':
            out.setdefault('isinstance:' + a[1], set()).update(a[2].split('|'))
    return out


def dispatch_sites(ff: FuncFacts, site_pred: Callable[[ast.Call], bool]) -> List[Tuple[Node, ast.Call, Dict[str, Set[str]]]]:
    """Every call satisfying ``site_pred`` in the analysed function with what the must-facts at the site pin down.
    Works for if/elif ladders, early-return sequences and match-like nests alike."""
    out = []
    for n, c in ff.cfg.call_nodes(site_pred):
        if not ff.reachable(n):
            continue
        out.append((n, c, pinned(ff.at_call(n, c))))
    # one entry per AST call (finally copies merged by intersection of what is pinned)
    merged: Dict[int, Tuple[Node, ast.Call, Dict[str, Set[str]]]] = {}
    for n, c, p in out:
        if id(c) in merged:
            old = merged[id(c)][2]
            merged[id(c)] = (n, c, {k: v & p.get(k, set()) for k, v in old.items() if k in p})
        else:
            merged[id(c)] = (n, c, p)
    return list(merged.values())


# ---------------------------------------------------------------------- "the exception being handled" as a value
def enclosing_handlers(func: FuncInfo, node: ast.AST) -> List[ast.ExceptHandler]:
    out: List[ast.ExceptHandler] = []
    for h in [x for x in ast.walk(func.node) if isinstance(x, ast.ExceptHandler)]:
        if any(y is node for s in h.body for y in ast.walk(s)):
            out.append(h)
    return out


def caught_exception_args(func: FuncInfo, call: ast.Call, args: Sequence[ast.expr]) -> bool:
    """Do ``args`` denote (the exception being handled, its traceback)?  Accepted spellings:
    ``*sys.exc_info()[1:]`` · ``sys.exc_info()[1], sys.exc_info()[2]`` (also through a local) · ``e, e.__traceback__``
    with ``e`` the name bound by an enclosing ``except ... as e``."""
    res = Resolver(func)
    texts = [res.text(a.value if isinstance(a, ast.Starred) else a) for a in args]
    starred = [isinstance(a, ast.Starred) for a in args]
    # an element of the slice is an element of the triple: ``sys.exc_info()[1:][0]`` is ``sys.exc_info()[1]``
    texts = [t.replace('sys.exc_info()[1:][0]', 'sys.exc_info()[1]').replace('sys.exc_info()[1:][1]', 'sys.exc_info()[2]') for t in texts]
    if len(args) == 1 and starred[0] and texts[0] == 'sys.exc_info()[1:]':
        return True
    if len(args) == 2 and not any(starred):
        if texts == ['sys.exc_info()[1]', 'sys.exc_info()[2]']:
            return True
        names = [h.name for h in enclosing_handlers(func, call) if h.name]
        for nm in names:
            if texts == [nm, f'{nm}.__traceback__']:
                return True
    return False


def resolve_callable_ref(ctx: Ctx, func: FuncInfo, e: ast.expr, depth: int = 3) -> List[Tuple[FuncInfo, List[ast.expr]]]:
    """Functions a *value* expression may denote, with the positional arguments already bound by functools.partial:
    ``name`` of a nested def, ``self.m``, ``functools.partial(x, a, b)``, a local holding one of these."""
    e = strip_cast(e)
    if depth == 0:
        return []
    if isinstance(e, ast.Call) and norm(e.func) in ('functools.partial', 'partial') and e.args:
        return [(f, bound + list(e.args[1:])) for f, bound in resolve_callable_ref(ctx, func, e.args[0], depth - 1)]
    if isinstance(e, ast.Name):
        nested = ctx.calls._find_nested(func, e.id)
        if nested is not None:
            return [(nested, [])]
        out: List[Tuple[FuncInfo, List[ast.expr]]] = []
        for v in ctx.calls._local_assigned_value(func, e.id):
            out.extend(resolve_callable_ref(ctx, func, v, depth - 1))
        return out
    if isinstance(e, ast.Attribute):
        t = ctx.calls.resolve_call(func, ast.Call(func=e, args=[], keywords=[]))
        return [(g, []) for g in t.funcs if not t.unknown]
    return []


def conditional_values(ff: FuncFacts, var: str) -> List[Tuple[FrozenSet[Atom], ast.expr]]:
    """Every value assigned to local ``var`` with the facts under which it is assigned; a conditional expression yields
    one entry per branch (its test added to the facts).  ``x = a if c else b`` and ``if c: x = a else: x = b`` agree."""
    out: List[Tuple[FrozenSet[Atom], ast.expr]] = []
    for n in ff.cfg.nodes:
        if n.kind == 'stmt' and isinstance(n.ast, (ast.Assign, ast.AnnAssign)):
            tg = n.ast.targets if isinstance(n.ast, ast.Assign) else [n.ast.target]
            if len(tg) == 1 and norm(tg[0]) == var and n.ast.value is not None and ff.reachable(n):
                base = ff.at(n)
                v = strip_cast(n.ast.value)
                if isinstance(v, ast.IfExp):
                    out.append((base | frozenset(ff.cond_atoms(v.test, True)), v.body))
                    out.append((base | frozenset(ff.cond_atoms(v.test, False)), v.orelse))
                else:
                    out.append((base, v))
    return out


def dominating_conditions(ff: FuncFacts, node: Node, possible: bool = False) -> Set[Atom]:
    """Atoms of every branch condition that control must have taken to reach ``node`` (whether or not a later statement
    invalidated them): the *lexical guard* of the node, as opposed to the facts still known at it."""
    cfg = ff.cfg
    dom = cfg.dominators()
    out: Set[Atom] = set()
    byid = {n.id: n for n in cfg.nodes}
    for did in dom.get(node.id, set()):
        t = byid.get(did)
        if t is None or t.kind != 'test' or t is node:
            continue
        reach = {}
        for lbl in ('true', 'false'):
            starts = [s for s, l in t.succ if l == lbl]
            reach[lbl] = node.id in cfg.reachable(starts, include_src=True, avoid=lambda m: m is t)
        if reach['true'] and not reach['false']:
            out |= _possible_atoms(ff, t.ast.test, True) if possible else ff.cond_atoms(t.ast.test, True)
        elif reach['false'] and not reach['true']:
            out |= _possible_atoms(ff, t.ast.test, False) if possible else ff.cond_atoms(t.ast.test, False)
    return out


def _possible_atoms(ff: FuncFacts, e: ast.expr, truth: bool) -> Set[Atom]:
    """Like cond_atoms, but a disjunction contributes the atoms of EVERY alternative (what may have been the reason)."""
    e2 = ff.canon.expr(e)
    if isinstance(e2, ast.UnaryOp) and isinstance(e2.op, ast.Not):
        return _possible_atoms(ff, e2.operand, not truth)
    if isinstance(e2, ast.BoolOp):
        out: Set[Atom] = set()
        for v in e2.values:
            out |= _possible_atoms(ff, v, truth)
        return out
    return ff.cond_atoms(e2, truth)


def action_built_for(ctx: Ctx, cia: FuncInfo, interruption_cls: str):
    """In ``_create_interrupt_action``: the ``CancellableAction(<callable>, cookie=...)`` built when the exception IS a ``interruption_cls`` -- on every
    path of the decision table over the isinstance tests (an if/elif ladder with early returns, or branches that pick the callable into a local and one
    constructor call at the end, are the same thing).  Returns (constructor call, callable expression with locals followed, cookie text) per path."""
    from .decisions import leaf, paths_under, value_on_path
    ff = ctx.facts.analyse(cia)
    exc_param = cia.params[1] if len(cia.params) > 1 else 'exception'
    tests = {}
    for t in ff.cfg.nodes:
        if t.kind == 'test':
            for x in ast.walk(t.ast.test):
                if isinstance(x, ast.Call) and isinstance(x.func, ast.Name) and x.func.id == 'isinstance' and len(x.args) == 2 and norm(x.args[0]) == exc_param:
                    tests[norm(x.args[1]).split('.')[-1]] = leaf(ff, x)[0]
    if interruption_cls not in tests:
        return []
    val = {k: (name == interruption_cls) for name, k in tests.items()}
    out = []
    for path in paths_under(ff, val, frozen=[exc_param]):
        if path[-1] is not ff.cfg.exit:
            continue
        hits = [(i, c) for i, m in enumerate(path) for c in ([x for x in walk_shallow(m.expr()) if isinstance(x, ast.Call)] if m.expr() is not None else []) if last_name(c) == 'CancellableAction']
        if not hits:
            out.append((None, None, None))
            continue
        i, c = hits[-1]
        fn = value_on_path(path, i, c.args[0]) if c.args else None
        cookie = next((norm(value_on_path(path, i, k.value)) for k in c.keywords if k.arg == 'cookie'), None)
        out.append((c, fn, cookie))
    return out


# ---------------------------------------------------------------------- a sequence built by a comprehension or by an accumulation loop
class Built:
    """``initial`` elements followed by ``elt`` for every binding of the ``gens`` (target, iterable, filters) -- the one
    description of ``[e for t in it if c]``, ``(a, *[e for ...])``, ``tuple(acc)`` and
    ``acc = [a]; for t in it: if c: acc.append(e); return acc``."""

    def __init__(self, initial: List[ast.expr], gens: List[Tuple[ast.expr, ast.expr, List[ast.expr]]], elt: Optional[ast.expr]):
        self.initial, self.gens, self.elt = initial, gens, elt

    def filters(self, rename_to: str = '<item>') -> List[str]:
        """Filter texts with the innermost loop variable renamed, so that the spelling of the variable does not matter."""
        if not self.gens:
            return []
        tgt = self.gens[-1][0]
        out = []
        for _, _, ifs in self.gens:
            for c in ifs:
                c = copy.deepcopy(c)
                if isinstance(tgt, ast.Name):
                    for n in ast.walk(c):
                        if isinstance(n, ast.Name) and n.id == tgt.id:
                            n.id = rename_to
                out.append(norm(c))
        return out


def built_sequence(func: FuncInfo) -> Optional[Built]:
    body = [s for s in func.node.body if not (isinstance(s, ast.Expr) and isinstance(s.value, ast.Constant))]
    rets = [s for st in func.node.body for s in walk_shallow_stmts(st) if isinstance(s, ast.Return)]
    if len(rets) != 1 or rets[0].value is None or not body or body[-1] is not rets[0]:
        return None
    v = strip_cast(rets[0].value)

    def unwrap(x):
        x = strip_cast(x)
        while isinstance(x, ast.Call) and norm(x.func) in ('tuple', 'list') and len(x.args) == 1 and not x.keywords:
            x = strip_cast(x.args[0])
        return x
    v = unwrap(v)
    if isinstance(v, (ast.Tuple, ast.List)) and any(isinstance(e, (ast.Name, ast.Starred)) for e in v.elts):
        # parts named first (``first = table[K]; rest = tuple(...); return (first, *rest)``): single-assignment locals are spelled out
        v = Resolver(func).expand(v)

    def comp(c) -> Optional[Built]:
        c = unwrap(c)
        if isinstance(c, (ast.ListComp, ast.GeneratorExp)):
            return Built([], [(g.target, g.iter, list(g.ifs)) for g in c.generators], c.elt)
        return None
    if comp(v) is not None:
        return comp(v)
    # ``(first,) + tuple(<the rest>)``: concatenation of displays / comprehensions is the display with the last part starred
    parts: List[ast.expr] = []

    def flat(x):
        x = unwrap(x)
        if isinstance(x, ast.BinOp) and isinstance(x.op, ast.Add):
            flat(x.left)
            flat(x.right)
        else:
            parts.append(x)
    if isinstance(v, ast.BinOp) and isinstance(v.op, ast.Add):
        flat(v)
        elts: List[ast.expr] = []
        for i, p_ in enumerate(parts):
            if isinstance(p_, (ast.Tuple, ast.List)) and not any(isinstance(e, ast.Starred) for e in p_.elts):
                elts.extend(p_.elts)
            elif i == len(parts) - 1 and comp(p_) is not None:
                elts.append(ast.Starred(value=p_, ctx=ast.Load()))
            else:
                return None
        v = ast.Tuple(elts=elts, ctx=ast.Load())
    if isinstance(v, (ast.Tuple, ast.List)):
        initial: List[ast.expr] = []
        for i, e in enumerate(v.elts):
            if isinstance(e, ast.Starred):
                b = comp(strip_cast(e.value))
                if b is None or i != len(v.elts) - 1:
                    return None
                return Built(initial, b.gens, b.elt)
            initial.append(e)
        return Built(initial, [], None)
    if not isinstance(v, ast.Name):
        return None
    acc = v.id
    inits = [s for s in body if isinstance(s, (ast.Assign, ast.AnnAssign)) and norm(s.targets[0] if isinstance(s, ast.Assign) else s.target) == acc]
    loops = [s for s in body if isinstance(s, ast.For)]
    uses = [n for n in ast.walk(func.node) if isinstance(n, ast.Name) and n.id == acc]
    if len(inits) != 1 or len(loops) != 1 or len(uses) != 3 or not isinstance(strip_cast(inits[0].value), ast.List):
        return None
    if any(isinstance(e, ast.Starred) for e in strip_cast(inits[0].value).elts):
        return None
    gens: List[Tuple[ast.expr, ast.expr, List[ast.expr]]] = []
    cur: ast.stmt = loops[0]
    while True:
        if isinstance(cur, ast.For) and not cur.orelse and len(cur.body) == 1:
            gens.append((cur.target, cur.iter, []))
            cur = cur.body[0]
        elif isinstance(cur, ast.If) and not cur.orelse and len(cur.body) == 1 and gens:
            gens[-1][2].append(cur.test)
            cur = cur.body[0]
        else:
            break
    if (isinstance(cur, ast.Expr) and isinstance(cur.value, ast.Call) and norm(cur.value.func) == f'{acc}.append' and len(cur.value.args) == 1
            and not cur.value.keywords and gens):
        return Built(list(strip_cast(inits[0].value).elts), gens, cur.value.args[0])
    return None


# ---------------------------------------------------------------------- "for each element of SEQ, in order"
class OrderedLoop:
    """A loop that visits the elements of ``seq`` first to last: ``for x in seq`` · ``for i, x in enumerate(seq)`` ·
    ``for i in range(len(seq))`` · ``i = 0; while i < len(seq): ...; i += 1``.  ``is_element(e)`` says whether expression ``e``
    denotes the element of the current iteration (the loop variable, or ``seq[i]``)."""

    def __init__(self, node: ast.stmt, seq: ast.expr, var: Optional[str], index: Optional[str]):
        self.node, self.seq, self.var, self.index = node, seq, var, index

    def is_element(self, e: ast.expr) -> bool:
        e = strip_cast(e)
        if self.var is not None and isinstance(e, ast.Name) and e.id == self.var:
            return True
        return (self.index is not None and isinstance(e, ast.Subscript) and norm(e.value) == norm(self.seq)
                and isinstance(e.slice, ast.Name) and e.slice.id == self.index)


def ordered_loop(func: FuncInfo, inner: ast.AST) -> Optional[OrderedLoop]:
    """The innermost in-order loop of ``func`` whose body contains ``inner``."""
    found: Optional[OrderedLoop] = None
    for l in ast.walk(func.node):
        if not isinstance(l, (ast.For, ast.While)) or not any(x is inner for b in l.body for x in ast.walk(b)):
            continue
        cand: Optional[OrderedLoop] = None
        if isinstance(l, ast.For):
            it, tg = strip_cast(l.iter), l.target
            if isinstance(it, ast.Call) and norm(it.func) == 'enumerate' and len(it.args) == 1 and isinstance(tg, ast.Tuple) and len(tg.elts) == 2 \
                    and all(isinstance(x, ast.Name) for x in tg.elts):
                cand = OrderedLoop(l, it.args[0], tg.elts[1].id, tg.elts[0].id)
            elif isinstance(it, ast.Call) and norm(it.func) == 'range' and len(it.args) == 1 and isinstance(it.args[0], ast.Call) \
                    and norm(it.args[0].func) == 'len' and len(it.args[0].args) == 1 and isinstance(tg, ast.Name):
                cand = OrderedLoop(l, it.args[0].args[0], None, tg.id)
            elif isinstance(tg, ast.Name) and not isinstance(it, ast.Call):
                cand = OrderedLoop(l, it, tg.id, None)
        else:
            t = strip_cast(l.test)
            if (isinstance(t, ast.Compare) and len(t.ops) == 1 and isinstance(t.ops[0], ast.Lt) and isinstance(t.left, ast.Name)
                    and isinstance(t.comparators[0], ast.Call) and norm(t.comparators[0].func) == 'len' and len(t.comparators[0].args) == 1):
                i = t.left.id
                stores = [n for n in ast.walk(func.node) if isinstance(n, ast.Name) and n.id == i and isinstance(n.ctx, ast.Store)]
                inits = [s for st in func.node.body for s in walk_shallow_stmts(st) if isinstance(s, ast.Assign) and len(s.targets) == 1 and norm(s.targets[0]) == i
                         and isinstance(s.value, ast.Constant) and s.value.value == 0]
                last = l.body[-1] if l.body else None
                step = (isinstance(last, ast.AugAssign) and isinstance(last.op, ast.Add) and norm(last.target) == i
                        and isinstance(last.value, ast.Constant) and last.value.value == 1)
                no_continue = not any(isinstance(x, ast.Continue) for b in l.body for x in ast.walk(b))
                if len(inits) == 1 and step and no_continue and len(stores) == 2 and inits[0].lineno < l.lineno:
                    cand = OrderedLoop(l, t.comparators[0].args[0], None, i)
        if cand is not None and (found is None or any(x is cand.node for x in ast.walk(found.node))):
            found = cand
    return found


# ---------------------------------------------------------------------- one reading of a string built from pieces
def string_template(e: ast.expr) -> Optional[str]:
    """``f'a.{x}.{y}'``, ``'a.{}.{}'.format(x, y)``, ``'a.%s.%s' % (x, y)`` and ``'a.' + str(x) + '.' + str(y)`` all read
    ``a.{x}.{y}`` (placeholders hold the normalised text of the piece, ``str()`` around a piece dropped); None for anything else."""
    import re as _re
    e = strip_cast(e)

    def piece(x: ast.expr) -> str:
        x = strip_cast(x)
        if isinstance(x, ast.Call) and isinstance(x.func, ast.Name) and x.func.id == 'str' and len(x.args) == 1 and not x.keywords:
            x = x.args[0]
        return '{' + norm(x) + '}'
    if isinstance(e, ast.Constant) and isinstance(e.value, str):
        return e.value
    if isinstance(e, ast.JoinedStr):
        out = ''
        for v in e.values:
            if isinstance(v, ast.Constant):
                out += str(v.value)
            elif isinstance(v, ast.FormattedValue) and v.format_spec is None and v.conversion in (-1, 115):
                out += piece(v.value)
            else:
                return None
        return out
    if isinstance(e, ast.Call) and isinstance(e.func, ast.Attribute) and e.func.attr == 'format' and isinstance(e.func.value, ast.Constant) and isinstance(e.func.value.value, str) \
            and not any(isinstance(a, ast.Starred) for a in e.args):
        t = e.func.value.value
        kws = {k.arg: k.value for k in e.keywords if k.arg}
        auto = iter(range(len(e.args)))

        def sub(m):
            name = m.group(1)
            try:
                if name == '':
                    return piece(e.args[next(auto)])
                if name.isdigit():
                    return piece(e.args[int(name)])
                return piece(kws[name])
            except (StopIteration, IndexError, KeyError):
                raise ValueError
        try:
            return _re.sub(r'\{(\w*)(?:!s)?\}', sub, t)
        except ValueError:
            return None
    if isinstance(e, ast.BinOp) and isinstance(e.op, ast.Mod) and isinstance(e.left, ast.Constant) and isinstance(e.left.value, str):
        args = list(e.right.elts) if isinstance(e.right, ast.Tuple) else [e.right]
        it = iter(args)
        try:
            out = _re.sub(r'%s', lambda m: piece(next(it)), e.left.value)
        except StopIteration:
            return None
        return out if next(it, None) is None else None
    if isinstance(e, ast.BinOp) and isinstance(e.op, ast.Add):
        l, r = string_template(e.left), string_template(e.right)
        if l is None:
            l = piece(e.left) if not isinstance(e.left, ast.BinOp) else None
        if r is None:
            r = piece(e.right) if not isinstance(e.right, ast.BinOp) else None
        return None if l is None or r is None else l + r
    return None


# ---------------------------------------------------------------------- a flag raised here is lowered on every way out
def _cannot_raise(n: Node) -> bool:
    """Binding a name, or an attribute of self, to a constant or a name (``self._flag = True``, ``x = None``) cannot fail."""
    a = n.ast
    if n.kind != 'stmt' or not isinstance(a, (ast.Assign, ast.AnnAssign, ast.Pass)):
        return False
    if isinstance(a, ast.Pass):
        return True
    tg = a.targets if isinstance(a, ast.Assign) else [a.target]
    v = a.value
    return (v is None or isinstance(v, (ast.Constant, ast.Name))) and all(
        isinstance(t, ast.Name) or (isinstance(t, ast.Attribute) and isinstance(t.value, ast.Name) and t.value.id == 'self') for t in tg)


def flag_lowered_on_every_exit(func: FuncInfo, attr_key: str, raised: str, lowered: str) -> Tuple[bool, int]:
    """Every way out of ``func`` -- return, fall-through or a propagating exception -- from a statement ``<attr_key> = <raised>`` passes a
    statement ``<attr_key> = <lowered>``.  True for ``try: flag = True; ... finally: flag = False`` and equally for the flag raised just
    before the ``try`` with nothing that can fail in between.  Returns (holds, number of raising statements)."""
    cfg = cfg_of(func)

    def is_set(n: Node, val: str) -> bool:
        return n.kind == 'stmt' and isinstance(n.ast, ast.Assign) and len(n.ast.targets) == 1 and norm(n.ast.targets[0]) == attr_key and norm(n.ast.value) == val
    ups = [n for n in cfg.nodes if is_set(n, raised)]
    feasible = lambda a, b, l: not (l in ('exc', 'uncaught') and _cannot_raise(a))
    ok = True
    for u in ups:
        starts = [t for t, l in u.succ if l not in ('exc', 'uncaught', 'handler')]
        for st in starts:
            ok &= cfg.must_pass(st, [cfg.exit, cfg.raise_exit], lambda m: is_set(m, lowered), edge_ok=feasible)
    return ok, len(ups)


def setter_returns_installed_action(prog: Program) -> bool:
    """Does ``_set_interrupt_action_from_exception`` hand back the action it has just installed?  (``x = self._set_..._from_exception(e)`` is then
    ``self._set_..._from_exception(e); x = self._interrupt_action``.)"""
    f = prog.try_func('processes.Process._set_interrupt_action_from_exception')
    if f is None:
        return False
    res = Resolver(f)
    rets = [r for r in ast.walk(f.node) if isinstance(r, ast.Return) and r.value is not None]
    inst = [c for c in calls_in_func(f, '_set_interrupt_action') if c.args]
    stores = [n for n in ast.walk(f.node) if isinstance(n, ast.Assign) and any(norm(t) == 'self._interrupt_action' for t in n.targets)]
    installed = {res.text(c.args[0]) for c in inst} | {res.text(n.value) for n in stores}
    return bool(rets) and len(installed) == 1 and all(res.text(r.value) in installed or norm(r.value) == 'self._interrupt_action' for r in rets)
