"""C06 -- a wake-up is never lost to a concurrent pause or interruption (FUT multi-writer on the waiting future)."""
from __future__ import annotations

import ast

from ..cfg import cfg_of, no_exc
from ..fut import classify, writer_sites
from ..model import AnalysisError, is_self_attr, norm, unparse, walk_shallow
from ..report import Check
from ..rules import calls_in_func, last_name
from .c13 import resume_value_forwarding

LOC = 'self._waiting_future'   # default; the name actually used is read from Waiting.execute (see _loc)


def _loc(prog) -> str:
    from .common import waiting_future_key
    return waiting_future_key(prog)


def waiting_classes(prog):
    w = prog.cls('process_states.Waiting')
    return [w] + prog.subclasses(w)


def waiting_future_writers(chk: Check, rule: str = 'FUT-multi-writer'):
    """All writer sites of the waiting future, classified. Shared with C04 / C05 / C10."""
    prog = chk.prog
    LOC = _loc(prog)
    sites = []
    for c in waiting_classes(prog):
        for f in c.emethods.values():
            for s in writer_sites(chk.ctx, f, [LOC]):
                sites.append(classify(chk.ctx, s))
    return sites


def rearm_after_interruption(chk: Check, rule: str) -> None:
    """After an interruption the waiting future is replaced before the interruption is re-raised -- by a fresh future, or
    by None when the future is created lazily; in the lazy form every direct use of the attribute must know it exists
    (a writer that meets None raises AttributeError in an event-loop callback: the wake-up is lost).  Shared with C05."""
    from ..facts import not_none
    prog = chk.prog
    LOC = _loc(prog)
    we = prog.func('process_states.Waiting.execute')
    rearm_ok = False
    for t in [n for n in ast.walk(we.node) if isinstance(n, ast.Try)]:
        for h in t.handlers:
            if h.type is not None and unparse(h.type).split('.')[-1] == 'Interruption':
                assigns = [i for i, s in enumerate(h.body) if isinstance(s, ast.Assign) and any(norm(x) == LOC for x in s.targets)
                           and ((isinstance(s.value, ast.Call) and norm(s.value.func).split('.')[-1] == 'Future') or norm(s.value) == 'None')]
                raises = [i for i, s in enumerate(h.body) if isinstance(s, ast.Raise) and s.exc is None]
                rearm_ok = bool(assigns) and bool(raises) and assigns[0] < raises[0]
    chk.ob(rule, we, rearm_ok, 'after an interruption the waiting future is replaced (by a fresh one, or dropped for lazy re-creation) before the '
           'interruption is re-raised (the state can be executed again)', kind='rearm-after-interruption')
    # ... and ONLY there: the future a resume() / an awaitable completion may already have resolved (between the load of a checkpoint and the first step, say) is
    # the one execute awaits -- replacing it anywhere else in execute throws that wake-up away (unless the replacement is made where it is known not to be done)
    wv = prog.view(we)
    fw = chk.ctx.facts.analyse(wv)
    for m in fw.cfg.nodes:
        a_ = m.ast
        if m.kind == 'stmt' and isinstance(a_, (ast.Assign, ast.AnnAssign)) and a_.value is not None and any(norm(t) == LOC for t in (a_.targets if isinstance(a_, ast.Assign) else [a_.target])):
            in_handler = any(isinstance(t, ast.Try) and any(h.type is not None and unparse(h.type).split('.')[-1] == 'Interruption' and any(x is a_ for s_ in h.body for x in ast.walk(s_))
                                                               for h in t.handlers) for t in ast.walk(wv.node))
            known_pending = ('F', f'{LOC}.done()') in fw.at(m)
            chk.ob(rule, we, in_handler or known_pending, 'execute replaces the waiting future only after an interruption (or where it is known to be pending)' + ('' if in_handler or known_pending else
                   ': a wake-up delivered before the step started -- resume() on a freshly loaded process -- resolved the OLD future; the step then waits on the new one for ever'),
                   node=a_, kind='replaced-only-after-interruption')
    nullable = []
    for c in waiting_classes(prog):
        for f in c.emethods.values():
            for n in ast.walk(f.node):
                if isinstance(n, (ast.Assign, ast.AnnAssign)) and n.value is not None and norm(n.value) == 'None' and any(norm(t) == LOC for t in (n.targets if isinstance(n, ast.Assign) else [n.target])):
                    nullable.append((f, n))
    chk.units['waiting_future_nullable'] = [f'{f.short}:{n.lineno}' for f, n in nullable]
    if not nullable:
        return
    n_deref = 0
    for c in waiting_classes(prog):
        for f in c.emethods.values():
            ff = chk.ctx.facts.analyse(f)
            for x in ast.walk(f.node):
                deref = None
                if isinstance(x, ast.Attribute) and isinstance(x.ctx, ast.Load) and norm(x.value) == LOC:
                    deref = x
                elif isinstance(x, ast.Await) and norm(x.value) == LOC:
                    deref = x
                if deref is None:
                    continue
                n_deref += 1
                nodes = ff.cfg.nodes_containing(deref)
                # facts when the use itself is evaluated (``x is not None and x.done()``: the right operand knows the left one held)
                encl = [c_ for c_ in ast.walk(f.node) if isinstance(c_, ast.Call) and c_.func is deref]
                ok = bool(nodes) and all(not_none(ff.at_call(m, encl[0]) if encl else ff.at(m), LOC) for m in nodes)
                chk.ob(rule, f, ok, f'the waiting future may be absent ({", ".join(chk.units["waiting_future_nullable"])} store None) and this use does not know it exists: '
                       'it raises AttributeError / TypeError instead of waking or interrupting the step', node=deref, kind='use-of-absent-future')
    chk.units['waiting_future_direct_uses'] = n_deref


def resume_forwards_its_arguments(chk: Check, rule: str) -> None:
    """Process.resume(*args) hands exactly what it was given to the state's resume: whether a value was passed is decided by the NUMBER of arguments, so resume(None)
    and resume() stay different things (shared with C13: f(v) for every v, f() only without a value)."""
    prog = chk.prog
    pr = prog.func('processes.Process.resume')
    rc = [c for c in calls_in_func(pr, 'resume')]
    va = pr.node.args.vararg.arg if pr.node.args.vararg else None
    fw = len(rc) == 1 and norm(rc[0].func) == 'self._state.resume' and [norm(a) for a in rc[0].args] == [f'*{va}']
    chk.ob(rule, pr, fw, 'resume(*args) hands *args to the state\'s resume', node=rc[0] if rc else pr.node, kind='forward-varargs')


def run(chk: Check) -> None:
    prog = chk.prog
    LOC = _loc(prog)
    # "every future or child it awaits has completed -> it continues": that is the work chain's own WAITING state (the one that registers the completion callbacks);
    # each process class gets the state table ITS get_state_classes() describes, whichever class was instantiated first (shared with C01 / C10)
    from .common import state_tables_built_per_class
    state_tables_built_per_class(chk, 'TAB-waiting-state')
    sites = waiting_future_writers(chk)
    chk.floor('FUT-multi-writer', len(sites), 2)
    roles = sorted({s.func.qualname for s in sites})
    chk.units['writer_roles'] = roles
    chk.need(len(roles) >= 2, 'fewer than two writer roles on the waiting future: conflict rule vacuous')
    for s in sites:
        ok = s.guard in ('guarded', 'fresh')
        why = {
            'guarded': 'resolves the waiting future only while it is pending',
            'fresh': 'writes a future created in the same region',
            'unguarded': 'another role (interrupt / resume / awaitable completion) may have resolved the waiting future '
                         'first, an interleaving point separates the writers from the reader: this write then raises '
                         'InvalidStateError and the wake-up or the interruption is lost',
            'guarded-drop': 'when another role resolved the future first, the value handed in is discarded: the wake-up '
                            'is lost (the process stays WAITING after the interruption is handled)',
        }[s.guard]
        chk.ob('FUT-multi-writer', s.func, ok, f'{s.op} on the waiting future is {s.guard}: {why}; {s.detail}', node=s.call,
               kind=s.guard)

    # the reader: Waiting.execute awaits the future once and re-arms it in the Interruption handler
    we = prog.func('process_states.Waiting.execute')
    wff = chk.ctx.facts.analyse(we)
    awaits = [n for n in ast.walk(we.node) if isinstance(n, ast.Await) and wff.canon.key(n.value) == LOC]
    chk.ob('FUT-reader', we, len(awaits) == 1, 'the WAITING step awaits the waiting future exactly once', kind='await-once')
    rearm_after_interruption(chk, 'FUT-reader')
    resume_value_forwarding(chk, 'FWD-resume')

    # Process.resume forwards *args under @event(from_states=Waiting)
    pr = prog.func('processes.Process.resume')
    ev = pr.decorator_call('event')
    from_ok = False
    if ev is not None:
        for kw in ev.keywords:
            if kw.arg == 'from_states':
                c = prog.resolve_class(pr.module, kw.value)
                from_ok = c is not None and c.qualname == 'process_states.Waiting'
    chk.ob('FWD-resume', pr, from_ok, 'resume() is an event valid only in WAITING', kind='event-from-waiting')
    resume_forwards_its_arguments(chk, 'FWD-resume')
    wr = prog.func('process_states.Waiting.resume')
    sr = [s for s in sites if s.func is wr and s.op == 'set_result']
    vparam = wr.params[1] if len(wr.params) > 1 else None
    chk.ob('FWD-resume', wr, len(sr) == 1 and len(sr[0].call.args) == 1 and norm(sr[0].call.args[0]) == vparam,
           'the value passed to resume() is what the waiting future is resolved with', node=sr[0].call if sr else wr.node,
           kind='resume-value-written')

    # awaitable completion: registration on every awaited future, result stored under the popped key
    wen = prog.func('workchains.Waiting.enter')
    reg = False
    for loop in [n for n in ast.walk(wen.node) if isinstance(n, ast.For)]:
        if norm(loop.iter) in ('self._awaiting', 'self._awaiting.keys()', 'list(self._awaiting)'):
            var = norm(loop.target)
            for c in [x for s in loop.body for x in ast.walk(s) if isinstance(x, ast.Call)]:
                if last_name(c) == 'add_done_callback' and norm(c.func.value) == var and c.args and norm(c.args[0]) == 'self._awaitable_done':
                    reg = True
    chk.ob('PAIR-awaitable-callback', wen, reg, 'entering the waiting state registers _awaitable_done on every awaited future',
           kind='register-all')
    ad = prog.func('workchains.Waiting._awaitable_done')
    aparam = ad.params[1] if len(ad.params) > 1 else ''
    from ..rules import Resolver
    res = Resolver(ad)
    stores = [n for n in ast.walk(ad.node) if isinstance(n, ast.Assign) and len(n.targets) == 1
              and isinstance(n.targets[0], ast.Subscript) and norm(n.targets[0].value).endswith('.ctx')]
    ok = len(stores) == 1 and res.text(stores[0].targets[0].slice) == f'self._awaiting.pop({aparam})' and res.text(stores[0].value) == f'{aparam}.result()'
    chk.ob('FWD-awaitable-result', ad, ok, 'a completed awaitable\'s result is stored in the context under '
           'the key it was registered with', node=stores[0] if stores else ad.node, kind='result-into-context')
    # "... it continues once it is playing": the pause gate the woken-up step sits behind is released by play(), and a pause
    # request never replaces a pause future somebody awaits (obligations shared with C05)
    from .common import barrier_opens_when_empty
    barrier_opens_when_empty(chk, 'FWD-awaitable-result')
    from . import c05
    c05.outcome_entered_before_pause_hooks(chk, 'FWD-resume')
    c05.pause_gate(chk)
    c05.pause_ladder(chk)
    c05.status_pairing(chk)
    chk.assumptions.append('resume(), pause(), kill() and done-callbacks run as separate event-loop callbacks or inside '
                           'uncontrolled calls: between a writer of the waiting future and its reader anything may run')
