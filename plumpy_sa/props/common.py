"""Tables shared by several properties: the process state classes and their folded LABEL / ALLOWED."""
from __future__ import annotations

import ast
from typing import Dict, FrozenSet, List, Optional, Tuple

from ..model import AnalysisError, ClassInfo, EnumMember, FuncInfo, Program, UNKNOWN, unparse

STATE_MEMBERS = ('CREATED', 'RUNNING', 'WAITING', 'FINISHED', 'EXCEPTED', 'KILLED')
TERMINAL = ('FINISHED', 'EXCEPTED', 'KILLED')
LIVE = ('CREATED', 'RUNNING', 'WAITING')

# the lifecycle graph as stated by property C01
GRAPH = {
    'CREATED': {'RUNNING', 'KILLED', 'EXCEPTED'},
    'RUNNING': {'RUNNING', 'WAITING', 'FINISHED', 'KILLED', 'EXCEPTED'},
    'WAITING': {'RUNNING', 'WAITING', 'FINISHED', 'KILLED', 'EXCEPTED'},
    'FINISHED': set(), 'EXCEPTED': set(), 'KILLED': set(),
}


def process_state_enum(prog: Program) -> List[str]:
    c = prog.cls('process_states.ProcessState')
    members = [k for k, v in c.attrs.items() if isinstance(v, ast.Constant)]
    if not members:
        raise AnalysisError('ProcessState enum has no members')
    return members


def state_classes(prog: Program) -> List[ClassInfo]:
    base = prog.cls('base.state_machine.State')
    out = [c for c in prog.all_classes() if c is not base and c.is_subclass_of(base)]
    return out


def label_of(prog: Program, c: ClassInfo) -> Optional[str]:
    a = c.lookup_attr('LABEL')
    if a is None:
        return None
    v = prog.fold(a[0].module, a[1], a[0])
    if isinstance(v, EnumMember) and v.enum == 'ProcessState':
        return v.member
    return None


def allowed_of(prog: Program, c: ClassInfo):
    a = c.lookup_attr('ALLOWED')
    if a is None:
        return UNKNOWN
    v = prog.fold(a[0].module, a[1], a[0])
    if v is UNKNOWN or not isinstance(v, frozenset):
        return UNKNOWN
    out = set()
    for x in v:
        if not (isinstance(x, EnumMember) and x.enum == 'ProcessState'):
            return UNKNOWN
        out.add(x.member)
    return out


def labelled_states(prog: Program) -> Dict[str, List[ClassInfo]]:
    out: Dict[str, List[ClassInfo]] = {}
    for c in state_classes(prog):
        lbl = label_of(prog, c)
        if lbl is not None:
            out.setdefault(lbl, []).append(c)
    return out


def states_map_entries(prog: Program, func: FuncInfo) -> List[Tuple[str, Optional[ClassInfo], ast.AST]]:
    """(label, class, node) pairs a ``get_state_classes`` implementation puts into the map."""
    out = []
    for n in ast.walk(func.node):
        if isinstance(n, ast.Dict):
            for k, v in zip(n.keys, n.values):
                if k is None:
                    continue
                lbl = prog.fold(func.module, k, func.owner_class)
                if isinstance(lbl, EnumMember):
                    out.append((lbl.member, prog.resolve_class(func.module, v), v))
        elif isinstance(n, ast.Assign) and len(n.targets) == 1 and isinstance(n.targets[0], ast.Subscript):
            lbl = prog.fold(func.module, n.targets[0].slice, func.owner_class)
            if isinstance(lbl, EnumMember):
                out.append((lbl.member, prog.resolve_class(func.module, n.value), n.value))
    return out


def copy_protocol_is_deep(chk, rule: str) -> None:
    """Rules that accept ``copy.deepcopy(x)`` as "detached from x" rely on deepcopy being deep: a class of the package that
    overrides ``__deepcopy__`` (or pickling via ``__reduce__``) and HOLDS values given to its constructor must build a new
    object, never hand back ``self`` or one of its own members (shallow immutability is not immutability of what it
    holds).  A stateless sentinel may return itself; ``__copy__`` is a shallow copy by definition and is not constrained."""
    import ast as _ast
    from ..model import norm as _norm
    n = 0
    for c in chk.prog.all_classes():
        for name in ('__deepcopy__', '__reduce__', '__reduce_ex__'):
            f = c.vmethods.get(name)
            if f is None:
                continue
            init = c.lookup('__init__')
            holds = init is not None and any(isinstance(x, (_ast.Assign, _ast.AnnAssign)) and x.value is not None
                                             and any(isinstance(y, _ast.Name) and y.id in init.params[1:] + ([init.node.args.vararg.arg] if init.node.args.vararg else [])
                                                     + ([init.node.args.kwarg.arg] if init.node.args.kwarg else []) for y in _ast.walk(x.value))
                                             for x in _ast.walk(init.node))
            if not holds:
                continue
            n += 1
            for r in [x for x in _ast.walk(f.node) if isinstance(x, _ast.Return)]:
                v = r.value
                shared = v is None or (isinstance(v, _ast.Name) and v.id == 'self') or (isinstance(v, _ast.Attribute) and _norm(v).startswith('self.'))
                chk.ob(rule, f, not shared, f'{c.name}.{name} returns {_norm(v) if v is not None else "None"}: '
                       + ('the "copy" is the object itself -- every deep copy that is supposed to detach a snapshot stops here' if shared else 'a newly built object'),
                       node=r, kind=f'copy-protocol:{c.name}.{name}')
            if name == '__deepcopy__':
                # ... and what it holds is copied too: a __deepcopy__ that wraps the SAME items in a new container is a shallow copy under a deep name (the mapping may be
                # immutable, the lists and dicts in it are not)
                deep = any(isinstance(x, _ast.Call) and _norm(x.func).split('.')[-1] in ('deepcopy', '__deepcopy__') for x in _ast.walk(f.node))
                chk.ob(rule, f, deep, f'{c.name}.__deepcopy__ deep-copies what the object holds' + ('' if deep else
                       ': it does not -- the copy shares every value with the original; a checkpoint kept in memory changes when the live process mutates an input in place'),
                       kind=f'deepcopy-copies-contents:{c.name}')
    # ... and a copy has the CLASS of what was copied: a class that has subclasses in the package and rebuilds itself under its own name (``return Frozendict, (...)``)
    # turns every subclass instance into a base instance at the first deepcopy / pickle -- a save/load round trip (the nested input namespaces lose attribute access)
    for c in chk.prog.all_classes():
        if not chk.prog.subclasses(c):
            continue
        for name in ('__reduce__', '__reduce_ex__', '__deepcopy__', '__copy__'):
            f = c.vmethods.get(name)
            if f is None:
                continue
            for r in [x for x in _ast.walk(f.node) if isinstance(x, _ast.Return) and x.value is not None]:
                v = r.value
                head = v.elts[0] if isinstance(v, _ast.Tuple) and v.elts else (v.func if isinstance(v, _ast.Call) else None)
                fixed = isinstance(head, _ast.Name) and chk.prog.resolve_class(f.module, head) is not None
                chk.ob(rule, f, not fixed, f'{c.name}.{name} rebuilds the object as ' + (f'{_norm(head)} -- a fixed class: an instance of a subclass ({chk.prog.subclasses(c)[0].name}) comes back as a plain '
                       f'{_norm(head)} from every copy, pickle or checkpoint' if fixed else 'an instance of its own class'), node=r, kind=f'copy-keeps-class:{c.name}.{name}')
    chk.units['copy_protocol_overrides'] = n
    chk.ob(rule, 'plumpy', True, f'{n} class(es) override the copy protocol; none hands back itself', kind='copy-protocol-scan', expr='copy protocol')


def event_guard_accepts_subclasses(chk, rule: str) -> None:
    """``@event(from_states=Waiting)`` must let the event through for every state that IS a Waiting -- the work chain's own WAITING
    state is a subclass.  The guard that raises EventError before the wrapped method runs is therefore an isinstance test (or
    issubclass of the state's type), not an identity / membership test on the exact class."""
    import ast as _ast
    from ..model import norm as _norm, walk_shallow as _ws
    prog = chk.prog
    tr = prog.func('base.state_machine.event.wrapper.transition')
    ff = chk.ctx.facts.analyse(tr)
    wrapped = [m for m in ff.cfg.nodes if m.expr() is not None and any(isinstance(c, _ast.Call) and _norm(c.func) == 'wrapped' for c in _ws(m.expr()))]
    raises = [m for m in ff.cfg.nodes if m.kind == 'raisestmt' and 'EventError' in _norm(m.ast.exc) and wrapped and any(w.id in ff.cfg.reachable([t_], include_src=True) for w in wrapped
              for t_ in [x for x in ff.cfg.nodes if x.kind == 'test' and m.id in ff.cfg.reachable([x])][:1])]
    # the tests that compare the CURRENT STATE with from_states (the wildcard test ``from_states != '*'`` alone is not one, wherever it is written)
    def about_state(txt: str) -> bool:
        rest = txt.replace("from_states != '*'", '').replace("from_states == '*'", '')
        return 'from_states' in rest
    guards = [t for t in ff.cfg.nodes if t.kind == 'test' and about_state(_norm(t.ast.test))]
    ok = bool(guards) and bool(wrapped)
    for t in guards:
        txt = _norm(t.ast.test)
        ok &= ('isinstance(' in txt or 'issubclass(' in txt) and 'type(' not in txt.replace('issubclass(type(', '')
    chk.ob(rule, tr, ok, 'the from_states guard of @event is an isinstance test: an event valid in WAITING is valid in every subclass of the WAITING state '
           '(the work chain has its own)', node=guards[0].ast if guards else None, kind='event-guard-accepts-subclasses')


def cancellation_delivered(chk, rule: str, qual: str, out_key: str, what: str) -> None:
    """``asyncio.CancelledError`` is a BaseException: neither ``except Exception`` nor ``kiwipy.capture_exceptions`` sees it.  In a
    callback / coroutine whose job is to resolve the future ``out_key``, every place where a cancellation can surface -- an ``await``
    of something, ``<future>.result()`` / ``.exception()`` not preceded by a ``cancelled()`` test that came out false -- must be inside a
    ``try`` with a handler for CancelledError / BaseException (or bare) that resolves that future; otherwise the outcome is never
    delivered and whoever waits on it hangs."""
    import ast as _ast
    from ..model import norm as _norm
    from ..rules import last_name as _last
    prog = chk.prog
    f = prog.try_func(qual)
    if f is None:
        chk.ob(rule, qual, False, f'{qual} not found: {what} cannot be examined', kind='cancellation-delivered')
        return
    ff = chk.ctx.facts.analyse(f)

    def resolves(stmts) -> bool:
        for s_ in stmts:
            for c in _ast.walk(s_):
                if isinstance(c, _ast.Call) and isinstance(c.func, _ast.Attribute) and c.func.attr in ('cancel', 'set_exception', 'set_result') and ff.canon.key(c.func.value) == out_key:
                    return True
        return False

    parents = {}
    for n in _ast.walk(f.node):
        for ch in _ast.iter_child_nodes(n):
            parents[id(ch)] = n
    sites = []
    for n in _ast.walk(f.node):
        if isinstance(n, _ast.Await):
            sites.append((n, 'await'))
        elif isinstance(n, _ast.Call) and isinstance(n.func, _ast.Attribute) and n.func.attr in ('result', 'exception') and not n.args:
            recv = ff.canon.key(n.func.value)
            nodes = ff.cfg.nodes_containing(n)
            tested = bool(nodes) and all(('F', f'{recv}.cancelled()') in ff.at_call(m, n) for m in nodes)
            if not tested:
                sites.append((n, f'{recv}.{n.func.attr}()'))
    n_ok = 0
    for node, desc in sites:
        covered = False
        cur = node
        while id(cur) in parents and not covered:
            par = parents[id(cur)]
            if isinstance(par, _ast.Try) and any(cur is s_ for s_ in par.body):
                for h in par.handlers:
                    names = ['<bare>'] if h.type is None else [_norm(x).split('.')[-1] for x in (h.type.elts if isinstance(h.type, _ast.Tuple) else [h.type])]
                    if any(nm in ('<bare>', 'BaseException', 'CancelledError') for nm in names) and (resolves(h.body) or any(isinstance(x, _ast.Raise) and False for x in h.body)):
                        # (kiwipy.CancelledError is the concurrent.futures one -- an Exception -- and does not count)
                        if h.type is None or 'asyncio' in _norm(h.type) or 'BaseException' in _norm(h.type):
                            covered = True
            if isinstance(par, (_ast.FunctionDef, _ast.AsyncFunctionDef, _ast.Lambda)):
                break
            cur = par
        n_ok += covered
        chk.ob(rule, f, covered, f'{what}: a cancellation surfacing at {desc} ' + ('is caught and delivered through the future' if covered else
               'is neither an Exception (so it passes except Exception / capture_exceptions) nor handled: the future is never resolved and its waiters hang'),
               node=node, kind='cancellation-delivered')
    chk.ob(rule, f, True, f'{what}: {len(sites)} place(s) where a cancellation can surface examined', kind='cancellation-sites')


def outcome_read_after_cancel_test(chk, rule: str, qual: str, what: str) -> None:
    """``<future>.result()`` / ``.exception()`` raise CancelledError on a cancelled future: each such read on ``self`` or a parameter is
    taken only where ``cancelled()`` was tested and found false (or inside a handler for CancelledError)."""
    import ast as _ast
    from ..model import norm as _norm
    f = chk.prog.try_func(qual)
    if f is None:
        chk.ob(rule, qual, False, f'{qual} not found', kind='cancelled-tested-first')
        return
    ff = chk.ctx.facts.analyse(f)
    n = 0
    for c in [x for x in _ast.walk(f.node) if isinstance(x, _ast.Call) and isinstance(x.func, _ast.Attribute) and x.func.attr in ('result', 'exception') and not x.args]:
        recv = ff.canon.key(c.func.value)
        n += 1
        nodes = ff.cfg.nodes_containing(c)
        ok = bool(nodes) and all(('F', f'{recv}.cancelled()') in ff.at_call(m, c) for m in nodes)
        chk.ob(rule, f, ok, f'{what}: {recv}.{c.func.attr}() is read only after {recv}.cancelled() was found false (it raises CancelledError otherwise)', node=c, kind='cancelled-tested-first')
    chk.ob(rule, f, n >= 1, f'{what}: {n} outcome read(s) examined', kind='outcome-reads')


def sentinels_are_unique_objects(chk, rule: str, modules=('ports',), parts=('unique', 'copy')) -> None:
    """A module constant that code tells apart with ``is`` / ``is not`` stands for "no value given": it must be an object nobody else can
    produce (``object()``, an instance of a private class).  A literal -- ``()`` -- is shared with every equal literal: CPython has ONE empty
    tuple, so a caller's ``()`` IS the sentinel."""
    import ast as _ast
    from ..model import norm as _norm
    prog = chk.prog
    n = 0
    for mname in modules:
        mod = prog.module(mname)
        used = set()
        for x in _ast.walk(mod.tree):
            if isinstance(x, _ast.Compare) and any(isinstance(o, (_ast.Is, _ast.IsNot)) for o in x.ops):
                for y in [x.left] + x.comparators:
                    if isinstance(y, _ast.Name) and y.id.isupper():
                        used.add(y.id)
        for name in sorted(used):
            v = mod.constants.get(name)
            if v is None:
                continue
            n += 1
            literal = isinstance(v, (_ast.Tuple, _ast.Constant, _ast.List, _ast.Dict, _ast.Set)) and not (isinstance(v, _ast.Constant) and v.value is None)
            if 'unique' in parts:
              chk.ob(rule, f'{mod.short}.{name}', not literal, f'{name} = {_norm(v)} is compared by identity: ' + ('a unique object' if not literal else
                   'a literal every equal value is identical to -- a caller passing that value is treated as having passed nothing (type check and validator skipped for an optional '
                   'port, "required value was not provided" for a port that accepts it)'), kind='sentinel-unique', expr=name)
            # ... and an identity that SURVIVES COPYING: ports are deep-copied when they are exposed (absorb) and when specs are inherited; ``copy.deepcopy``
            # hands back the same object for the builtin singletons, but rebuilds an instance of a class (a tuple subclass included) unless the class says
            # otherwise -- the copied port's "no default" marker is then a different object and ``is UNSPECIFIED`` is false: the exposed port "has a default"
            if 'copy' in parts and not literal and isinstance(v, _ast.Call):
                k = prog.resolve_class(mod, v.func)
                if k is not None:
                    stable = all(any(isinstance(r, _ast.Return) and _norm(r.value) in ('self', name) for r in _ast.walk(k.vmethods[m_].node)) for m_ in ('__deepcopy__', '__copy__')
                                 if m_ in k.methods) and '__deepcopy__' in k.methods and '__copy__' in k.methods
                    red = k.vmethods.get('__reduce__')
                    stable = stable or (red is not None and any(isinstance(r, _ast.Return) and isinstance(r.value, _ast.Constant) and r.value.value == name for r in _ast.walk(red.node)))
                    chk.ob(rule, f'{mod.short}.{name}', stable, f'{name} is an instance of {k.name} and is compared by identity: ' + ('copying it gives the same object' if stable else
                           f'{k.name} defines no __deepcopy__/__copy__ (or __reduce__) that hands back the one instance, so every deep copy of a port -- exposing, inheriting a spec -- '
                           'carries a different marker and the copy reports a default it does not have'), kind='sentinel-copy-stable', expr=name)
    chk.units['identity_sentinels'] = n


def waiting_future_key(prog) -> str:
    """``self.<attr>``: the attribute the base WAITING state awaits in execute() -- read from the code, so that the rules about the waiting
    future follow a rename of that private attribute."""
    import ast as _ast
    cached = getattr(prog, '_waiting_future_key', None)
    if cached:
        return cached
    key = 'self._waiting_future'
    we = prog.try_func('process_states.Waiting.execute')
    if we is not None:
        cands = []
        for n in _ast.walk(we.node):
            if isinstance(n, _ast.Await):
                v = n.value
                if isinstance(v, _ast.Call) and not v.args and isinstance(v.func, _ast.Attribute):     # lazily creating accessor
                    oc = we.owner_class
                    g = oc.lookup(v.func.attr) if oc is not None else None
                    from ..model import accessor_value
                    av = accessor_value(g) if g is not None else None
                    v = av if av is not None else v
                if isinstance(v, _ast.Attribute) and isinstance(v.value, _ast.Name) and v.value.id == 'self':
                    cands.append(f'self.{v.attr}')
        if len(set(cands)) == 1:
            key = cands[0]
    prog._waiting_future_key = key  # type: ignore[attr-defined]
    return key


def method_in_chain(prog, c, name: str, stop=('workchains.Stepper', 'persistence.Savable', 'processes.Process', 'base.state_machine.State')):
    """The analysis view of ``name`` as defined by ``c`` or by a base of ``c`` that is more specific than the framework classes in ``stop``
    (an identical method hoisted from sibling classes into a private common base is still "the class's" method)."""
    for k in c.mro_classes():
        if k.qualname in stop and k is not c:
            return None
        if name in k.methods:
            return prog.view(k.methods[name])
    return None


def barrier_opens_when_empty(chk, rule: str) -> None:
    """The work chain's waiting state: when the awaitable that just completed was the last one (``self._awaiting`` is empty after its
    removal) EVERY normal way through the done-callback resolves the waiting future -- with the wake-up, or with the item's failure.
    A further condition on the wake-up ("not while paused", "only if playing") loses it: nothing re-checks the awaitables later, the
    stepping task sleeps on a future nobody will resolve (decision table over ``self._awaiting`` = empty; other tests explored both ways)."""
    import ast as _ast
    from ..decisions import paths_under
    from ..rules import last_name as _last
    from ..model import walk_shallow as _ws, norm as _nm
    from ..cfg import cfg_of as _cfg_of, no_exc as _no_exc
    prog = chk.prog
    # ... and it is only the done-callback that takes items off the table: every awaited item gets that callback registered when the state is entered (on every path
    # through the loop -- an item that is already done included: its callback is simply scheduled at once), nothing else removes entries (a removal elsewhere is not
    # followed by the "was it the last one?" test, and if it was, nobody opens the barrier)
    wcw = prog.cls('workchains.Waiting')
    en = prog.view(wcw.vmethods['enter']) if 'enter' in wcw.vmethods else None
    if en is not None:
        ecfg = _cfg_of(en)
        its = [m for m in ecfg.nodes if m.kind == 'iter' and 'self._awaiting' in _nm(m.ast.iter)]
        regs = [m for m in ecfg.nodes if m.expr() is not None and any(isinstance(c, _ast.Call) and _last(c) == 'add_done_callback' and [_nm(a) for a in c.args] == ['self._awaitable_done']
                                                                      for c in _ws(m.expr()))]
        okw = bool(its) and bool(regs)
        for it in its:
            body = [t for t, l in it.succ if l not in ('exc', 'uncaught', 'handler') and it.id in ecfg.reachable([t], edge_ok=_no_exc)]
            okw = okw and bool(body) and all(ecfg.must_pass(b, [it], lambda x: x in regs, edge_ok=_no_exc) for b in body)
        chk.ob(rule, en, okw, 'entering the waiting state registers the done-callback on EVERY awaited item (no path through the loop skips it)', kind='every-item-watched')
    for g in wcw.emethods.values():
        gv = prog.view(g)
        if gv.name in ('_awaitable_done', '__init__', 'load_instance_state'):
            continue
        rem = [c for c in _ast.walk(gv.node) if isinstance(c, _ast.Call) and isinstance(c.func, _ast.Attribute) and c.func.attr in ('pop', 'popitem', 'clear') and _nm(c.func.value) == 'self._awaiting'] + [
            d for d in _ast.walk(gv.node) if isinstance(d, _ast.Delete) and any(isinstance(t, _ast.Subscript) and _nm(t.value) == 'self._awaiting' for t in d.targets)]
        if rem:
            chk.ob(rule, gv, False, f'{gv.short} takes an item off the table of awaited items outside the done-callback: if it was the last one, nothing opens the barrier', node=rem[0],
                   kind='items-removed-only-by-callback')
    ad = prog.try_func('workchains.Waiting._awaitable_done')
    if ad is None:
        chk.ob(rule, 'workchains.Waiting._awaitable_done', False, 'the done-callback of the awaited items was not found', kind='barrier-opens-when-empty')
        return
    WF = waiting_future_key(prog)
    ff = chk.ctx.facts.analyse(ad)
    writers = {m.id for m in ff.cfg.nodes if m.expr() is not None and any(
        isinstance(c, _ast.Call) and _last(c) in ('set_result', 'set_exception') and isinstance(c.func, _ast.Attribute) and ff.canon.key(c.func.value) == WF for c in _ws(m.expr()))}
    lost = None
    try:
        for path in paths_under(ff, {'self._awaiting': False}):
            if path[-1] is ff.cfg.exit and not any(m.id in writers for m in path):
                lost = path
                break
    except RuntimeError:
        lost = []
    tests = [m for m in (lost or []) if m.kind == 'test']
    chk.ob(rule, ad, bool(writers) and lost is None, 'when the last awaited item has completed every way through the done-callback resolves the waiting future (a wake-up made to depend on '
           'anything else -- the process being paused, say -- is never made up for: the step sleeps for good)', node=tests[-1].ast if tests else None, kind='barrier-opens-when-empty')


def context_assignment_is_any_dict(chk, rule: str) -> None:
    """"A context assignment" is what ``isinstance(value, ToContext)`` accepts in _do_step; in this code base ``ToContext`` IS ``dict`` -- a step may
    return ``{'key': future}`` just as well.  Turning the alias into a class of its own (a validating subclass, say) silently narrows the test: a plain
    dict returned by a step then counts as a result and stops the chain, its awaitables are never waited for."""
    prog = chk.prog
    wm = prog.module('workchains')
    v = wm.constants.get('ToContext')
    from ..model import norm as _norm
    ok = v is not None and _norm(v) in ('dict', 'builtins.dict')
    how = 'an alias of dict' if ok else ('a class of its own' if 'ToContext' in wm.classes else f'bound to {_norm(v) if v is not None else "nothing at module level"}')
    chk.ob(rule, 'workchains.ToContext', ok, f'ToContext is {how}: every dict a step returns is a context assignment (the chain waits for it and goes on)' if ok else
           f'ToContext is {how}: a plain dict returned by a step is no longer recognised as a context assignment -- the chain stops with the dict as its result and never waits',
           kind='context-assignment-is-dict', expr='ToContext')


def spec_built_per_class(chk, rule: str) -> None:
    """Process.spec(): the specification of a class is BUILT for that class -- a fresh spec object handed to ``cls.define`` -- and only the class's own
    cached one is reused.  A spec copied from (or shared with) the class ``define`` was inherited from keeps that class's outline: its step and predicate
    FUNCTIONS, not the overrides of the subclass; ports added by an overriding classmethod are lost the same way."""
    import ast as _ast
    from ..cfg import cfg_of, no_exc
    from ..model import norm as _norm, walk_shallow as _ws
    prog = chk.prog
    sp = prog.func('processes.Process.spec')
    cfg = cfg_of(sp)
    stores = [n for n in cfg.nodes if n.kind == 'stmt' and isinstance(n.ast, (_ast.Assign, _ast.AnnAssign))
              and _norm(n.ast.targets[0] if isinstance(n.ast, _ast.Assign) else n.ast.target) == 'cls._spec' and n.ast.value is not None]
    fresh = [n for n in stores if _norm(n.ast.value) in ('cls._spec_class()',)]
    chk.ob(rule, sp, bool(stores) and len(fresh) == len(stores), 'every spec installed on a class is a fresh one (cls._spec_class()), not a copy of / a reference to another class\'s'
           + ('' if len(fresh) == len(stores) else f': {[_norm(n.ast.value) for n in stores if n not in fresh]}'),
           node=next((n.ast for n in stores if n not in fresh), None), kind='spec-fresh-per-class')
    defines = [n for n in cfg.nodes if n.expr() is not None and any(isinstance(c, _ast.Call) and _norm(c.func) == 'cls.define' and [_norm(a) for a in c.args] == ['cls._spec'] for c in _ws(n.expr()))]
    ok = bool(defines) and all(cfg.must_pass(s0, [cfg.exit], lambda m: m in defines, edge_ok=no_exc) for st in stores for s0, l0 in st.succ if l0 not in ('exc', 'uncaught', 'handler'))
    chk.ob(rule, sp, ok, 'a newly installed spec is filled in by cls.define(cls._spec) -- the define the CLASS resolves to, overrides included -- before it is returned', kind='spec-defined-by-class')
    rets = [n for n in cfg.nodes if n.kind == 'return' and n.ast.value is not None]
    own = lambda t: '__getattribute__(cls,' in t or 'cls.__dict__' in t or 'vars(cls)' in t
    ok = bool(rets) and all(own(_norm(r.ast.value)) or (_norm(r.ast.value) == 'cls._spec' and cfg.must_pass(cfg.entry, [r], lambda m: m in stores, edge_ok=no_exc)) for r in rets)
    chk.ob(rule, sp, ok, 'a cached spec is reused only when it is the class\'s OWN (looked up in the class itself, not along the MRO)', kind='spec-own-cache')


def state_tables_built_per_class(chk, rule: str) -> None:
    """StateMachine.__ensure_built: "already built" is asked of the class ITSELF.  A lookup that follows the MRO (``getattr(cls, 'sealed', ...)``,
    ``cls.sealed``) finds the flag of an ancestor that was built earlier: a subclass with its own get_states()/get_state_classes() -- the work chain,
    which swaps in its own WAITING state -- then silently keeps the ancestor's state table, depending on which class happened to be instantiated first."""
    import ast as _ast
    from ..model import norm as _norm
    prog = chk.prog
    sm = prog.cls('base.state_machine.StateMachine')
    eb = next((f for n, f in sm.emethods.items() if n.endswith('ensure_built')), None)
    if eb is None:
        chk.ob(rule, sm.qualname, False, 'the method that builds the state table of a class (..ensure_built) was not found', kind='tables-per-class')
        return
    flags = {t.attr for n in _ast.walk(eb.node) if isinstance(n, _ast.Assign) and isinstance(n.value, _ast.Constant) and n.value.value is True
             for t in n.targets if isinstance(t, _ast.Attribute) and _norm(t.value) == 'cls'}
    reads = []
    for n in _ast.walk(eb.node):
        if isinstance(n, _ast.Attribute) and isinstance(n.ctx, _ast.Load) and n.attr in flags and _norm(n.value) == 'cls':
            reads.append((n, False))
        elif isinstance(n, _ast.Call) and isinstance(n.func, _ast.Name) and n.func.id in ('getattr', 'hasattr') and len(n.args) >= 2 and isinstance(n.args[1], _ast.Constant) and n.args[1].value in flags:
            reads.append((n, False))
        elif isinstance(n, _ast.Call) and _norm(n.func) in ('cls.__getattribute__', 'type.__getattribute__') and len(n.args) == 2 and _norm(n.args[0]) == 'cls' and isinstance(n.args[1], _ast.Constant) and n.args[1].value in flags:
            reads.append((n, True))
        elif isinstance(n, (_ast.Subscript, _ast.Compare)) and ('cls.__dict__' in _norm(n) or 'vars(cls)' in _norm(n)) and any(repr(f) in _norm(n) for f in flags):
            reads.append((n, True))
    bad = [n for n, own in reads if not own]
    chk.ob(rule, eb, bool(flags) and bool(reads) and not bad, 'the "already built" flag is read from the class itself (own attribute lookup), so every class builds its own state table'
           + ('' if not bad else f': {_norm(bad[0])} follows the MRO -- a subclass instantiated after an ancestor inherits the ancestor\'s table'),
           node=bad[0] if bad else None, kind='tables-per-class')


def nothing_registered_before_validation(chk, rule: str) -> None:
    """Creating a process validates its inputs while ENTERING the initial state (on_create); ``init()`` -- which subscribes the process to the communicator
    under its pid -- runs only afterwards.  With the order reversed a construction that raises has already registered a half-built object: the pid stays
    taken, status requests are answered by something that is not a process."""
    import ast as _ast
    from ..cfg import cfg_of, no_exc
    from ..model import norm as _norm, walk_shallow as _ws
    prog = chk.prog
    mc = prog.func('base.state_machine.StateMachineMeta.__call__')
    cfg = cfg_of(mc)

    def has(n, pred) -> bool:
        return n.expr() is not None and any(isinstance(c, _ast.Call) and pred(c) for c in _ws(n.expr()))
    from ..rules import Resolver as _Res
    res_ = _Res(mc)     # (the initial state possibly named in a local first)
    enters = [n for n in cfg.nodes if has(n, lambda c: isinstance(c.func, _ast.Attribute) and c.func.attr == 'transition_to' and c.args and 'create_initial_state' in res_.text(c.args[0]))]
    inits = [n for n in cfg.nodes if has(n, lambda c: (_norm(c.func).endswith('call_with_super_check') and c.args and _norm(c.args[0]).endswith('.init')) or _norm(c.func).endswith('.init'))]
    ok = bool(enters) and bool(inits) and all(cfg.must_pass(cfg.entry, [i], lambda m: m in enters, edge_ok=no_exc) for i in inits)
    chk.ob(rule, mc, ok, 'a new state machine enters its initial state (where a process validates its inputs) BEFORE init() runs (where it subscribes to the communicator): a rejected '
           'construction leaves nothing registered', node=inits[0].ast if inits else None, kind='init-after-initial-state')
    # the subscriptions are made by init(), nowhere earlier in the construction
    proc = prog.cls('processes.Process')
    for name in ('__init__', 'on_create'):
        f = proc.vmethods.get(name)
        if f is None:
            continue
        subs = [c for c in _ast.walk(f.node) if isinstance(c, _ast.Call) and isinstance(c.func, _ast.Attribute) and c.func.attr in ('add_rpc_subscriber', 'add_broadcast_subscriber', 'add_task_subscriber')]
        chk.ob(rule, f, not subs, f'Process.{name} does not subscribe to the communicator (that is init()\'s job, after validation)', node=subs[0] if subs else None, kind=f'no-subscription-in:{name}')


def every_declared_port_validated(chk, rule: str) -> None:
    """PortNamespace.validate_ports: every iteration of the loop over the declared ports validates that port -- there is no way round the call back to the
    loop head.  A ``continue`` for "ports that received nothing" skips exactly the checks that exist for missing values: a required port below a skipped
    namespace, a namespace validator."""
    import ast as _ast
    from ..cfg import cfg_of, no_exc
    from ..model import norm as _norm, walk_shallow as _ws
    from ..rules import last_name as _last
    prog = chk.prog
    vp = prog.func('ports.PortNamespace.validate_ports')
    cfg = cfg_of(vp)
    its = [m for m in cfg.nodes if m.kind == 'iter' and _norm(m.ast.iter) in ('self._ports.items()', 'self.items()', 'self.ports.items()')]
    ok = len(its) == 1
    skipping = None
    if ok:
        it = its[0]
        pvar = _norm(it.ast.target.elts[1]) if isinstance(it.ast.target, _ast.Tuple) and len(it.ast.target.elts) == 2 else 'port'
        vals = [m for m in cfg.nodes if m.expr() is not None and any(isinstance(c, _ast.Call) and _last(c) == 'validate' and isinstance(c.func, _ast.Attribute) and _norm(c.func.value) == pvar for c in _ws(m.expr()))]
        body = [t for t, l in it.succ if l not in ('exc', 'uncaught', 'handler') and it.id in cfg.reachable([t], edge_ok=no_exc)]
        ok = bool(vals) and bool(body) and all(cfg.must_pass(b, [it], lambda m: m in vals, edge_ok=no_exc) for b in body)
        if not ok:
            skipping = next((m.ast for m in cfg.nodes if m.kind == 'stmt' and isinstance(m.ast, _ast.Continue)), None)
    chk.ob(rule, vp, ok, 'every declared port is validated in its iteration of the loop (no way back to the loop head that skips port.validate)', node=skipping, kind='no-port-skipped')


MUTATORS = ('append', 'extend', 'insert', 'add', 'update', 'setdefault', 'pop', 'popitem', 'remove', 'discard', 'clear')


def no_shared_mutable_class_state(chk, rule: str, roots=('processes.Process',)) -> None:
    """A mutable object written at CLASS level (``_cleanups = []``) is one object for all instances.  It is harmless as long as every instance gets its own
    before anything is put into it; if a method mutates ``self.<attr>`` in place and neither ``__init__`` nor ``init`` installs a fresh one on every path, the
    instances share it -- one process's cleanups (its unsubscriptions!) are run when ANOTHER process terminates."""
    import ast as _ast
    from ..cfg import cfg_of, no_exc
    from ..model import norm as _norm
    prog = chk.prog
    n_seen = 0
    for rq in roots:
        root = prog.cls(rq)
        for c in [root] + prog.subclasses(root):
            for attr, val in list(c.attrs.items()):
                mutable = isinstance(val, (_ast.List, _ast.Dict, _ast.Set)) or (isinstance(val, _ast.Call) and _norm(val.func) in ('list', 'dict', 'set', 'collections.defaultdict', 'defaultdict', 'collections.deque', 'deque'))
                if not mutable:
                    continue
                n_seen += 1
                muts = []
                for k in [c] + prog.subclasses(c):
                    for f in k.emethods.values():
                        for n in _ast.walk(f.node):
                            if isinstance(n, _ast.Call) and isinstance(n.func, _ast.Attribute) and n.func.attr in MUTATORS and _norm(n.func.value) == f'self.{attr}':
                                muts.append((f, n))
                            elif isinstance(n, _ast.Subscript) and isinstance(n.ctx, (_ast.Store, _ast.Del)) and _norm(n.value) == f'self.{attr}':
                                muts.append((f, n))
                if not muts:
                    continue
                fresh = False
                for name in ('__init__', 'init'):
                    g = c.lookup(name)
                    g = prog.view(g) if g is not None else None
                    if g is None:
                        continue
                    cfg = cfg_of(g)
                    inst = [m for m in cfg.nodes if m.kind == 'stmt' and isinstance(m.ast, (_ast.Assign, _ast.AnnAssign)) and _norm(m.ast.targets[0] if isinstance(m.ast, _ast.Assign) else m.ast.target) == f'self.{attr}']
                    if inst and cfg.must_pass(cfg.entry, [cfg.exit], lambda m: m in inst, edge_ok=no_exc):
                        fresh = True
                f0, n0 = muts[0]
                chk.ob(rule, c.qualname, fresh, f'{c.name}.{attr} is a mutable object at class level and is mutated in place ({f0.short}): every instance must get its own in __init__ / init() on every path'
                       + ('' if fresh else ' -- it does not: all instances share the one object, what one process registers is run / seen by the others'), node=n0, kind=f'class-level-mutable:{attr}', expr=attr)
    chk.ob(rule, 'processes.Process', True, f'{n_seen} mutable class-level default(s) in the Process hierarchy examined', kind='class-level-mutable-scan')


# ---------------------------------------------------------------------- anchor attributes
# The private attributes the rules of a property are written against.  If one of them is no longer STORED anywhere in its class (it was folded into a holder object, a
# tuple, a property computed from something else), the rules cannot be translated: the check says so (analysis error, exit 2) instead of judging code it cannot read.
_SM, _P, _CA = 'base.state_machine.StateMachine', 'processes.Process', 'futures.CancellableAction'
_FLAGS_SM = [(_SM, '_state'), (_SM, '_transitioning'), (_SM, '_transition_failing')]
_FLAGS_P = [(_P, '_stepping'), (_P, '_interrupt_action'), (_P, '_pausing'), (_P, '_killing'), (_P, '_paused')]
ANCHOR_ATTRS = {
    'C01': _FLAGS_SM + [(_CA, '_action')], 'C02': _FLAGS_SM + _FLAGS_P + [(_CA, '_action')], 'C03': _FLAGS_SM + _FLAGS_P + [(_CA, '_action')],
    'C04': _FLAGS_P + [(_CA, '_action'), ('process_states.Waiting', '_waiting_future')], 'C05': _FLAGS_P + [(_CA, '_action'), ('process_states.Waiting', '_waiting_future')],
    'C06': _FLAGS_P + [('process_states.Waiting', '_waiting_future')], 'C09': [('workchains._Conditional', '_predicate')], 'C13': [('process_states.Waiting', '_waiting_future')],
    'C17': [('process_comms.ProcessLauncher', '_persister'), ('process_comms.ProcessLauncher', '_loader'), ('process_comms.ProcessLauncher', '_load_context')],
    'C20': [(_CA, '_action')],
    'C16': [(_P, '_communicator'), ('process_comms.ProcessLauncher', '_load_context')],
}


def need_anchor_attrs(prog, pid: str) -> None:
    import ast as _ast
    from ..model import AnalysisError
    for cq, attr in ANCHOR_ATTRS.get(pid, []):
        try:
            c = prog.cls(cq)
        except AnalysisError:
            continue   # (a vanished class is reported by the rule that asks for it)
        stored = False
        for n in _ast.walk(c.node):
            if isinstance(n, _ast.Attribute) and n.attr == attr and isinstance(n.ctx, _ast.Store) and isinstance(n.value, _ast.Name) and n.value.id in ('self', 'cls'):
                stored = True
            elif isinstance(n, _ast.Call) and isinstance(n.func, _ast.Name) and n.func.id == 'setattr' and len(n.args) >= 2 and isinstance(n.args[1], _ast.Constant) and n.args[1].value == attr:
                stored = True
        for st in c.node.body:
            if isinstance(st, (_ast.Assign, _ast.AnnAssign)) and any(isinstance(t, _ast.Name) and t.id == attr for t in (st.targets if isinstance(st, _ast.Assign) else [st.target])):
                stored = stored or (isinstance(st, _ast.Assign) or st.value is not None)
        if not stored:
            raise AnalysisError(f'anchor attribute {c.name}.{attr} is no longer stored anywhere in its class (folded into another object or computed): the rules written '
                                f'against it cannot be translated, the check cannot vouch for the property')
