"""Tables shared by several properties: the process state classes and their folded LABEL / ALLOWED."""
from __future__ import annotations

import ast
from typing import Dict, FrozenSet, List, Optional, Tuple

from ..model import AnalysisError, ClassInfo, EnumMember, FuncInfo, Program, UNKNOWN, unparse

STATE_MEMBERS = ('CREATED', 'RUNNING', 'WAITING', 'FINISHED', 'EXCEPTED', 'KILLED')
TERMINAL = ('FINISHED', 'EXCEPTED', 'KILLED')
LIVE = ('CREATED', 'RUNNING', 'WAITING')

# the lifecycle graph as stated by property C01
GRAPH = {
    'CREATED': {'RUNNING', 'KILLED', 'EXCEPTED'},
    'RUNNING': {'RUNNING', 'WAITING', 'FINISHED', 'KILLED', 'EXCEPTED'},
    'WAITING': {'RUNNING', 'WAITING', 'FINISHED', 'KILLED', 'EXCEPTED'},
    'FINISHED': set(), 'EXCEPTED': set(), 'KILLED': set(),
}


def process_state_enum(prog: Program) -> List[str]:
    c = prog.cls('process_states.ProcessState')
    members = [k for k, v in c.attrs.items() if isinstance(v, ast.Constant)]
    if not members:
        raise AnalysisError('ProcessState enum has no members')
    return members


def state_classes(prog: Program) -> List[ClassInfo]:
    base = prog.cls('base.state_machine.State')
    out = [c for c in prog.all_classes() if c is not base and c.is_subclass_of(base)]
    return out


def label_of(prog: Program, c: ClassInfo) -> Optional[str]:
    a = c.lookup_attr('LABEL')
    if a is None:
        return None
    v = prog.fold(a[0].module, a[1], a[0])
    if isinstance(v, EnumMember) and v.enum == 'ProcessState':
        return v.member
    return None


def allowed_of(prog: Program, c: ClassInfo):
    a = c.lookup_attr('ALLOWED')
    if a is None:
        return UNKNOWN
    v = prog.fold(a[0].module, a[1], a[0])
    if v is UNKNOWN or not isinstance(v, frozenset):
        return UNKNOWN
    out = set()
    for x in v:
        if not (isinstance(x, EnumMember) and x.enum == 'ProcessState'):
            return UNKNOWN
        out.add(x.member)
    return out


def labelled_states(prog: Program) -> Dict[str, List[ClassInfo]]:
    out: Dict[str, List[ClassInfo]] = {}
    for c in state_classes(prog):
        lbl = label_of(prog, c)
        if lbl is not None:
            out.setdefault(lbl, []).append(c)
    return out


def states_map_entries(prog: Program, func: FuncInfo) -> List[Tuple[str, Optional[ClassInfo], ast.AST]]:
    """(label, class, node) pairs a ``get_state_classes`` implementation puts into the map."""
    out = []
    for n in ast.walk(func.node):
        if isinstance(n, ast.Dict):
            for k, v in zip(n.keys, n.values):
                if k is None:
                    continue
                lbl = prog.fold(func.module, k, func.owner_class)
                if isinstance(lbl, EnumMember):
                    out.append((lbl.member, prog.resolve_class(func.module, v), v))
        elif isinstance(n, ast.Assign) and len(n.targets) == 1 and isinstance(n.targets[0], ast.Subscript):
            lbl = prog.fold(func.module, n.targets[0].slice, func.owner_class)
            if isinstance(lbl, EnumMember):
                out.append((lbl.member, prog.resolve_class(func.module, n.value), n.value))
    return out


def copy_protocol_is_deep(chk, rule: str) -> None:
    """Rules that accept ``copy.deepcopy(x)`` as "detached from x" rely on deepcopy being deep: a class of the package that
    overrides ``__deepcopy__`` (or pickling via ``__reduce__``) and HOLDS values given to its constructor must build a new
    object, never hand back ``self`` or one of its own members (shallow immutability is not immutability of what it
    holds).  A stateless sentinel may return itself; ``__copy__`` is a shallow copy by definition and is not constrained."""
    import ast as _ast
    from ..model import norm as _norm
    n = 0
    for c in chk.prog.all_classes():
        for name in ('__deepcopy__', '__reduce__', '__reduce_ex__'):
            f = c.vmethods.get(name)
            if f is None:
                continue
            init = c.lookup('__init__')
            holds = init is not None and any(isinstance(x, (_ast.Assign, _ast.AnnAssign)) and x.value is not None
                                             and any(isinstance(y, _ast.Name) and y.id in init.params[1:] + ([init.node.args.vararg.arg] if init.node.args.vararg else [])
                                                     + ([init.node.args.kwarg.arg] if init.node.args.kwarg else []) for y in _ast.walk(x.value))
                                             for x in _ast.walk(init.node))
            if not holds:
                continue
            n += 1
            for r in [x for x in _ast.walk(f.node) if isinstance(x, _ast.Return)]:
                v = r.value
                shared = v is None or (isinstance(v, _ast.Name) and v.id == 'self') or (isinstance(v, _ast.Attribute) and _norm(v).startswith('self.'))
                chk.ob(rule, f, not shared, f'{c.name}.{name} returns {_norm(v) if v is not None else "None"}: '
                       + ('the "copy" is the object itself -- every deep copy that is supposed to detach a snapshot stops here' if shared else 'a newly built object'),
                       node=r, kind=f'copy-protocol:{c.name}.{name}')
    chk.units['copy_protocol_overrides'] = n
    chk.ob(rule, 'plumpy', True, f'{n} class(es) override the copy protocol; none hands back itself', kind='copy-protocol-scan', expr='copy protocol')


def event_guard_accepts_subclasses(chk, rule: str) -> None:
    """``@event(from_states=Waiting)`` must let the event through for every state that IS a Waiting -- the work chain's own WAITING
    state is a subclass.  The guard that raises EventError before the wrapped method runs is therefore an isinstance test (or
    issubclass of the state's type), not an identity / membership test on the exact class."""
    import ast as _ast
    from ..model import norm as _norm, walk_shallow as _ws
    prog = chk.prog
    tr = prog.func('base.state_machine.event.wrapper.transition')
    ff = chk.ctx.facts.analyse(tr)
    wrapped = [m for m in ff.cfg.nodes if m.expr() is not None and any(isinstance(c, _ast.Call) and _norm(c.func) == 'wrapped' for c in _ws(m.expr()))]
    raises = [m for m in ff.cfg.nodes if m.kind == 'raisestmt' and 'EventError' in _norm(m.ast.exc) and wrapped and any(w.id in ff.cfg.reachable([t_], include_src=True) for w in wrapped
              for t_ in [x for x in ff.cfg.nodes if x.kind == 'test' and m.id in ff.cfg.reachable([x])][:1])]
    guards = [t for t in ff.cfg.nodes if t.kind == 'test' and 'from_states' in _norm(t.ast.test)]
    ok = bool(guards) and bool(wrapped)
    for t in guards:
        txt = _norm(t.ast.test)
        ok &= ('isinstance(' in txt or 'issubclass(' in txt) and 'type(' not in txt.replace('issubclass(type(', '')
    chk.ob(rule, tr, ok, 'the from_states guard of @event is an isinstance test: an event valid in WAITING is valid in every subclass of the WAITING state '
           '(the work chain has its own)', node=guards[0].ast if guards else None, kind='event-guard-accepts-subclasses')


def cancellation_delivered(chk, rule: str, qual: str, out_key: str, what: str) -> None:
    """``asyncio.CancelledError`` is a BaseException: neither ``except Exception`` nor ``kiwipy.capture_exceptions`` sees it.  In a
    callback / coroutine whose job is to resolve the future ``out_key``, every place where a cancellation can surface -- an ``await``
    of something, ``<future>.result()`` / ``.exception()`` not preceded by a ``cancelled()`` test that came out false -- must be inside a
    ``try`` with a handler for CancelledError / BaseException (or bare) that resolves that future; otherwise the outcome is never
    delivered and whoever waits on it hangs."""
    import ast as _ast
    from ..model import norm as _norm
    from ..rules import last_name as _last
    prog = chk.prog
    f = prog.try_func(qual)
    if f is None:
        chk.ob(rule, qual, False, f'{qual} not found: {what} cannot be examined', kind='cancellation-delivered')
        return
    ff = chk.ctx.facts.analyse(f)

    def resolves(stmts) -> bool:
        for s_ in stmts:
            for c in _ast.walk(s_):
                if isinstance(c, _ast.Call) and isinstance(c.func, _ast.Attribute) and c.func.attr in ('cancel', 'set_exception', 'set_result') and ff.canon.key(c.func.value) == out_key:
                    return True
        return False

    parents = {}
    for n in _ast.walk(f.node):
        for ch in _ast.iter_child_nodes(n):
            parents[id(ch)] = n
    sites = []
    for n in _ast.walk(f.node):
        if isinstance(n, _ast.Await):
            sites.append((n, 'await'))
        elif isinstance(n, _ast.Call) and isinstance(n.func, _ast.Attribute) and n.func.attr in ('result', 'exception') and not n.args:
            recv = ff.canon.key(n.func.value)
            nodes = ff.cfg.nodes_containing(n)
            tested = bool(nodes) and all(('F', f'{recv}.cancelled()') in ff.at_call(m, n) for m in nodes)
            if not tested:
                sites.append((n, f'{recv}.{n.func.attr}()'))
    n_ok = 0
    for node, desc in sites:
        covered = False
        cur = node
        while id(cur) in parents and not covered:
            par = parents[id(cur)]
            if isinstance(par, _ast.Try) and any(cur is s_ for s_ in par.body):
                for h in par.handlers:
                    names = ['<bare>'] if h.type is None else [_norm(x).split('.')[-1] for x in (h.type.elts if isinstance(h.type, _ast.Tuple) else [h.type])]
                    if any(nm in ('<bare>', 'BaseException', 'CancelledError') for nm in names) and (resolves(h.body) or any(isinstance(x, _ast.Raise) and False for x in h.body)):
                        # (kiwipy.CancelledError is the concurrent.futures one -- an Exception -- and does not count)
                        if h.type is None or 'asyncio' in _norm(h.type) or 'BaseException' in _norm(h.type):
                            covered = True
            if isinstance(par, (_ast.FunctionDef, _ast.AsyncFunctionDef, _ast.Lambda)):
                break
            cur = par
        n_ok += covered
        chk.ob(rule, f, covered, f'{what}: a cancellation surfacing at {desc} ' + ('is caught and delivered through the future' if covered else
               'is neither an Exception (so it passes except Exception / capture_exceptions) nor handled: the future is never resolved and its waiters hang'),
               node=node, kind='cancellation-delivered')
    chk.ob(rule, f, True, f'{what}: {len(sites)} place(s) where a cancellation can surface examined', kind='cancellation-sites')


def outcome_read_after_cancel_test(chk, rule: str, qual: str, what: str) -> None:
    """``<future>.result()`` / ``.exception()`` raise CancelledError on a cancelled future: each such read on ``self`` or a parameter is
    taken only where ``cancelled()`` was tested and found false (or inside a handler for CancelledError)."""
    import ast as _ast
    from ..model import norm as _norm
    f = chk.prog.try_func(qual)
    if f is None:
        chk.ob(rule, qual, False, f'{qual} not found', kind='cancelled-tested-first')
        return
    ff = chk.ctx.facts.analyse(f)
    n = 0
    for c in [x for x in _ast.walk(f.node) if isinstance(x, _ast.Call) and isinstance(x.func, _ast.Attribute) and x.func.attr in ('result', 'exception') and not x.args]:
        recv = ff.canon.key(c.func.value)
        n += 1
        nodes = ff.cfg.nodes_containing(c)
        ok = bool(nodes) and all(('F', f'{recv}.cancelled()') in ff.at_call(m, c) for m in nodes)
        chk.ob(rule, f, ok, f'{what}: {recv}.{c.func.attr}() is read only after {recv}.cancelled() was found false (it raises CancelledError otherwise)', node=c, kind='cancelled-tested-first')
    chk.ob(rule, f, n >= 1, f'{what}: {n} outcome read(s) examined', kind='outcome-reads')


def sentinels_are_unique_objects(chk, rule: str, modules=('ports',)) -> None:
    """A module constant that code tells apart with ``is`` / ``is not`` stands for "no value given": it must be an object nobody else can
    produce (``object()``, an instance of a private class).  A literal -- ``()`` -- is shared with every equal literal: CPython has ONE empty
    tuple, so a caller's ``()`` IS the sentinel."""
    import ast as _ast
    from ..model import norm as _norm
    prog = chk.prog
    n = 0
    for mname in modules:
        mod = prog.module(mname)
        used = set()
        for x in _ast.walk(mod.tree):
            if isinstance(x, _ast.Compare) and any(isinstance(o, (_ast.Is, _ast.IsNot)) for o in x.ops):
                for y in [x.left] + x.comparators:
                    if isinstance(y, _ast.Name) and y.id.isupper():
                        used.add(y.id)
        for name in sorted(used):
            v = mod.constants.get(name)
            if v is None:
                continue
            n += 1
            literal = isinstance(v, (_ast.Tuple, _ast.Constant, _ast.List, _ast.Dict, _ast.Set)) and not (isinstance(v, _ast.Constant) and v.value is None)
            chk.ob(rule, f'{mod.short}.{name}', not literal, f'{name} = {_norm(v)} is compared by identity: ' + ('a unique object' if not literal else
                   'a literal every equal value is identical to -- a caller passing that value is treated as having passed nothing (type check and validator skipped for an optional '
                   'port, "required value was not provided" for a port that accepts it)'), kind='sentinel-unique', expr=name)
    chk.units['identity_sentinels'] = n


def waiting_future_key(prog) -> str:
    """``self.<attr>``: the attribute the base WAITING state awaits in execute() -- read from the code, so that the rules about the waiting
    future follow a rename of that private attribute."""
    import ast as _ast
    cached = getattr(prog, '_waiting_future_key', None)
    if cached:
        return cached
    key = 'self._waiting_future'
    we = prog.try_func('process_states.Waiting.execute')
    if we is not None:
        cands = []
        for n in _ast.walk(we.node):
            if isinstance(n, _ast.Await):
                v = n.value
                if isinstance(v, _ast.Call) and not v.args and isinstance(v.func, _ast.Attribute):     # lazily creating accessor
                    oc = we.owner_class
                    g = oc.lookup(v.func.attr) if oc is not None else None
                    from ..model import accessor_value
                    av = accessor_value(g) if g is not None else None
                    v = av if av is not None else v
                if isinstance(v, _ast.Attribute) and isinstance(v.value, _ast.Name) and v.value.id == 'self':
                    cands.append(f'self.{v.attr}')
        if len(set(cands)) == 1:
            key = cands[0]
    prog._waiting_future_key = key  # type: ignore[attr-defined]
    return key


def method_in_chain(prog, c, name: str, stop=('workchains.Stepper', 'persistence.Savable', 'processes.Process', 'base.state_machine.State')):
    """The analysis view of ``name`` as defined by ``c`` or by a base of ``c`` that is more specific than the framework classes in ``stop``
    (an identical method hoisted from sibling classes into a private common base is still "the class's" method)."""
    for k in c.mro_classes():
        if k.qualname in stop and k is not c:
            return None
        if name in k.methods:
            return prog.view(k.methods[name])
    return None
