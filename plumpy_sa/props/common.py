"""Tables shared by several properties: the process state classes and their folded LABEL / ALLOWED."""
from __future__ import annotations

import ast
from typing import Dict, FrozenSet, List, Optional, Tuple

from ..model import AnalysisError, ClassInfo, EnumMember, FuncInfo, Program, UNKNOWN, unparse

STATE_MEMBERS = ('CREATED', 'RUNNING', 'WAITING', 'FINISHED', 'EXCEPTED', 'KILLED')
TERMINAL = ('FINISHED', 'EXCEPTED', 'KILLED')
LIVE = ('CREATED', 'RUNNING', 'WAITING')

# the lifecycle graph as stated by property C01
GRAPH = {
    'CREATED': {'RUNNING', 'KILLED', 'EXCEPTED'},
    'RUNNING': {'RUNNING', 'WAITING', 'FINISHED', 'KILLED', 'EXCEPTED'},
    'WAITING': {'RUNNING', 'WAITING', 'FINISHED', 'KILLED', 'EXCEPTED'},
    'FINISHED': set(), 'EXCEPTED': set(), 'KILLED': set(),
}


def process_state_enum(prog: Program) -> List[str]:
    c = prog.cls('process_states.ProcessState')
    members = [k for k, v in c.attrs.items() if isinstance(v, ast.Constant)]
    if not members:
        raise AnalysisError('ProcessState enum has no members')
    return members


def state_classes(prog: Program) -> List[ClassInfo]:
    base = prog.cls('base.state_machine.State')
    out = [c for c in prog.all_classes() if c is not base and c.is_subclass_of(base)]
    return out


def label_of(prog: Program, c: ClassInfo) -> Optional[str]:
    a = c.lookup_attr('LABEL')
    if a is None:
        return None
    v = prog.fold(a[0].module, a[1], a[0])
    if isinstance(v, EnumMember) and v.enum == 'ProcessState':
        return v.member
    return None


def allowed_of(prog: Program, c: ClassInfo):
    a = c.lookup_attr('ALLOWED')
    if a is None:
        return UNKNOWN
    v = prog.fold(a[0].module, a[1], a[0])
    if v is UNKNOWN or not isinstance(v, frozenset):
        return UNKNOWN
    out = set()
    for x in v:
        if not (isinstance(x, EnumMember) and x.enum == 'ProcessState'):
            return UNKNOWN
        out.add(x.member)
    return out


def labelled_states(prog: Program) -> Dict[str, List[ClassInfo]]:
    out: Dict[str, List[ClassInfo]] = {}
    for c in state_classes(prog):
        lbl = label_of(prog, c)
        if lbl is not None:
            out.setdefault(lbl, []).append(c)
    return out


def states_map_entries(prog: Program, func: FuncInfo) -> List[Tuple[str, Optional[ClassInfo], ast.AST]]:
    """(label, class, node) pairs a ``get_state_classes`` implementation puts into the map."""
    out = []
    for n in ast.walk(func.node):
        if isinstance(n, ast.Dict):
            for k, v in zip(n.keys, n.values):
                if k is None:
                    continue
                lbl = prog.fold(func.module, k, func.owner_class)
                if isinstance(lbl, EnumMember):
                    out.append((lbl.member, prog.resolve_class(func.module, v), v))
        elif isinstance(n, ast.Assign) and len(n.targets) == 1 and isinstance(n.targets[0], ast.Subscript):
            lbl = prog.fold(func.module, n.targets[0].slice, func.owner_class)
            if isinstance(lbl, EnumMember):
                out.append((lbl.member, prog.resolve_class(func.module, n.value), n.value))
    return out


def copy_protocol_is_deep(chk, rule: str) -> None:
    """Rules that accept ``copy.deepcopy(x)`` as "detached from x" rely on deepcopy being deep: a class of the package that
    overrides ``__deepcopy__`` (or pickling via ``__reduce__``) and HOLDS values given to its constructor must build a new
    object, never hand back ``self`` or one of its own members (shallow immutability is not immutability of what it
    holds).  A stateless sentinel may return itself; ``__copy__`` is a shallow copy by definition and is not constrained."""
    import ast as _ast
    from ..model import norm as _norm
    n = 0
    for c in chk.prog.all_classes():
        for name in ('__deepcopy__', '__reduce__', '__reduce_ex__'):
            f = c.methods.get(name)
            if f is None:
                continue
            init = c.lookup('__init__')
            holds = init is not None and any(isinstance(x, (_ast.Assign, _ast.AnnAssign)) and x.value is not None
                                             and any(isinstance(y, _ast.Name) and y.id in init.params[1:] + ([init.node.args.vararg.arg] if init.node.args.vararg else [])
                                                     + ([init.node.args.kwarg.arg] if init.node.args.kwarg else []) for y in _ast.walk(x.value))
                                             for x in _ast.walk(init.node))
            if not holds:
                continue
            n += 1
            for r in [x for x in _ast.walk(f.node) if isinstance(x, _ast.Return)]:
                v = r.value
                shared = v is None or (isinstance(v, _ast.Name) and v.id == 'self') or (isinstance(v, _ast.Attribute) and _norm(v).startswith('self.'))
                chk.ob(rule, f, not shared, f'{c.name}.{name} returns {_norm(v) if v is not None else "None"}: '
                       + ('the "copy" is the object itself -- every deep copy that is supposed to detach a snapshot stops here' if shared else 'a newly built object'),
                       node=r, kind=f'copy-protocol:{c.name}.{name}')
    chk.units['copy_protocol_overrides'] = n
    chk.ob(rule, 'plumpy', True, f'{n} class(es) override the copy protocol; none hands back itself', kind='copy-protocol-scan', expr='copy protocol')
