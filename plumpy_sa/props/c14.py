"""C14 -- persisters are a snapshot store keyed by (pid, tag), equivalent to each other."""
from __future__ import annotations

import ast
from typing import List, Optional

from ..cfg import cfg_of, no_exc
from ..model import AnalysisError, FuncInfo, norm, strip_cast, unparse, walk_shallow
from ..report import Check
from ..rules import calls_in_func, last_name

FRESH_CALLS = ('copy.deepcopy', 'pickle.load', 'pickle.loads', 'PicklePersister.load_pickle', 'self.load_pickle')


def _value_source(f: FuncInfo, e: ast.expr, depth: int = 3) -> ast.expr:
    """Follow single-assignment locals / attribute access on a local back to the expression that produced the value."""
    e = strip_cast(e)
    while depth > 0:
        depth -= 1
        if isinstance(e, ast.Attribute) and isinstance(e.value, ast.Name):
            base = e.value.id
            vals = [n.value for n in ast.walk(f.node) if isinstance(n, ast.Assign) and norm(n.targets[0]) == base]
            if len(vals) == 1:
                e = vals[0]
                continue
        if isinstance(e, ast.Name):
            vals = [n.value for n in ast.walk(f.node) if isinstance(n, ast.Assign) and norm(n.targets[0]) == e.id]
            if len(vals) == 1:
                e = strip_cast(vals[0])
                continue
        break
    return e


def snapshot_isolation(chk: Check, rule: str = 'PROV-snapshot-isolation') -> None:
    """What a persister stores is detached from the live process at save time and what it hands out is detached from its
    own table at load time.  Shared with C08 (a checkpoint that moves with the process is not the checkpoint)."""
    prog = chk.prog
    mem = prog.cls('persistence.InMemoryPersister')
    pic = prog.cls('persistence.PicklePersister')
    from .common import copy_protocol_is_deep
    copy_protocol_is_deep(chk, rule)
    # 1. snapshot isolation -- save side
    ms = prog.view(mem.vmethods['save_checkpoint'])
    stores = [n for n in ast.walk(ms.node) if isinstance(n, ast.Assign) and isinstance(n.targets[0], ast.Subscript)]
    # (making room for a process seen for the first time -- ``table[pid] = {}`` -- stores nothing of the process)
    stores = [n for n in stores if not ((isinstance(n.value, ast.Dict) and not n.value.keys) or (isinstance(n.value, ast.Call) and norm(n.value.func) == 'dict' and not n.value.args and not n.value.keywords))]
    ok = False
    from ..rules import Resolver
    stored_v = Resolver(ms).expand(stores[0].value) if len(stores) == 1 else None
    if len(stores) == 1 and isinstance(stored_v, ast.Call) and last_name(stored_v) == 'Bundle':
        kws = {k.arg: norm(k.value) for k in stored_v.keywords}
        ok = kws.get('dereference') == 'True' or (isinstance(stores[0].value, ast.Call) and False)
    if not ok and len(stores) == 1:
        v = stored_v
        ok = isinstance(v, ast.Call) and norm(v.func) == 'copy.deepcopy'
    chk.ob(rule, ms, ok, 'what the in-memory persister stores is dereferenced (deep-copied) at save time: later progress of the live process does not show',
           node=stores[0] if stores else None, kind='save:dereferenced')
    bi = prog.func('persistence.Bundle.__init__')
    bf = chk.ctx.facts.analyse(bi)
    # decision table over ``dereference``: what reaches update() on each path (locals re-bound on the way are followed)
    from ..decisions import paths_under as _pu, value_on_path as _vop
    upd = [c for c in calls_in_func(bi, 'update')]
    is_copy = lambda v: isinstance(v, ast.Call) and norm(v.func) == 'copy.deepcopy'
    ok = bool(upd)
    seen_copy = False
    for want in (True, False):
        for path in _pu(bf, {'dereference': want}):
            if path[-1] is not bf.cfg.exit:
                continue
            hits = [(i, c) for i, m in enumerate(path) for c in upd if any(c is x for x in (walk_shallow(m.expr()) if m.expr() is not None else []))]
            if not hits:
                ok = False
                continue
            i, c = hits[-1]
            v = _vop(path, i, c.args[0]) if c.args else None
            if want:
                ok &= is_copy(v)
                seen_copy |= is_copy(v)
    ok &= seen_copy
    chk.ob(rule, bi, ok, 'Bundle(dereference=True) deep-copies the saved state', kind='bundle-dereference')
    pst = prog.view(pic.vmethods['save_checkpoint'])
    cfg = cfg_of(pst)
    dumps = [n for n in cfg.nodes if any(isinstance(c, ast.Call) and norm(c.func) in ('pickle.dump', 'pickle.dumps') for c in (walk_shallow(n.expr()) if n.expr() is not None else []))]
    ok = len(dumps) == 1 and cfg.must_pass(cfg.entry, [cfg.exit], lambda m: m in dumps, edge_ok=no_exc)
    chk.ob(rule, pst, ok, 'the pickle persister serialises the bundle before save_checkpoint returns, on every path', kind='save:serialised')
    # what is serialised contains the bundle of the process and its (pid, tag)
    b = [c for c in calls_in_func(pst, 'Bundle')]
    cp = [c for c in calls_in_func(pst, 'PersistedCheckpoint')]
    ok = len(b) == 1 and [norm(a) for a in b[0].args] == [pst.params[1]] and len(cp) == 1 and [norm(a) for a in cp[0].args] == [f'{pst.params[1]}.pid', pst.params[2]]
    chk.ob(rule, pst, ok, 'the pickle holds the bundle of that process together with its (pid, tag)', kind='save:content')

    # 1. snapshot isolation -- load side: the returned bundle is fresh, not the persister's own object
    for cls in (mem, pic):
        lf = prog.view(cls.vmethods['load_checkpoint'])
        rets = [r for r in ast.walk(lf.node) if isinstance(r, ast.Return) and r.value is not None]
        ok = bool(rets)
        detail = []
        for r in rets:
            src = _value_source(lf, r.value)
            fresh = isinstance(src, ast.Call) and (norm(src.func) in FRESH_CALLS or last_name(src) in ('deepcopy', 'load_pickle', 'loads', 'load'))
            detail.append(norm(src)[:80])
            ok &= fresh
        chk.ob(rule, lf, ok,
               f'what {cls.name}.load_checkpoint hands out is fresh (a deserialisation or a deep copy): {detail}' + ('' if ok else
               ' -- it is the object held in the persister\'s own table; a process continued from it mutates members in place (the load path copies nothing), '
               'so loading the same checkpoint again returns a changed "snapshot"; the pickle persister returns a freshly unpickled object every time'),
               node=rets[0] if rets else None, kind='load:fresh')
    # ... "load_pickle" counts as fresh because it deserialises: EVERY value it returns comes straight from pickle.load on this call -- not from a table of
    # pickles read earlier (an object handed out twice is shared by its two receivers: what a process continued from one does to it is in the other)
    lp = pic.vmethods.get('load_pickle')
    if lp is not None:
        from ..rules import conditional_values as _cv
        flp = chk.ctx.facts.analyse(lp)
        rets = [r for r in ast.walk(lp.node) if isinstance(r, ast.Return) and r.value is not None]
        bad = None
        for r in rets:
            v = r.value
            vals = [x for _, x in _cv(flp, v.id)] if isinstance(v, ast.Name) else [v]
            # (names bound by tuple unpacking / subscripts of a table are not plain assignments: conditional_values does not list them -- count the stores)
            stores_ = [x for x in ast.walk(lp.node) if isinstance(x, ast.Name) and isinstance(x.ctx, ast.Store) and isinstance(v, ast.Name) and x.id == v.id]
            if not vals or len(stores_) > len(vals) or not all(isinstance(x, ast.Call) and norm(x.func) in ('pickle.load', 'pickle.loads') for x in vals):
                bad = bad or r
        chk.ob(rule, lp, bool(rets) and bad is None, 'every value load_pickle returns is deserialised by this very call' + ('' if bad is None else
               f' -- {norm(bad)} can hand out an object that was read (and handed out) before'), node=bad, kind='load:deserialised-each-time')

    # the pickle persister: the FILE is the store.  Either every way through load_checkpoint reads it on this call, or -- if something read earlier is kept -- what is
    # kept under a key is dropped by every operation that changes the file of that key, under the SAME key expression (a cache dropped under (pid) while it is
    # looked up under (pid, tag) hands out the checkpoint that was overwritten: a second restore from 'latest' re-executes completed steps)
    from ..decisions import paths_under as _pu, value_on_path as _vop
    lf = prog.view(pic.vmethods['load_checkpoint'])
    flf = chk.ctx.facts.analyse(lf)
    cached = []
    n_paths = 0
    try:
        for path in _pu(flf, {}):
            if path[-1] is not flf.cfg.exit:
                continue
            ri = [i for i, m in enumerate(path) if m.kind == 'return' and m.ast.value is not None]
            if not ri:
                continue
            n_paths += 1
            v = _vop(path, ri[-1], path[ri[-1]].ast.value, depth=6)
            if not any(isinstance(c, ast.Call) and last_name(c) in ('load_pickle', 'load', 'loads') for c in ast.walk(v)):
                subs = [x for x in ast.walk(v) if isinstance(x, ast.Subscript) and norm(x.value).startswith('self.')] + [
                    x for x in ast.walk(v) if isinstance(x, ast.Call) and isinstance(x.func, ast.Attribute) and x.func.attr == 'get' and norm(x.func.value).startswith('self.')]
                cached.append(subs[0] if subs else v)
    except RuntimeError:
        cached.append(None)
    ok = n_paths > 0
    why = 'every way through PicklePersister.load_checkpoint reads the file on this call'
    if cached and ok:
        c0 = cached[0]
        table = norm(c0.value if isinstance(c0, ast.Subscript) else c0.func.value) if isinstance(c0, (ast.Subscript, ast.Call)) else None
        key = (c0.slice if isinstance(c0, ast.Subscript) else (c0.args[0] if c0.args else None)) if isinstance(c0, (ast.Subscript, ast.Call)) else None
        ok = table is not None and key is not None
        why = f'load_checkpoint can hand out what is kept in {table} under {norm(key) if key is not None else "?"}'
        for mname in ('save_checkpoint', 'delete_checkpoint'):
            mf = prog.view(pic.vmethods[mname])
            from ..rules import Resolver as _Rs
            rs = _Rs(mf)
            drops = [rs.expand(c.args[0]) for c in calls_in_func(mf, 'pop') if norm(c.func.value) == table and c.args] + [
                rs.expand(t.slice) for d in ast.walk(mf.node) if isinstance(d, ast.Delete) for t in d.targets if isinstance(t, ast.Subscript) and norm(t.value) == table] + [
                rs.expand(t.slice) for a_ in ast.walk(mf.node) if isinstance(a_, ast.Assign) for t in a_.targets if isinstance(t, ast.Subscript) and norm(t.value) == table]
            want = norm(_Rs(lf).expand(key)) if key is not None else ''
            # the same key expression, the process's pid standing for the pid parameter
            same = [d for d in drops if norm(d).replace(f'{mf.params[1]}.pid', lf.params[1]) == want or norm(d) == want]
            if not same:
                ok = False
                why += f'; {mname} does not drop (or replace) that entry under the same key (it uses {[norm(d) for d in drops] or "nothing"})'
    chk.ob(rule, lf, ok, why + ('' if cached else ' (nothing read earlier is kept)'), node=cached[0] if cached and isinstance(cached[0], ast.AST) else None, kind='load:file-is-the-store')



def run(chk: Check) -> None:
    prog = chk.prog
    mem = prog.cls('persistence.InMemoryPersister')
    pic = prog.cls('persistence.PicklePersister')
    base = prog.cls('persistence.Persister')

    snapshot_isolation(chk)

    # 2. one key function
    fp = prog.view(pic.vmethods.get('_pickle_filepath'))
    chk.need(fp is not None, 'PicklePersister._pickle_filepath not found')
    for name in ('save_checkpoint', 'load_checkpoint', 'delete_checkpoint'):
        f = prog.view(pic.vmethods[name])
        cs = [c for c in calls_in_func(f, '_pickle_filepath')]
        if name == 'save_checkpoint':
            want = [f'{f.params[1]}.pid', f.params[2]]
        else:
            want = [f.params[1], f.params[2]]
        ok = len(cs) == 1 and [norm(a) for a in cs[0].args] == want
        chk.ob('SIB-key-function', f, ok, f'{name} takes its path from _pickle_filepath(pid, tag) (got {[norm(a) for a in cs[0].args] if cs else None})', node=cs[0] if cs else None, kind='uses-key-function')
        opens = [c for c in calls_in_func(f) if last_name(c) in ('open', 'remove', 'load_pickle', 'unlink')]
        chk.ob('SIB-key-function', f, bool(opens), f'{name} acts on that path', kind='acts-on-path')
    fn = prog.func('persistence.PicklePersister.pickle_filename')
    from ..decisions import paths_under, valuations, value_on_path
    ff = chk.ctx.facts.analyse(fn)
    TAGNONE = f'{fn.params[1]} is None'
    ok = True
    n_paths = 0
    for val in valuations([TAGNONE]):
        for path in paths_under(ff, val):
            rets = [i for i, m in enumerate(path) if m.kind == 'return']
            if not rets or path[-1] is not ff.cfg.exit:
                continue
            n_paths += 1
            v = value_on_path(path, rets[-1], path[rets[-1]].ast.value)
            names = {x.id for x in ast.walk(v) if isinstance(x, ast.Name)}
            if val[TAGNONE]:
                ok &= fn.params[0] in names
            else:
                ok &= {fn.params[0], fn.params[1]} <= names
    chk.ob('SIB-key-function', fn, ok and n_paths >= 2, 'the file name depends on the pid, and on the tag whenever one is given', kind='name-depends-on-both')
    # ... injectively: (pid, tag) -> name must not map two keys to one file.  A name that splices str(pid) and the tag together with a literal
    # separator, neither of them encoded or checked for that separator, does: (1, '2') and ('1.2', None) are both '1.2.pickle'
    # every way of building a string out of the two: f-string, str.format, %-formatting, concatenation -- a parameter that goes in as it is
    # (no conversion other than str(), no format spec) next to a literal separator
    raw = []
    for r in ast.walk(fn.node):
        parts = []
        if isinstance(r, ast.JoinedStr):
            parts = [v.value for v in r.values if isinstance(v, ast.FormattedValue) and v.format_spec is None and v.conversion in (-1, 115)]
        elif isinstance(r, ast.Call) and isinstance(r.func, ast.Attribute) and r.func.attr == 'format' and isinstance(r.func.value, ast.Constant) and isinstance(r.func.value.value, str):
            parts = list(r.args) + [k.value for k in r.keywords]
        elif isinstance(r, ast.BinOp) and isinstance(r.op, ast.Mod) and isinstance(r.left, ast.Constant) and isinstance(r.left.value, str):
            parts = list(r.right.elts) if isinstance(r.right, ast.Tuple) else [r.right]
        elif isinstance(r, ast.BinOp) and isinstance(r.op, ast.Add):
            parts = [r.left, r.right]
        elif isinstance(r, ast.Call) and isinstance(r.func, ast.Attribute) and r.func.attr == 'join' and r.args and isinstance(r.args[0], (ast.Tuple, ast.List)):
            parts = list(r.args[0].elts)
        for v in parts:
            if isinstance(v, ast.Call) and isinstance(v.func, ast.Name) and v.func.id == 'str' and len(v.args) == 1:
                v = v.args[0]
            if isinstance(v, ast.Name) and v.id in fn.params[:2]:
                raw.append((r, v.id))
    checked = any(isinstance(c, ast.Call) and last_name(c) in ('quote', 'quote_plus', 'hex', 'b64encode', 'urlsafe_b64encode', 'escape') for c in ast.walk(fn.node)) or \
        any(isinstance(x, ast.Raise) for x in ast.walk(fn.node))
    chk.ob('SIB-key-function', fn, not raw or checked, 'the file name is an injective function of (pid, tag)' + ('' if (not raw or checked) else
           f': {sorted({n_ for _, n_ in raw})} are spliced in as they are around a literal separator, so distinct keys collide -- (1, "2") and ("1.2", None) name the same file; saving one '
           'overwrites the other and continue(pid=1, tag="2") resumes a different process'), kind='name-injective', expr='name(pid, tag): both spliced in raw around a literal separator')
    c = [x for x in calls_in_func(fp, 'pickle_filename')]
    chk.ob('SIB-key-function', fp, len(c) == 1 and [norm(a) for a in c[0].args] == fp.params[1:3] and any('self._pickle_directory' in norm(a) for j in calls_in_func(fp, 'join') for a in j.args),
           'the path is <directory>/<name(pid, tag)>', kind='path-from-name')
    gp = prog.view(pic.vmethods['get_process_checkpoints'])
    from ..rules import built_sequence
    seq = built_sequence(gp)
    ok = seq is not None and len(seq.gens) == 1 and seq.filters() in ([f'<item>.pid == {gp.params[1]}'], [f'{gp.params[1]} == <item>.pid']) and \
        isinstance(seq.elt, ast.Name) and norm(seq.elt) == norm(seq.gens[0][0])
    chk.ob('SIB-key-function', gp, ok, 'the checkpoints of a process are those whose pid equals the given pid', kind='filter-by-pid')
    mg = prog.view(mem.vmethods['get_process_checkpoints'])
    ok = any(isinstance(n, ast.Subscript) and norm(n) == f'self._checkpoints[{mg.params[1]}]' for n in ast.walk(mg.node)) or any(
        # ``self._checkpoints.get(pid, {})``: the same entry, an absent one read as empty
        isinstance(n, ast.Call) and norm(n.func) == 'self._checkpoints.get' and n.args and norm(n.args[0]) == mg.params[1] for n in ast.walk(mg.node))
    chk.ob('SIB-key-function', mg, ok, 'in memory: the tags stored under that pid', kind='filter-by-pid')
    ml = prog.view(mem.vmethods['load_checkpoint'])
    ok = any(isinstance(n, ast.Subscript) and norm(n) == f'self._checkpoints[{ml.params[1]}][{ml.params[2]}]' for n in ast.walk(ml.node))
    chk.ob('SIB-key-function', ml, ok, 'in memory: load reads the entry [pid][tag]', kind='keyed-by-both')
    ms = prog.view(mem.vmethods['save_checkpoint'])
    stores = [n for n in ast.walk(ms.node) if isinstance(n, ast.Assign) and isinstance(n.targets[0], ast.Subscript)]
    ok = len(stores) == 1 and norm(stores[0].targets[0]) == f'self._checkpoints.setdefault({ms.params[1]}.pid, {{}})[{ms.params[2]}]'
    if not ok:
        # the same entry with the room made explicitly: ``if pid not in table: table[pid] = {}`` ; ``table[pid][tag] = ...`` (pid possibly a local for process.pid)
        from ..rules import Resolver as _R14
        r14 = _R14(ms)
        real = [n for n in stores if not ((isinstance(n.value, ast.Dict) and not n.value.keys) or (isinstance(n.value, ast.Call) and norm(n.value.func) == 'dict' and not n.value.args))]
        room = [n for n in stores if n not in real]
        def pid_of(e) -> bool:
            return r14.text(e) == f'{ms.params[1]}.pid'
        if len(real) == 1 and isinstance(real[0].targets[0].value, (ast.Subscript, ast.Call)) and norm(real[0].targets[0].slice) == ms.params[2]:
            inner = real[0].targets[0].value
            if isinstance(inner, ast.Subscript):
                ok = norm(inner.value) == 'self._checkpoints' and pid_of(inner.slice) and all(
                    norm(n.targets[0].value) == 'self._checkpoints' and pid_of(n.targets[0].slice) for n in room)
            else:
                ok = norm(inner.func) == 'self._checkpoints.setdefault' and len(inner.args) == 2 and pid_of(inner.args[0]) and not room
    chk.ob('SIB-key-function', ms, ok, 'in memory: save writes the entry [process.pid][tag]', kind='keyed-by-both')

    # 3. idempotent delete
    for cls in (mem, pic):
        df = prog.view(cls.vmethods['delete_checkpoint'])
        tries = [t for t in ast.walk(df.node) if isinstance(t, ast.Try)]
        ok = False
        for t in tries:
            acts = [s for s in t.body if any(isinstance(x, ast.Delete) or (isinstance(x, ast.Call) and last_name(x) in ('remove', 'unlink', 'pop')) for x in ast.walk(s))]
            hs = [h for h in t.handlers if h.type is not None and norm(h.type) in ('KeyError', 'OSError', 'FileNotFoundError', '(KeyError,)')]
            ok = bool(acts) and bool(hs) and all(not any(isinstance(x, ast.Raise) for s in h.body for x in ast.walk(s)) for h in hs)
        # the same thing spelled ``with contextlib.suppress(KeyError / OSError): <remove>``
        for w in [x for x in ast.walk(df.node) if isinstance(x, ast.With)]:
            sup = [i.context_expr for i in w.items if isinstance(i.context_expr, ast.Call) and last_name(i.context_expr) == 'suppress'
                   and any(norm(a) in ('KeyError', 'OSError', 'FileNotFoundError') for a in i.context_expr.args)]
            acts = [s for s in w.body if any(isinstance(x, ast.Delete) or (isinstance(x, ast.Call) and last_name(x) in ('remove', 'unlink', 'pop')) for x in ast.walk(s))]
            ok = ok or (bool(sup) and bool(acts))
        if not ok and cls is mem:
            # look before you leap: something is removed, and every keyed access that could raise KeyError (``x[k]``, ``del x[k]``, ``x.pop(k)`` without default)
            # happens where ``k in x`` is known to hold
            ffd = chk.ctx.facts.analyse(df)
            removes = [x for x in ast.walk(df.node) if isinstance(x, ast.Delete) or (isinstance(x, ast.Call) and last_name(x) == 'pop')]
            body_nodes = [x for st_ in df.node.body for x in ast.walk(st_) if not isinstance(st_, (ast.FunctionDef, ast.AsyncFunctionDef))]   # (annotations in the signature are subscripts too)
            risky = [x for x in body_nodes if isinstance(x, ast.Subscript)] + [x for x in body_nodes if isinstance(x, ast.Call) and last_name(x) == 'pop' and len(x.args) < 2 and isinstance(x.func, ast.Attribute)]
            def guarded(x) -> bool:
                cont, key_ = (x.value, x.slice) if isinstance(x, ast.Subscript) else (x.func.value, x.args[0] if x.args else None)
                if key_ is None:
                    return False
                wants = {('T', f'{ffd.canon.key(key_)} in {ffd.canon.key(cont)}'), ('T', f'{norm(key_)} in {norm(cont)}'), ('T', f'{ffd.canon.key(key_)} in {norm(cont)}')}
                nodes_ = [n_ for n_ in ffd.cfg.nodes if n_.expr() is not None and any(y is x for y in ast.walk(n_.expr()))] + [
                    n_ for n_ in ffd.cfg.nodes if n_.kind == 'stmt' and isinstance(n_.ast, ast.Delete) and any(y is x for y in ast.walk(n_.ast))]
                return bool(nodes_) and all(wants & set(ffd.at(n_)) for n_ in nodes_)
            ok = bool(removes) and bool(risky) and all(guarded(x) for x in risky)
        chk.ob('PAIR-idempotent-delete', df, ok, f'{cls.name}.delete_checkpoint tolerates a checkpoint that does not exist', kind='missing-tolerated')
    # listing: the file-name PATTERN handed to fnmatch / glob is made of constants.  A key (pid, tag) spliced into a pattern is interpreted -- '[', '*', '?' in a
    # process id select other files and miss its own -- unless it went through glob.escape / re.escape first
    n_pat = 0
    for f_ in pic.emethods.values():
        for c_ in calls_in_func(f_):
            if not (norm(c_.func) in ('fnmatch.filter', 'fnmatch.fnmatch', 'fnmatch.fnmatchcase', 'glob.glob', 'glob.iglob') and c_.args):
                continue
            n_pat += 1
            pat = c_.args[-1] if norm(c_.func).startswith('fnmatch') else c_.args[0]
            srcs = [(f_, pat)]
            seen_ = set()
            tainted = None
            for _ in range(5):
                nxt = []
                for h_, e_ in srcs:
                    for x_ in ast.walk(e_):
                        if isinstance(x_, ast.Call) and last_name(x_) in ('pickle_filename', '_pickle_filepath'):
                            tainted = tainted or x_
                        if isinstance(x_, ast.Name) and (h_.qualname, x_.id) not in seen_:
                            seen_.add((h_.qualname, x_.id))
                            if x_.id in ('pid', 'tag') and x_.id in h_.params:
                                tainted = tainted or x_
                            # a local: what it was assigned / what it iterates over;  a parameter: what the callers pass
                            for n_ in ast.walk(h_.node):
                                if isinstance(n_, ast.Assign) and any(norm(t_) == x_.id for t_ in n_.targets):
                                    nxt.append((h_, n_.value))
                                elif isinstance(n_, ast.For) and norm(n_.target) == x_.id:
                                    nxt.append((h_, n_.iter))
                            if x_.id in h_.params or (h_.node.args.vararg is not None and h_.node.args.vararg.arg == x_.id):
                                for g_ in pic.emethods.values():
                                    for n_ in ast.walk(g_.node):
                                        if isinstance(n_, ast.Call) and last_name(n_) == h_.name:
                                            nxt.extend((g_, a_) for a_ in list(n_.args) + [k_.value for k_ in n_.keywords])
                # (an escaped key is data again)
                srcs = [(h_, e_) for h_, e_ in nxt if not (isinstance(e_, ast.Call) and last_name(e_) == 'escape')]
                if not srcs:
                    break
            chk.ob('SIB-key-function', f_, tainted is None, 'the pattern the directory is scanned with is built from constants only' + ('' if tainted is None else
                   f': {norm(tainted)} reaches it unescaped -- a process id containing pattern characters ("sweep[1]") lists, and deletes, the wrong checkpoints'), node=c_, kind='scan-pattern-constant')
    chk.floor('SIB-key-function:scan-patterns', n_pat, 1)
    md = prog.view(mem.vmethods['delete_process_checkpoints'])
    dels = [n for n in ast.walk(md.node) if isinstance(n, ast.Delete)]
    ok = len(dels) == 1 and norm(dels[0].targets[0]) == f'self._checkpoints[{md.params[1]}]'
    # ``self._checkpoints.pop(pid, None)`` is the same removal, tolerant of a missing entry
    pops = [c for c in calls_in_func(md, 'pop') if norm(c.func) == 'self._checkpoints.pop']
    ok = ok or (not dels and len(pops) == 1 and len(pops[0].args) == 2 and norm(pops[0].args[0]) == md.params[1])
    ff2 = chk.ctx.facts.analyse(md)
    chk.ob('PAIR-idempotent-delete', md, ok, 'in memory: deleting a process\'s checkpoints removes exactly that pid\'s entry', kind='only-that-pid')
    pd = prog.view(pic.vmethods['delete_process_checkpoints'])
    loop = [l for l in ast.walk(pd.node) if isinstance(l, ast.For)]
    ok = len(loop) == 1 and norm(loop[0].iter) == f'self.get_process_checkpoints({pd.params[1]})' and any(
        isinstance(c, ast.Call) and norm(c.func) == 'self.delete_checkpoint' and [norm(a) for a in c.args] == ['checkpoint.pid', 'checkpoint.tag'] for c in ast.walk(loop[0]))
    chk.ob('PAIR-idempotent-delete', pd, ok, 'pickle: deleting a process\'s checkpoints deletes each of its (pid, tag) files', kind='only-that-pid')

    # 4. (informational) abstract interface implemented
    abstract = [n for n, f in base.emethods.items() if f.has_decorator('abstractmethod')]
    for cls in (mem, pic):
        missing = [a for a in abstract if a not in cls.methods]
        chk.ob('SIB-interface', cls.qualname, not missing, f'{cls.name} implements every abstract method of Persister (missing: {missing})', kind='implements-all')
        for a in abstract:
            if a in cls.methods and prog.view(cls.vmethods[a]).params != prog.view(base.vmethods[a]).params:
                chk.info('SIB-interface', f'{cls.name}.{a} parameters {prog.view(cls.vmethods[a]).params} differ from the abstract {prog.view(base.vmethods[a]).params}')
    chk.assumptions.append('equivalence of the two persisters over histories (exception types for a missing checkpoint differ: KeyError vs FileNotFoundError), listing order and ids '
                           'containing the separator are not decided')
