"""C07 -- save, load, save again yields the same bundle and the same observable process (SYM)."""
from __future__ import annotations

import ast
from typing import Dict, List, Set, Tuple

from ..cfg import cfg_of, no_exc
from ..model import AnalysisError, ClassInfo, FuncInfo, UNKNOWN, body_walk, is_self_attr, norm, unparse, walk_shallow
from ..report import Check
from ..rules import calls_in_func, last_name
from .sym import (auto_persist_decl, auto_persist_set, calls_super_on_all_paths, context_kwargs, context_reads, init_fields,
                  loaded_bindings, loaded_keys_of, saved_bindings, saved_keys_of)

# Reference table: fields confirmed persisted on the pinned tree (class, attribute, how).  A row that stops being
# persisted is a violation; a field that appears later and is in no row is reported as UNCLASSIFIED (informational).
PERSISTED = [
    ('processes.Process', '_pid', 'auto'), ('processes.Process', '_creation_time', 'auto'), ('processes.Process', '_future', 'auto'),
    ('processes.Process', '_paused', 'auto'), ('processes.Process', '_status', 'auto'), ('processes.Process', '_pre_paused_status', 'auto'),
    ('processes.Process', '_event_helper', 'auto'), ('processes.Process', '_state', 'key'), ('processes.Process', '_raw_inputs', 'key'),
    ('processes.Process', '_parsed_inputs', 'key'), ('processes.Process', '_outputs', 'key'),
    ('workchains.WorkChain', '_stepper', 'key'), ('mixins.ContextMixin', '_context', 'key'),
    ('process_states.State', 'in_state', 'auto'),
    ('process_states.Created', 'args', 'auto'), ('process_states.Created', 'kwargs', 'auto'), ('process_states.Created', 'run_fn', 'key'),
    ('process_states.Running', 'args', 'auto'), ('process_states.Running', 'kwargs', 'auto'), ('process_states.Running', 'run_fn', 'key'),
    ('process_states.Waiting', 'msg', 'auto'), ('process_states.Waiting', 'data', 'auto'), ('process_states.Waiting', 'done_callback', 'key'),
    ('process_states.Excepted', 'exception', 'key'), ('process_states.Excepted', 'traceback', 'key'),
    ('process_states.Finished', 'result', 'auto'), ('process_states.Finished', 'successful', 'auto'),
    ('process_states.Killed', 'msg', 'auto'), ('workchains.Waiting', '_awaiting', 'auto'),
    ('event_helper.EventHelper', '_listeners', 'auto'), ('event_helper.EventHelper', '_listener_type', 'auto'),
    ('process_listener.ProcessListener', '_params', 'auto'),
    ('persistence.SavableFuture', '_state', 'auto'), ('persistence.SavableFuture', '_result', 'auto'),
]
RUNTIME = {
    ('processes.Process', '_loop'): 'taken from the load context', ('processes.Process', '_logger'): 'taken from the load context',
    ('processes.Process', '_communicator'): 'taken from the load context', ('processes.Process', '_uuid'): 'not among the property\'s observables',
    ('process_states.Waiting', '_waiting_future'): 'recreated pending on load', ('process_states.Running', '_run_handle'): 'runtime handle',
    ('workchains.WorkChain', '_awaitables'): 'reset at the start of every _do_step',
    ('base.state_machine.State', 'state_machine'): 're-bound from the load context',
    ('base.state_machine.State', 'in_state'): 'persisted by process_states.State',
}


def savable_classes(prog) -> List[ClassInfo]:
    sv = prog.cls('persistence.Savable')
    return [c for c in prog.all_classes() if c is not sv and c.is_subclass_of(sv)]


def members_deepcopied(chk: Check, rule: str = 'PROV-copy-at-save') -> None:
    """Auto-persisted members that are neither methods nor Savables are deep-copied into the saved state -- every one, whatever
    its type (a tuple of mutable arguments is as shared as a list).  Shared with C13 (the next step's arguments)."""
    from ..decisions import leaf, paths_under, value_on_path
    prog = chk.prog
    sm = prog.func('persistence.Savable.save_members')
    ffs = chk.ctx.facts.analyse(sm)
    stores = [n for n in ffs.cfg.nodes if n.kind == 'stmt' and isinstance(n.ast, ast.Assign) and isinstance(n.ast.targets[0], ast.Subscript)
              and len(sm.params) > 2 and norm(n.ast.targets[0].value) == sm.params[2]]
    ism = [c for c in calls_in_func(sm) if norm(c.func) in ('inspect.ismethod', 'ismethod')]
    isv = [c for c in calls_in_func(sm) if norm(c.func) == 'isinstance' and len(c.args) == 2 and norm(c.args[1]).split('.')[-1] == 'Savable']
    ok = False
    if len(ism) == 1 and len(isv) == 1 and stores and ism[0].args:
        # decision table: with "is a bound method" and "is a Savable" both false, EVERY way to the store (whatever else is tested on the way) stores a deep copy of the member
        M, S = leaf(ffs, ism[0])[0], leaf(ffs, isv[0])[0]
        subj = norm(ism[0].args[0])
        seen = 0
        ok = True
        for path in paths_under(ffs, {M: False, S: False}, frozen=[subj]):
            idx = [i for i, m in enumerate(path) if m in stores]
            if not idx:
                continue
            seen += 1
            i = idx[0]
            first = subj
            for j in range(i):
                a_ = path[j].ast
                if path[j].kind == 'stmt' and isinstance(a_, ast.Assign) and norm(a_.targets[0]) == subj:
                    first = norm(value_on_path(path, j, a_.value))
                    break
            ok = ok and norm(value_on_path(path, i, path[i].ast.value)) == f'copy.deepcopy({first})'
        ok = ok and seen > 0
    chk.ob(rule, sm, ok, 'save_members deep-copies every member that is neither a method nor a Savable', kind='members-deepcopied')


def persisted_members_can_be_copied(chk: Check, rule: str = 'PROV-copy-at-save') -> None:
    """A member that is neither a bound method nor a Savable is saved by ``copy.deepcopy``.  That works for data; a CONTAINER OF FUTURES (or of processes) is
    neither: ``save_members`` sees a dict, deep-copies it, and the futures inside cannot be copied (``TypeError: cannot pickle ...``).  Decided from the declared
    type of the member: an auto-persisted attribute annotated as a container whose element / key type is a future or a process makes every save fail while it is
    non-empty -- the state that holds it cannot be checkpointed."""
    prog = chk.prog
    n = 0
    for c in savable_classes(prog):
        own = set()
        for d in c.decorators:
            if isinstance(d, ast.Call) and last_name(d) == 'auto_persist':
                own |= {a.value for a in d.args if isinstance(a, ast.Constant) and isinstance(a.value, str)}
        if not own:
            continue
        init = c.vmethods.get('__init__')
        if init is None:
            continue
        for x in ast.walk(init.node):
            if isinstance(x, ast.AnnAssign) and isinstance(x.target, ast.Attribute) and norm(x.target.value) == 'self' and x.target.attr in own:
                n += 1
                ann = norm(x.annotation)
                inner = ann[ann.index('[') + 1:] if '[' in ann else ''
                import re as _re
                bad = bool(inner) and any(t in ('Future', 'SavableFuture', 'Process', 'Awaitable', 'Task', 'CancellableAction') for t in _re.findall(r'[A-Za-z_]\w*', inner))
                chk.ob(rule, c.qualname, not bad, f'{c.name}.{x.target.attr} is auto-persisted and declared {ann}' + ('' if not bad else
                       ': save_members deep-copies it, and the futures / processes it holds cannot be copied -- saving this object raises TypeError whenever the container is '
                       'not empty (a work chain that waits for its children cannot be checkpointed at all)'), node=x, kind='persisted-container-of-futures', expr=x.target.attr)
    chk.ob(rule, 'persistence.Savable', True, f'{n} annotated auto-persisted member(s) examined', kind='persisted-member-types')


def stored_exceptions_roundtrip(chk: Check, rule: str = 'SYM-exception-roundtrip') -> None:
    """The EXCEPTED state saves its exception object (yaml) and re-creates it on load; copy, pickle and yaml all rebuild an exception as ``cls(*exc.args)`` unless
    the class says otherwise (``__reduce__``).  An exception class of plumpy whose ``__init__`` REQUIRES more positional arguments than it hands to
    ``super().__init__`` cannot be rebuilt: a process that ended EXCEPTED with it can be saved but never loaded.  Only classes that can become a process's exception
    count: those plumpy raises on a path that is first caught where the failure is turned into the EXCEPTED state (or escapes to the caller)."""
    from ..esc import Esc
    prog = chk.prog
    esc = Esc(chk.ctx)
    n = 0
    for c in prog.all_classes():
        if not any(isinstance(b, str) and b.split('.')[-1] in ('Exception', 'BaseException') for b in c.mro()):
            continue
        init = c.methods.get('__init__')
        if init is None or any(m in c.methods for m in ('__reduce__', '__reduce_ex__', '__getnewargs__', '__getnewargs_ex__')):
            continue
        a = init.node.args
        required = len(a.args) - 1 - len(a.defaults)
        sup = [x for x in ast.walk(init.node) if isinstance(x, ast.Call) and isinstance(x.func, ast.Attribute) and x.func.attr == '__init__'
               and isinstance(x.func.value, ast.Call) and norm(x.func.value.func) == 'super']
        passed = len(sup[0].args) if sup and not any(isinstance(z, ast.Starred) for z in sup[0].args) else (None if sup else 0)
        reassigned = any(isinstance(x, ast.Assign) and any(norm(t) == 'self.args' for t in x.targets) for x in ast.walk(init.node))
        if passed is None and not reassigned:
            continue   # forwards *args: rebuilt with what it was given
        mismatch = reassigned or (passed is not None and required > passed)
        if not mismatch:
            continue
        # where is it raised, and what becomes of it?
        becomes = []
        for f in prog.all_funcs():
            for r in body_walk(f):
                if isinstance(r, ast.Raise) and isinstance(r.exc, ast.Call) and prog.resolve_class(f.module, r.exc.func) is c:
                    for o in esc.trace_class(f, r, c):
                        if o.kind == 'contained' and o.container is not None and o.container.sink == 'excepted-state':
                            becomes.append(f'{f.short} -> EXCEPTED ({o.container.func.short})')
                        elif o.kind != 'contained' and o.root == 'public-entry':
                            root_f = o.path[-1][0]
                            if root_f.name.startswith('on_') or root_f.has_decorator('protected') or root_f.name in ('enter', 'exit', 'do_enter', 'do_exit', 'execute'):
                                continue   # hooks are called by the state machinery (inside its own handlers), not by users
                            becomes.append(f'{f.short} -> caller of {root_f.short}')
                        elif o.kind != 'contained' and o.root in ('orphan', ''):
                            # raised inside the wrapper a decorator puts around methods: whoever calls a decorated PUBLIC method gets it
                            top = o.path[-1][0]
                            while top.parent is not None:
                                top = top.parent
                            deco = [g for g in prog.all_funcs() if g.cls is not None and not g.name.startswith('_') and top.name in [d.split('.')[-1] for d in g.decorator_names()]]
                            if top.cls is None and deco:
                                becomes.append(f'{f.short} -> caller of {deco[0].short} (decorated with @{top.name})')
        n += 1
        if becomes:
            chk.ob(rule, c.qualname, False, f'{c.name}.__init__ requires {required} argument(s) but passes {passed if passed is not None else "re-bound args"} to Exception.__init__: it cannot be rebuilt from '
                   f'its args (copy / pickle / yaml raise TypeError), and it can become the exception of a process ({sorted(set(becomes))[:2]}): such a process is saved but can never be loaded',
                   node=init.node, kind='exception-rebuilt-from-args', expr=c.name)
    chk.ob(rule, 'plumpy exceptions', True, f'{n} exception class(es) whose constructor does not match their args examined for reachability of the EXCEPTED state', kind='exception-classes-scan')


def persisted_fields(chk: Check, rule: str = 'SYM-persisted-field', only=None) -> None:
    """Reference table of what a checkpoint must carry: each field is auto-persisted or bound to one key on both the save and the
    load side.  Shared with C08 (a field re-derived or dropped on load is a restored process that differs from the original)."""
    prog = chk.prog
    ctx = chk.ctx
    # (i) reference table
    for cq, attr, how in PERSISTED:
        if only is not None and (cq, attr) not in only:
            continue
        c = prog.cls(cq)
        auto = auto_persist_set(prog, c)
        if how == 'auto':
            chk.ob(rule, cq, attr in auto, f'{c.name}.{attr} is an auto-persisted member (auto_persist along the MRO: {sorted(auto)})',
                   kind=f'auto:{attr}', expr=attr)
        else:
            sb: Dict[object, Set[str]] = {}
            lb: Dict[object, Set[str]] = {}
            for k in c.mro_classes():
                if 'save_instance_state' in k.methods:
                    for key, attrs in saved_bindings(ctx, prog.view(k.vmethods['save_instance_state'])).items():
                        sb.setdefault(key, set()).update(attrs)
                if 'load_instance_state' in k.methods:
                    for key, attrs in loaded_bindings(ctx, prog.view(k.vmethods['load_instance_state'])).items():
                        lb.setdefault(key, set()).update(attrs)
            keys = [key for key, attrs in sb.items() if attr in attrs and attr in lb.get(key, set())]
            chk.ob(rule, cq, bool(keys) or attr in auto,
                   f'{c.name}.{attr} is stored under a key on save and restored from the same key on load (keys binding it on both sides: '
                   f'{[str(k) for k in keys] or "none"}; saved: { {str(k): sorted(v) for k, v in sb.items()} }; loaded: { {str(k): sorted(v) for k, v in lb.items()} })',
                   kind=f'key:{attr}', expr=attr)


def saved_mappings_restored_whole(chk: Check, rule: str = 'SYM-mapping-restored') -> None:
    """A mapping with USER-CHOSEN keys (the work chain context) is restored by ``Cls(**saved[...])``.  Every entry comes back only if the constructor takes nothing
    but ``**kwargs``: a named parameter -- ``mapping=None`` added for convenience -- captures the entry stored under that name (it vanishes from the restored
    mapping, or is spilled into it).  For every call below a load_instance_state that spreads something read from the saved state with ``**``: the callee has no
    named parameter that such a key could bind to."""
    prog = chk.prog
    n = 0
    seen_ = set()
    for c in savable_classes(prog) + [k for k in prog.all_classes() if k.name.endswith('Mixin')]:
        if c.qualname in seen_:
            continue
        seen_.add(c.qualname)
        lf = c.vmethods.get('load_instance_state')
        if lf is None or len(lf.params) < 2:
            continue
        sp = lf.params[1]
        for call in calls_in_func(lf):
            spread = [k.value for k in call.keywords if k.arg is None and sp in {x.id for x in ast.walk(k.value) if isinstance(x, ast.Name)}]
            if not spread:
                continue
            t = chk.ctx.calls.resolve_call(lf, call)
            callee = t.funcs[0] if len(t.funcs) == 1 else None
            if callee is None and t.ctor is not None:
                callee = t.ctor.lookup('__init__')
            n += 1
            if callee is None:
                chk.ob(rule, lf, True, f'{norm(call.func)}(**<saved>) -- constructor inherited from outside the program (takes what it is given)', node=call, kind='spread-into-external')
                continue
            a_ = callee.node.args
            named = [x.arg for x in a_.args][(1 if callee.cls is not None else 0) + len(call.args):] + [x.arg for x in a_.kwonlyargs]
            chk.ob(rule, lf, not named and a_.kwarg is not None, f'{norm(call.func)}(**<saved mapping>): the callee {callee.short} takes every entry as it is' + ('' if not named else
                   f' -- it does not: its named parameter(s) {named} capture the entry saved under that key, which is then missing from (or spilled into) the restored mapping'),
                   node=call, kind='spread-keeps-every-key')
    chk.ob(rule, 'persistence.Savable', True, f'{n} call(s) that spread saved data with ** examined', kind='spread-scan')


def load_is_deterministic(chk: Check, rule: str = 'LOAD-deterministic') -> None:
    """What a load rebuilds depends on the saved state and the load context only: no user callable (an outline predicate,
    a step function, a callable port default, a user hook stored in an attribute) runs anywhere below a
    ``load_instance_state`` / ``recreate_from`` / ``recreate_stepper`` -- it would make the loaded object depend on the
    moment of loading, and saving it again would not give the bundle back.  The framework's own recursion
    (call_with_super_check into load_instance_state, Process.init re-subscribing to the communicator) is what remains.
    Shared with C08."""
    prog, calls = chk.prog, chk.ctx.calls
    USER_KINDS = ('attr-callable', 'param-callable', 'getattr-callable')
    roots = []
    for c in prog.all_classes():
        for name in ('load_instance_state', 'recreate_from', 'recreate_stepper'):
            f = c.vmethods.get(name)
            if f is not None:
                roots.append(f)
    chk.floor(rule, len(roots), 15)
    n_sites = 0
    for f in roots:
        seen: Dict[int, tuple] = {}
        todo = [(f, (f.short,))]
        while todo:
            g, chain = todo.pop()
            if id(g.node) in seen or len(chain) > 8:
                continue
            seen[id(g.node)] = chain
            sm = calls.summary(g)
            for call, t in sm.usites:
                n_sites += 1
                if t.ukind in USER_KINDS:
                    chk.ob(rule, f, False, f'user code runs while loading: {norm(call)[:80]} ({t.ukind}) reached via {" -> ".join(chain)}: what is restored then depends on '
                           'more than the saved state', node=call if g is f else None, kind=f'user-code-on-load:{g.short}', expr=norm(call)[:120])
            for h in sm.callees:
                todo.append((h, chain + (h.short,)))
        chk.ob(rule, f, True, f'{f.short}: nothing below it calls a user-supplied callable ({len(seen)} functions reached)', kind='no-user-code')
    chk.units['uncontrolled_sites_below_load'] = n_sites


def restored_fields_not_clobbered(chk: Check, rule: str = 'SYM-default-before-restore') -> None:
    """Process.recreate_from runs ``init()`` AFTER load_instance_state: anything init() assigns overwrites what was restored, so it
    may only set up runtime fields -- never a persisted one (the pause flag of a process that terminated while paused, say)."""
    prog = chk.prog
    proc = prog.cls('processes.Process')
    init = prog.view(proc.vmethods['init'])
    persisted = set(auto_persist_set(prog, proc)) | {a for cq, a, _ in PERSISTED if cq == 'processes.Process'}
    n = 0
    for x in ast.walk(init.node):
        if isinstance(x, ast.Attribute) and isinstance(x.ctx, (ast.Store, ast.Del)) and isinstance(x.value, ast.Name) and x.value.id == 'self':
            n += 1
            if x.attr in persisted:
                chk.ob(rule, init, False, f'init() runs after the saved state was loaded and assigns the persisted field {x.attr}: what the checkpoint said is overwritten '
                       '(the loaded process differs from the saved one, and saving it again gives another bundle)', node=x, kind=f'init-clobbers:{x.attr}')
    chk.ob(rule, init, True, f'init() assigns {n} attribute(s), none of them persisted ({sorted(persisted)})', kind='init-runtime-only')
    # the same for every load_instance_state of a savable class: once the members are restored (super().load_instance_state / load_members), assigning an
    # AUTO-PERSISTED member from anything but the saved state overwrites what the checkpoint said (``self.in_state = True`` "because a state is only loaded as the
    # current one": a save taken from an entering hook has the old state already exited)
    savable = prog.cls('persistence.Savable')
    m = 0
    for k in prog.subclasses(savable):
        lf = k.methods.get('load_instance_state')
        if lf is None:
            continue
        lf = prog.view(lf)
        auto = set(auto_persist_set(prog, k))
        if not auto:
            continue
        restore = [c for c in calls_in_func(lf) if (last_name(c) == 'load_instance_state' and isinstance(c.func, ast.Attribute) and isinstance(c.func.value, ast.Call)
                                                    and norm(c.func.value.func) == 'super') or last_name(c) == 'load_members']
        if not restore:
            continue
        after = min(c.lineno for c in restore)
        state_p = lf.params[1] if len(lf.params) > 1 else 'saved_state'
        for x in ast.walk(lf.node):
            if isinstance(x, ast.Assign) and x.lineno > after:
                for t in x.targets:
                    if is_self_attr(t) and t.attr in auto:
                        m += 1
                        from_state = any(isinstance(y, ast.Name) and y.id == state_p for y in ast.walk(x.value))
                        chk.ob(rule, lf, from_state, f'{k.name}.load_instance_state assigns the auto-persisted member {t.attr} after the members were restored, and not from the saved '
                               'state: what the checkpoint said is overwritten (loading and saving again gives another bundle)', node=x, kind=f'load-clobbers:{k.name}.{t.attr}')
    chk.units['auto_persisted_members_reassigned_on_load'] = m


def inputs_encoded_by_deepcopy(chk: Check, rule: str) -> None:
    """encode_input_args / decode_input_args hand back ``copy.deepcopy(<argument>)`` and nothing else: the mapping that goes into (comes out of) a checkpoint is the
    same KIND of object as the live one -- frozen at every namespace level -- and shares nothing with it."""
    prog = chk.prog
    for q in ('processes.Process.encode_input_args', 'processes.Process.decode_input_args'):
        f = prog.func(q)
        rets = [n for n in ast.walk(f.node) if isinstance(n, ast.Return)]
        ok = len(rets) == 1 and isinstance(rets[0].value, ast.Call) and norm(rets[0].value.func) == 'copy.deepcopy' and [norm(a) for a in rets[0].value.args] == [f.params[1]]
        chk.ob(rule, f, ok, f'{f.name} returns a deep copy of its argument', kind='deepcopy')


def io_mappings_encoded(chk: Check, rule: str) -> None:
    """The raw inputs, the parsed inputs and the OUTPUTS go into a checkpoint through encode_input_args (a deep copy) and come out through decode_input_args (a deep
    copy again): neither the bundle nor any process rebuilt from it shares a nested mapping with the live process or with another rebuilt one."""
    prog = chk.prog
    ps = prog.func('processes.Process.save_instance_state')
    pl = prog.func('processes.Process.load_instance_state')
    for k, v in saved_keys_of(prog, ps).items():
        if k in ('INPUTS_RAW', 'INPUTS_PARSED', 'OUTPUTS'):
            ok = isinstance(v, ast.Call) and norm(v.func) == 'self.encode_input_args'
            chk.ob(rule, ps, ok, f'{k} is stored through encode_input_args (no reference to the live mapping)', node=v, kind=f'encoded:{k}')
    inputs_encoded_by_deepcopy(chk, rule)
    for k in ('INPUTS_RAW', 'INPUTS_PARSED', 'OUTPUTS'):
        uses = loaded_keys_of(prog, pl).get(k, [])
        ok = bool(uses) and all(any(isinstance(c, ast.Call) and norm(c.func) == 'self.decode_input_args' and any(u is x for x in ast.walk(c)) for c in ast.walk(pl.node)) for u in uses)
        chk.ob(rule, pl, ok, f'{k} is restored through decode_input_args', kind=f'decoded:{k}')


def falsy_values_survive(chk: Check, rule: str) -> None:
    """A field may be left out of the bundle only in the case the loader fills in again: what load_instance_state assigns when the key is absent must be what the
    field held whenever save skipped it.  ``if self.inputs:`` skips an EMPTY mapping, the loader restores "absent" as None -- a process started without inputs comes
    back with ``inputs is None`` (a later ``'x' in self.inputs`` raises).  Skipping on ``is not None`` with a None default, or on truthiness with an empty-container
    default, are the two consistent pairs."""
    prog = chk.prog
    ps = prog.view(prog.func('processes.Process.save_instance_state'))
    pl = prog.view(prog.func('processes.Process.load_instance_state'))
    fs = chk.ctx.facts.analyse(ps)
    # load side: key -> (attribute, value assigned when the key is absent)
    absent = {}
    for t in [x for x in ast.walk(pl.node) if isinstance(x, ast.Try)]:
        hs = [h for h in t.handlers if h.type is not None and 'KeyError' in norm(h.type)]
        if not hs:
            continue
        keys = [prog.fold(pl.module, x.slice) for b in t.body for x in ast.walk(b) if isinstance(x, ast.Subscript) and norm(x.value) == pl.params[1]]
        tg = [norm(a.targets[0]) for b in t.body for a in ast.walk(b) if isinstance(a, ast.Assign) and is_self_attr(a.targets[0])]
        df = [(norm(a.targets[0]), a.value) for h in hs for b in h.body for a in ast.walk(b) if isinstance(a, ast.Assign) and is_self_attr(a.targets[0])]
        if not df:
            # the defaults set ahead of the try (``self._outputs = {}`` ; ``try: self._outputs = decode(saved_state[OUTPUTS])`` ; ``except KeyError: pass``)
            before = [a for a in ast.walk(pl.node) if isinstance(a, ast.Assign) and is_self_attr(a.targets[0]) and a.lineno < t.lineno and norm(a.targets[0]) in tg]
            last = {}
            for a in sorted(before, key=lambda x: x.lineno):
                last[norm(a.targets[0])] = a.value
            df = list(last.items())
        # one try, one key: with several optional keys read under ONE handler a missing earlier key leaves the later ones unread (a process started without inputs
        # would lose its outputs on restore)
        pairs = []
        for b in t.body:
            for a in ast.walk(b):
                if isinstance(a, ast.Assign) and is_self_attr(a.targets[0]):
                    ks = [prog.fold(pl.module, x.slice) for x in ast.walk(a.value) if isinstance(x, ast.Subscript) and norm(x.value) == pl.params[1]]
                    pairs += [(k_, norm(a.targets[0])) for k_ in ks]
        if len(keys) > 1:
            chk.ob(rule, pl, False, f'each optional key is restored under its own KeyError handler: {sorted(str(k) for k in keys)} share one, a missing one leaves those read after it '
                   'unrestored', node=t, kind='keys-restored-independently')
        for k in keys:
            for a_, d_ in df:
                if a_ in tg and isinstance(k, str) and ((k, a_) in pairs or len(keys) == 1):
                    absent[k] = (a_, d_)
    chk.ob(rule, pl, True, 'optional keys of the saved state are restored one per handler', kind='keys-restored-independently:checked')
    n = 0
    for m in fs.cfg.nodes:
        a_ = m.ast
        if not (m.kind == 'stmt' and isinstance(a_, ast.Assign) and isinstance(a_.targets[0], ast.Subscript) and norm(a_.targets[0].value) == ps.params[1]):
            continue
        k = prog.fold(ps.module, a_.targets[0].slice)
        if k not in absent:
            continue
        attr, dflt = absent[k]
        n += 1
        facts = fs.at(m)
        truthy_guard = ('T', attr) in facts
        none_default = isinstance(dflt, ast.Constant) and dflt.value is None
        ok = not (truthy_guard and none_default)
        chk.ob(rule, ps, ok, f'{k}: saved ' + ('only when truthy' if truthy_guard else 'whenever it is not None / always') + f', restored as {norm(dflt)} when absent'
               + ('' if ok else f' -- an empty {attr.split(".")[-1].strip("_")} is skipped on save and comes back as None'), node=a_, kind=f'absent-means-the-same:{k}')
    chk.floor(f'{rule}:optional-keys', n, 2)


def run(chk: Check) -> None:
    prog = chk.prog
    # a bundle taken inside a nested outline block loads into the same block (shared with C08)
    from .c08 import child_selector_agreement
    child_selector_agreement(chk, 'SYM-key-agreement')
    ctx = chk.ctx
    classes = savable_classes(prog)
    chk.floor('SYM-classes', len(classes), 20)

    persisted_fields(chk)
    # UNCLASSIFIED fields (informational)
    known = {(c, a) for c, a, _ in PERSISTED} | set(RUNTIME)
    for c in classes:
        for a in init_fields(c):
            if (c.qualname, a) not in known and a not in auto_persist_set(prog, c):
                chk.info('SYM-unclassified', f'{c.qualname}.{a}: assigned in __init__, neither in the reference table nor auto-persisted')

    # (ii) key agreement: what a class's save_instance_state writes is read back by the load_instance_state chain of every concrete class that inherits it,
    # and what its load_instance_state reads is written by their save chain (each method calls super(): the chain along the MRO is what runs, so a save
    # method shared through a common base pairs with the load methods of the subclasses)
    n_keys = 0
    own = {}
    for c in classes:
        sf, lf = prog.view(c.vmethods.get('save_instance_state')), prog.view(c.vmethods.get('load_instance_state'))
        saved = dict(saved_keys_of(prog, sf)) if sf else {}
        loaded = dict(loaded_keys_of(prog, lf)) if lf else {}
        rf = prog.view(c.vmethods.get('recreate_from'))  # a class may restore its keys in its own recreate_from (SavableFuture)
        if rf is not None:
            for k, v in loaded_keys_of(prog, rf).items():
                loaded.setdefault(k, []).extend(v)
        own[c.qualname] = (sf, lf, saved, loaded)

    def chain(c, idx):
        out = {}
        for k_ in c.mro_classes():
            if k_.qualname in own:
                out.update(own[k_.qualname][idx])
            for a in auto_persist_set(prog, k_) if k_.qualname in own else ():   # auto-persisted members are written under their own name by save_members
                out.setdefault(a, None)
        return out
    in_set = {c.qualname for c in classes}
    for c in classes:
        sf, lf, saved, loaded = own[c.qualname]
        if sf is None and lf is None:
            continue
        subs = [d for d in prog.subclasses(c) if d.qualname in in_set]
        leaves = [d for d in [c] + subs if not any(e.qualname in in_set for e in prog.subclasses(d))] or [c]
        if subs and lf is None:
            leaves = [d for d in leaves if d is not c]   # a base that only contributes a save method is completed by its subclasses
        for a in auto_persist_set(prog, c):
            saved.setdefault(a, None)
            loaded.setdefault(a, [])
        for k in saved:
            n_keys += 1
            if sf is None:
                continue
            missing = [d.name for d in leaves if k not in chain(d, 3)]
            chk.ob('SYM-key-agreement', sf, not missing, f'key {k!r} written by {c.name}.save_instance_state is read back by its load_instance_state '
                   f'(loaded keys: {sorted(map(str, chain(leaves[0], 3)))}' + (f'; not read back in {missing}' if missing else '') + ')', kind=f'saved-key-loaded:{k}', expr=str(k))
        for k in loaded:
            if lf is None:
                continue
            missing = [d.name for d in leaves if k not in chain(d, 2)]
            chk.ob('SYM-key-agreement', lf, not missing, f'key {k!r} read by {c.name}.load_instance_state is written by its save_instance_state '
                   f'(saved keys: {sorted(map(str, chain(leaves[0], 2)))}' + (f'; not written in {missing}' if missing else '') + ')', kind=f'loaded-key-saved:{k}', expr=str(k))
    chk.floor('SYM-key-agreement', n_keys, 12)

    # (iii) load-context reads are supplied or guarded
    supplied = context_kwargs(prog)
    for c in classes:
        lf = prog.view(c.vmethods.get('load_instance_state'))
        if lf is None:
            continue
        for attr, node, guarded in context_reads(lf):
            ok = guarded or attr in supplied
            chk.ob('SYM-load-context', lf, ok, f'load context attribute {attr!r} is ' + ('read under a membership guard' if guarded else
                   f'supplied by LoadSaveContext({attr}=...) at {[g.short for g, _ in supplied.get(attr, [])]}' if attr in supplied else
                   'supplied nowhere: AttributeError on load'), node=node, kind=f'ctx:{attr}')
    rs = prog.func('processes.Process.recreate_state')
    ctxs = [c for c in calls_in_func(rs, 'LoadSaveContext')]
    ok = len(ctxs) == 1 and any(k.arg == 'process' and norm(k.value) == 'self' for k in ctxs[0].keywords)
    loads = [c for c in calls_in_func(rs, 'load')]
    ok = ok and len(loads) == 1 and len(loads[0].args) == 2 and norm(loads[0].args[0]) == rs.params[1]
    chk.ob('SYM-load-context', rs, ok, 'the state is recreated from the given saved state with a context naming this process', kind='state-context')
    sl = prog.func('process_states.State.load_instance_state')
    ok = any(isinstance(n, ast.Assign) and norm(n.targets[0]) == 'self.state_machine' and norm(n.value).endswith('.process') for n in ast.walk(sl.node))
    chk.ob('SYM-load-context', sl, ok, 'a loaded state is re-bound to the process named by the context', kind='state-rebound')

    # (iv) overrides call super() on all paths
    n_sup = 0
    for c in classes:
        for name in ('save_instance_state', 'load_instance_state'):
            f = prog.view(c.vmethods.get(name))
            if f is None:
                continue
            n_sup += 1
            chk.ob('SYM-super-called', f, calls_super_on_all_paths(f), f'{c.name}.{name} calls super().{name} on every non-raising path (the auto-persisted '
                   'members of the bases are saved / restored)', kind='super-on-all-paths')
    chk.floor('SYM-super-called', n_sup, 25)

    # defaults assigned in Process.load_instance_state must not clobber members restored by the base load
    pl = prog.func('processes.Process.load_instance_state')
    cfg = cfg_of(pl)
    auto = auto_persist_set(prog, prog.cls('processes.Process'))
    sup = [n for n in cfg.nodes if n.expr() is not None and any(
        isinstance(x, ast.Call) and isinstance(x.func, ast.Attribute) and x.func.attr == 'load_instance_state' and isinstance(x.func.value, ast.Call)
        and unparse(x.func.value.func) == 'super' for x in walk_shallow(n.expr()))]
    chk.need(len(sup) == 1, 'Process.load_instance_state: super().load_instance_state call not found')
    after = cfg.reachable(sup, edge_ok=no_exc)
    for n in cfg.nodes:
        if n.kind == 'stmt' and isinstance(n.ast, (ast.Assign, ast.AnnAssign)):
            tg = n.ast.targets if isinstance(n.ast, ast.Assign) else [n.ast.target]
            for t in tg:
                if is_self_attr(t) and t.attr in auto and n.id in after:
                    chk.ob('SYM-default-before-restore', pl, False, f'self.{t.attr} is assigned after the auto-persisted members were restored: the loaded value is lost',
                           node=n.ast, kind=f'clobbers:{t.attr}')
    chk.ob('SYM-default-before-restore', pl, True, 'runtime defaults are assigned before the base class restores the auto-persisted members', kind='order')
    # _state is restored (recreate_state) and the state machine base initialised
    calls = [norm(c.func) for c in calls_in_func(pl)]
    chk.ob('SYM-default-before-restore', pl, 'super().__init__' in calls and 'self._setup_event_hooks' in calls,
           'a loaded process initialises the state machine base and its event hooks', kind='base-init')
    rf = prog.func('processes.Process.recreate_from')
    chk.ob('SYM-default-before-restore', rf, any(last_name(c) == 'call_with_super_check' and 'init' in norm(c.args[0]) for c in calls_in_func(rf)),
           'recreate_from runs init() (cleanups, subscriptions, cancel hook) on the loaded process', kind='init-on-load')

    # 4. copy at save
    io_mappings_encoded(chk, 'PROV-copy-at-save')
    members_deepcopied(chk)
    persisted_members_can_be_copied(chk)
    # the members a class registers lazily (through its persist() hook) are known on BOTH sides: the hook has run before the loader iterates the member table,
    # whoever calls it (recreate_from and load() included), else a member that was saved is silently left out of the rebuilt object (shared with C19)
    from .c19 import persist_hook_before_members
    persist_hook_before_members(chk, 'SYM-key-agreement')
    falsy_values_survive(chk, 'SYM-key-agreement')
    stored_exceptions_roundtrip(chk)
    saved_mappings_restored_whole(chk)
    load_is_deterministic(chk)
    # the in-memory medium: the bundle is a deep copy of the saved state (shared with C14)
    from .c14 import snapshot_isolation
    snapshot_isolation(chk, 'PROV-copy-at-save')
    restored_fields_not_clobbered(chk)
    from .common import copy_protocol_is_deep
    copy_protocol_is_deep(chk, 'PROV-copy-at-save')
    from .c19 import class_identified_by_loader, loader_precedence
    class_identified_by_loader(chk, 'PROV-class-identifier')
    # a bundle is read with the loader IT was written with unless the caller names one: the load context handed in is extended in a copy, never written to (a launcher
    # shares one context across loads: the loader of the first bundle must not stick to it) -- shared with C19
    loader_precedence(chk, 'PROV-class-identifier')
    # 5. YAML tags
    mod = prog.module('persistence')
    reps, cons = {}, {}
    for n in ast.walk(mod.tree):
        if isinstance(n, ast.Call) and norm(n.func) == 'yaml.add_representer' and len(n.args) == 2:
            reps[norm(n.args[0])] = norm(n.args[1])
        if isinstance(n, ast.Call) and norm(n.func) == 'yaml.add_constructor' and len(n.args) == 2:
            cons[norm(n.args[1])] = prog.fold(mod, n.args[0])
    def _fn(name):   # (defined here or imported from a helper module of the package)
        r_ = prog.resolve(mod, ast.Name(id=name, ctx=ast.Load()))
        if isinstance(r_, FuncInfo):
            return r_
        # ``name = make_it(Bundle)``: the closure a factory of the package defines and returns
        v_ = mod.constants.get(name)
        if isinstance(v_, ast.Call):
            fac = prog.resolve(mod, v_.func) if isinstance(v_.func, (ast.Name, ast.Attribute)) else None
            if isinstance(fac, FuncInfo):
                rets_ = [x for x in ast.walk(fac.node) if isinstance(x, ast.Return) and isinstance(x.value, ast.Name)]
                if len(rets_) == 1 and rets_[0].value.id in fac.nested:
                    return fac.nested[rets_[0].value.id]
        return None
    br = _fn('_bundle_representer')
    bc = _fn('_bundle_constructor')
    chk.need(br is not None and bc is not None, 'bundle representer / constructor not found')
    tag_rep = [prog.fold(br.module, c.args[0]) for c in calls_in_func(br, 'represent_mapping')]
    ok = reps.get('Bundle') == '_bundle_representer' and cons.get('_bundle_constructor') is not None and tag_rep == [cons.get('_bundle_constructor')]
    chk.ob('TAB-yaml', 'persistence._bundle_representer', ok, f'Bundle is represented under the tag its constructor is registered for ({tag_rep} / {cons.get("_bundle_constructor")})',
           kind='bundle-tag')
    new_of = {norm(c.func)[:-len('.__new__')] for c in calls_in_func(bc) if norm(c.func).endswith('.__new__')}
    if bc.parent is not None and isinstance(mod.constants.get('_bundle_constructor'), ast.Call):
        # made by a factory: the class it instantiates is the argument the factory was called with
        fcall = mod.constants['_bundle_constructor']
        bound = dict(zip(bc.parent.params, [norm(a) for a in fcall.args]))
        bound.update({k.arg: norm(k.value) for k in fcall.keywords if k.arg})
        new_of = {bound.get(x, x) for x in new_of}
    ok = 'Bundle' in new_of and any(last_name(c) == 'update' for c in calls_in_func(bc))
    chk.ob('TAB-yaml', 'persistence._bundle_constructor', ok, 'the constructor rebuilds a Bundle and fills it with the mapping', kind='bundle-constructor')
    ur, uc = _fn('uuid_representer'), _fn('uuid_constructor')
    if ur is not None and uc is not None:
        tag = [prog.fold(ur.module, c.args[0]) for c in calls_in_func(ur, 'represent_scalar')]
        chk.ob('TAB-yaml', 'persistence.uuid_representer', reps.get('uuid.UUID') == 'uuid_representer' and tag == [cons.get('uuid_constructor')],
               f'uuid values (default pids) round-trip through YAML under one tag ({tag})', kind='uuid-tag')
    # every YAML representer the package registers, anywhere: what it writes is read back as the same type -- it emits a TAG for which a constructor is registered.  A
    # representer that writes one of plumpy's own types as a plain mapping / sequence / string has no way back: the value returns as dict / list / str
    all_cons, n_rep = set(), 0
    for m_ in prog.modules.values():
        for n in ast.walk(m_.tree):
            if isinstance(n, ast.Call) and isinstance(n.func, ast.Attribute) and n.func.attr in ('add_constructor', 'add_multi_constructor') and n.args:
                t_ = prog.fold(m_, n.args[0])
                if isinstance(t_, str):
                    all_cons.add(t_)
    for m_ in prog.modules.values():
        for n in ast.walk(m_.tree):
            if not (isinstance(n, ast.Call) and isinstance(n.func, ast.Attribute) and n.func.attr in ('add_representer', 'add_multi_representer') and len(n.args) >= 2):
                continue
            if norm(n.args[1]).startswith('yaml.') and norm(n.args[1]).endswith('.represent_name'):
                continue   # PyYAML's own name representer (classes by qualified name): written and read back by the library's python/name tag
            n_rep += 1
            rf = prog.resolve(m_, n.args[1]) if isinstance(n.args[1], (ast.Name, ast.Attribute)) else None
            rf = rf if isinstance(rf, FuncInfo) else None
            tags, plain = [], True
            if rf is not None:
                tagged = [c for c in calls_in_func(rf) if last_name(c) in ('represent_scalar', 'represent_mapping', 'represent_sequence') and c.args]
                tags = [prog.fold(rf.module, c.args[0]) for c in tagged]
                plain = not tagged or any(last_name(c) in ('represent_dict', 'represent_list', 'represent_str', 'represent_data', 'represent_set') for c in calls_in_func(rf))
            ok = rf is not None and not plain and all(isinstance(t_, str) and t_ in all_cons for t_ in tags)
            chk.ob('TAB-yaml', f'{m_.short}.{norm(n.args[1])}', ok, f'values of {norm(n.args[0])} are written to YAML under a tag that a registered constructor reads back (tags {tags}; constructors {sorted(all_cons)})'
                   + ('' if ok else ' -- they are not: the type is lost in a YAML checkpoint (the loaded process holds a plain mapping / string where the original held this type)'),
                   node=n, kind='representer-has-constructor', expr=norm(n.args[0]))
    chk.floor('TAB-yaml:representers', n_rep, 2)
    chk.assumptions.append('how pickle / YAML / deepcopy treat arbitrary member values is outside the shape of plumpy (bundle equality itself is not decided)')
