"""C18 -- Process.current() is the process whose code is running (scope pairing + scope reachability)."""
from __future__ import annotations

import ast
from typing import Dict, List, Tuple

from ..cfg import cfg_of, no_exc
from ..esc import Esc
from ..model import AnalysisError, FuncInfo, norm, unparse, walk_shallow
from ..report import Check
from ..rules import calls_in_func, last_name

SCOPE = 'self._process_scope()'
# functions whose uncontrolled calls run code *of the process* (step, continuation, hook, scheduled callback)
PROCESS_CODE = {
    'process_states.Running.execute': 'step function / continuation',
    'processes.Process._run_task': 'process task (state execute, scheduled callback)',
    'workchains._FunctionStepper.step': 'outline step',
    'workchains._Conditional.is_true': 'outline predicate',
    'processes.Process.on_entering': 'state entering hooks',
    'processes.Process.on_entered': 'state entered hooks',
    'processes.Process.on_exiting': 'state exiting hooks',
    'base.state_machine.State.do_enter': 'state enter hook',
    'base.state_machine.State.do_exit': 'state exit hook',
    'base.state_machine.StateMachine.transition_to': 'termination hook',
    'processes.Process._do_pause': 'pause hooks',
    'processes.Process.play': 'play hook',
    'processes.Process.close': 'close hook',
    'processes.Process.out': 'output hooks',
}


def run(chk: Check) -> None:
    prog = chk.prog
    scope_pairing(chk)
    scope_reachability(chk)
    chk.assumptions.append('context variables are copied per task (asyncio semantics): a scope entered in one task is invisible to the others')


def scope_pairing(chk: Check) -> None:
    """Every function that installs a new process stack restores the previous one on EVERY way out, the exceptional
    ones included (context-manager form: try/finally around the yield; token form: reset in a finally)."""
    prog = chk.prog
    pushers = {}
    n = 0
    from ..rules import subsumed_helpers
    sub = subsumed_helpers(prog)
    for f in prog.all_funcs():
        if id(f.node) in sub:
            continue   # a private helper inlined at all its call sites: its statements are examined as part of each caller
        f = prog.view(f)
        for c in calls_in_func(f):
            if isinstance(c.func, ast.Attribute) and norm(c.func.value) == 'PROCESS_STACK' and c.func.attr in ('set', 'reset'):
                n += 1
                pushers.setdefault(id(f.node), (f, []))[1].append(c)
            # in-place mutation of the list obtained from the context variable
            if isinstance(c.func, ast.Attribute) and c.func.attr in ('append', 'pop', 'insert', 'remove', 'clear', 'extend') and 'PROCESS_STACK.get()' == norm(c.func.value):
                chk.ob('OWN-process-stack', f, False, 'the list held by the context variable is mutated in place: other tasks sharing it (the default [] is one object) see the change',
                       node=c, kind='in-place-mutation')
    chk.floor('OWN-process-stack', n, 1)
    proc = prog.cls('processes.Process')
    for f, cs in pushers.values():
        owner = f.owner_class
        ok_owner = owner is not None and owner.is_subclass_of(proc) and f.name in ('_process_scope', '_run_task')
        chk.ob('OWN-process-stack', f, ok_owner, 'the process stack is replaced only by the scope machinery of Process (_process_scope / _run_task)', node=cs[0], kind='stack-writer')
        cfg = cfg_of(f)
        nodes = [(m, c) for c in cs for m in cfg.nodes_containing(c)]
        # pushes: stack writes not preceded by another stack write on some path from the entry
        write_nodes = [m for m, _ in nodes]
        pushes = [m for m in write_nodes if not cfg.must_pass(cfg.entry, [m], lambda x: x in write_nodes and x is not m)]
        restores = [m for m in write_nodes if m not in pushes]
        chk.ob('PAIR-scope', f, bool(pushes) and bool(restores), f'{f.short} both installs a stack with this process and restores the previous one', kind='push-and-restore')
        for p_ in pushes:
            # (an exception raised BY the push itself means nothing was pushed)
            # and an exception raised by the restoring cleanup block itself (its sanity assert, the copy) is not an
            # exception "raised inside the scope": only the statements of a finally body that holds the restore are exempt
            cleanup = set()
            for t in ast.walk(f.node):
                if isinstance(t, ast.Try) and any(c is x for s_ in t.finalbody for x in ast.walk(s_) for _, c in nodes):
                    cleanup |= {id(x) for s_ in t.finalbody for x in ast.walk(s_)}

            def edge_ok(a, b, label, cleanup=cleanup):
                return not (label in ('exc', 'uncaught') and a.ast is not None and id(a.ast) in cleanup)
            ok = all(cfg.must_pass(s0, [cfg.exit, cfg.raise_exit], lambda x: x in restores, edge_ok=edge_ok) for s0, l0 in p_.succ if l0 != 'exc')
            chk.ob('PAIR-scope', f, ok, 'after the push every way out of the scope -- normal, or by an exception / cancellation raised inside it -- passes the restore '
                   '(otherwise the process stays "current" for whatever runs next in that context)', node=p_.ast, kind='restore-on-every-exit')
            call = [c for m, c in nodes if m is p_][0]
            arg = call.args[0] if call.args else None
            from ..rules import Resolver
            src = Resolver(f).expand(arg) if arg is not None else None
            fresh = False
            if isinstance(arg, ast.Name):
                # copy(), then append(self), then set
                assigns = [m for m in cfg.nodes if m.kind == 'stmt' and isinstance(m.ast, ast.Assign) and norm(m.ast.targets[0]) == arg.id and p_.id in cfg.reachable([m], edge_ok=no_exc)]
                fresh = any(norm(a.ast.value) in ('PROCESS_STACK.get().copy()', 'list(PROCESS_STACK.get())', 'PROCESS_STACK.get()[:]') for a in assigns) and any(
                    isinstance(c2, ast.Call) and norm(c2.func) == f'{arg.id}.append' and [norm(a2) for a2 in c2.args] == ['self'] for m in cfg.nodes for c2 in (walk_shallow(m.expr()) if m.expr() is not None else []))
            if isinstance(src, (ast.List,)) or (isinstance(src, ast.BinOp) and isinstance(src.op, ast.Add)):
                txt = norm(src)
                fresh = fresh or ('PROCESS_STACK.get()' in txt and 'self' in txt)
            chk.ob('PAIR-scope', f, fresh, 'push: a NEW list (copy of the current stack plus this process) is installed', node=p_.ast, kind='push-on-copy')
        for r_ in restores:
            call = [c for m, c in nodes if m is r_][0]
            okr = call.func.attr == 'reset'
            if not okr and call.args and isinstance(call.args[0], ast.Name):
                v = call.args[0].id
                assigns = [m for m in cfg.nodes if m.kind == 'stmt' and isinstance(m.ast, ast.Assign) and norm(m.ast.targets[0]) == v and r_.id in cfg.reachable([m])]
                okr = any(norm(a.ast.value) in ('PROCESS_STACK.get().copy()', 'list(PROCESS_STACK.get())', 'PROCESS_STACK.get()[:]') for a in assigns) and any(
                    isinstance(c2, ast.Call) and norm(c2.func) == f'{v}.pop' for m in cfg.nodes for c2 in (walk_shallow(m.expr()) if m.expr() is not None else []))
            chk.ob('PAIR-scope', f, okr, 'restore: the previous stack is re-installed (token reset, or a copy without its last element)', node=r_.ast, kind='pop-on-copy')
    cur = prog.func('processes.Process.current')
    rets = [r for r in ast.walk(cur.node) if isinstance(r, ast.Return) and r.value is not None and not (isinstance(r.value, ast.Constant) and r.value.value is None)]
    from ..rules import Resolver
    chk.ob('PAIR-scope', cur, len(rets) == 1 and Resolver(cur).text(rets[0].value) == 'PROCESS_STACK.get()[-1]', 'current() is the top of the stack', kind='current-is-top')


def scope_reachability(chk: Check) -> None:
    prog = chk.prog
    esc = Esc(chk.ctx)

    def stop(f: FuncInfo, node: ast.AST, via: str):
        if '[scoped]' in via:
            return 'scoped (runs inside _run_task)'
        if esc.enclosing_with(f, node, SCOPE):
            return f'scoped in {f.short}'
        # token form: the site is dominated by a stack push of the same function and a restore follows
        cfgf = cfg_of(f)
        writes = [m for m in cfgf.nodes if any(isinstance(c, ast.Call) and isinstance(c.func, ast.Attribute) and norm(c.func.value) == 'PROCESS_STACK' and c.func.attr == 'set'
                                                 for c in (walk_shallow(m.expr()) if m.expr() is not None else []))]
        here = cfgf.nodes_containing(node)
        if writes and here and all(cfgf.must_pass(cfgf.entry, [h], lambda m: m in writes, edge_ok=no_exc) for h in here):
            return f'scoped in {f.short} (push/restore)'
        return None

    n = 0
    for q, what in PROCESS_CODE.items():
        f = prog.func(q)
        usites = chk.ctx.calls.summary(f).usites
        if q == 'base.state_machine.StateMachine.transition_to':
            usites = [(c, t) for c, t in usites if 'on_terminated' in t.name]
        if not usites:
            continue
        unscoped: Dict[str, str] = {}
        scoped = 0
        skipped = 0
        for call, t in usites:
            n += 1
            for o in esc.trace(f, call, stop=stop, containers=False):
                if o.kind == 'stopped':
                    scoped += 1
                else:
                    root_f = o.path[-1][0]
                    if o.root == 'public-entry' and (root_f.has_decorator('protected') or root_f.name == 'run' or root_f.name.startswith('on_')
                                                      or root_f.name in ('enter', 'exit', 'do_enter', 'do_exit', 'execute') and root_f.cls is not None
                                                      and root_f.cls.qualname != 'processes.Process'):
                        skipped += 1
                        continue  # step functions / hooks / @protected methods are not entry points: only the process's own code calls them
                    if o.root == 'orphan':
                        continue
                    unscoped.setdefault(f'{root_f.short} ({o.root})', o.chain())
        chk.need(scoped > 0 or bool(unscoped) or skipped > 0, f'no call chain at all reaches the user code run by {q}: the call graph lost it, the scope rule would pass vacuously')
        ok = not unscoped
        chk.ob('SCOPE-reachability', f, ok,
               f'{what}: ' + ('every call chain reaching this user code passes "with self._process_scope()"' if ok else
                              f'reached outside any process scope from {sorted(unscoped)}; e.g. {list(unscoped.values())[0]} -- Process.current() is not this process '
                              f'(None, or an outer process) while that code runs'), kind='unscoped-chain' if not ok else 'scoped', expr=what)
    chk.floor('SCOPE-reachability:usites', n, 20)
    # the scheduled-callback path wraps the callback in _run_task
    cs = prog.func('processes.Process.call_soon')
    pc = [c for c in calls_in_func(cs, 'ProcessCallback')]
    ok = len(pc) == 1 and len(pc[0].args) >= 2 and norm(pc[0].args[1]) == 'self._run_task'
    chk.ob('SCOPE-reachability', cs, ok, 'call_soon runs the callback through _run_task (inside the scope)', node=pc[0] if pc else None, kind='callback-through-run-task')
    from ..rules import Resolver
    first = False
    if pc and len(pc[0].args) >= 3:
        a3 = Resolver(cs).expand(pc[0].args[2])
        cb = cs.params[1]
        # (callback,) + args   |   (callback, *args)   -- also when bound to a local first (possibly the rebound ``args``)
        if isinstance(a3, ast.Name):
            vals = [n_.value for n_ in ast.walk(cs.node) if isinstance(n_, ast.Assign) and norm(n_.targets[0]) == a3.id]
            a3 = vals[0] if len(vals) == 1 else a3
        if isinstance(a3, ast.BinOp) and isinstance(a3.op, ast.Add) and isinstance(a3.left, ast.Tuple) and a3.left.elts and norm(a3.left.elts[0]) == cb:
            first = True
        if isinstance(a3, ast.Tuple) and a3.elts and norm(a3.elts[0]) == cb:
            first = True
    chk.ob('SCOPE-reachability', cs, first, 'the user callback is the first argument handed to _run_task', kind='callback-first-arg')
    rt = prog.func('processes.Process._run_task')
    sites = [c for c, t in chk.ctx.calls.func_calls(rt) if t.uncontrolled]
    ok = bool(sites) and all(stop(rt, c, '') for c in sites)
    chk.ob('SCOPE-reachability', rt, ok, '_run_task awaits the function inside "with self._process_scope()"', kind='run-task-scoped')
