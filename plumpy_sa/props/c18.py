"""C18 -- Process.current() is the process whose code is running (scope pairing + scope reachability)."""
from __future__ import annotations

import ast
from typing import Dict, List, Tuple

from ..cfg import cfg_of, no_exc
from ..esc import Esc
from ..model import AnalysisError, FuncInfo, norm, unparse, walk_shallow
from ..report import Check
from ..rules import calls_in_func, last_name

SCOPE = 'self._process_scope()'
# functions whose uncontrolled calls run code *of the process* (step, continuation, hook, scheduled callback)
PROCESS_CODE = {
    'process_states.Running.execute': 'step function / continuation',
    'processes.Process._run_task': 'process task (state execute, scheduled callback)',
    'workchains._FunctionStepper.step': 'outline step',
    'workchains._Conditional.is_true': 'outline predicate',
    'processes.Process.on_entering': 'state entering hooks',
    'processes.Process.on_entered': 'state entered hooks',
    'processes.Process.on_exiting': 'state exiting hooks',
    'base.state_machine.State.do_enter': 'state enter hook',
    'base.state_machine.State.do_exit': 'state exit hook',
    'base.state_machine.StateMachine.transition_to': 'termination hook',
    'processes.Process._do_pause': 'pause hooks',
    'processes.Process.play': 'play hook',
    'processes.Process.close': 'close hook',
    'processes.Process.out': 'output hooks',
}


def run(chk: Check) -> None:
    prog = chk.prog
    scope_pairing(chk)
    scope_reachability(chk)
    chk.assumptions.append('context variables are copied per task (asyncio semantics): a scope entered in one task is invisible to the others')


def scope_pairing(chk: Check) -> None:
    prog = chk.prog
    ps = prog.func('processes.Process._process_scope')
    # OWN: PROCESS_STACK is written only in _process_scope
    n = 0
    for f in prog.all_funcs():
        for c in calls_in_func(f):
            if isinstance(c.func, ast.Attribute) and norm(c.func.value) == 'PROCESS_STACK' and c.func.attr in ('set', 'reset'):
                n += 1
                chk.ob('OWN-process-stack', f, f is ps, 'the process stack is replaced only inside _process_scope', node=c, kind='stack-writer')
            # in-place mutation of the list obtained from the context variable
            if isinstance(c.func, ast.Attribute) and c.func.attr in ('append', 'pop', 'insert', 'remove', 'clear', 'extend') and 'PROCESS_STACK.get()' == norm(c.func.value):
                chk.ob('OWN-process-stack', f, False, 'the list held by the context variable is mutated in place: other tasks sharing it (the default [] is one object) see the change',
                       node=c, kind='in-place-mutation')
    chk.floor('OWN-process-stack', n, 1)
    chk.ob('OWN-process-stack', ps, ps.has_decorator('contextmanager'), '_process_scope is a context manager', kind='contextmanager')
    cfg = cfg_of(ps)
    # push: copy, append self, set -- before the yield
    yields = [nd for nd in cfg.nodes if nd.expr() is not None and any(isinstance(x, (ast.Yield,)) for x in walk_shallow(nd.expr()))]
    chk.need(len(yields) == 1, '_process_scope must yield exactly once')
    y = yields[0]
    sets = [nd for nd in cfg.nodes if any(isinstance(c, ast.Call) and norm(c.func) == 'PROCESS_STACK.set' for c in (walk_shallow(nd.expr()) if nd.expr() is not None else []))]
    before = [s for s in sets if y.id in cfg.reachable([s], edge_ok=no_exc)]
    after = [s for s in sets if s.id in cfg.reachable([y])]
    chk.ob('PAIR-scope', ps, len(before) == 1 and cfg.must_pass(cfg.entry, [y], lambda m: m in before, edge_ok=no_exc), 'the scope is entered (stack replaced) before the body runs', kind='push-before-yield')

    def copy_based(setnode, op: str) -> bool:
        call = [c for c in walk_shallow(setnode.expr()) if isinstance(c, ast.Call) and norm(c.func) == 'PROCESS_STACK.set'][0]
        if not call.args or not isinstance(call.args[0], ast.Name):
            return False
        var = call.args[0].id
        # the variable is a fresh copy of the current stack, modified by op
        preds = cfg.reachable([cfg.entry], include_src=True)
        assigns = [nd for nd in cfg.nodes if nd.kind == 'stmt' and isinstance(nd.ast, ast.Assign) and norm(nd.ast.targets[0]) == var
                   and setnode.id in cfg.reachable([nd], edge_ok=no_exc)]
        fresh = [a for a in assigns if norm(a.ast.value) in ('PROCESS_STACK.get().copy()', 'list(PROCESS_STACK.get())', 'PROCESS_STACK.get()[:]')]
        ops = [nd for nd in cfg.nodes if any(isinstance(c, ast.Call) and norm(c.func) == f'{var}.{op}' for c in (walk_shallow(nd.expr()) if nd.expr() is not None else []))
               and setnode.id in cfg.reachable([nd], edge_ok=no_exc)]
        if op == 'append':
            ops = [o for o in ops if any(isinstance(c, ast.Call) and norm(c.func) == f'{var}.append' and [norm(a) for a in c.args] == ['self'] for c in walk_shallow(o.expr()))]
        # nearest fresh copy precedes the op which precedes the set
        return bool(fresh) and bool(ops) and any(o.id in cfg.reachable([a], edge_ok=no_exc) for a in fresh for o in ops)

    if before:
        chk.ob('PAIR-scope', ps, copy_based(before[0], 'append'), 'push: a copy of the current stack with this process appended is installed', kind='push-on-copy')
    # pop in the finally of the try around the yield
    tries = [t for t in ast.walk(ps.node) if isinstance(t, ast.Try) and t.finalbody and any(isinstance(x, ast.Yield) for s in t.body for x in ast.walk(s))]
    ok = len(tries) == 1 and any(isinstance(c, ast.Call) and norm(c.func) == 'PROCESS_STACK.set' for s in tries[0].finalbody for c in ast.walk(s))
    chk.ob('PAIR-scope', ps, ok, 'pop: the previous stack is restored in the finally of the try around the yield (also when the body raises)', kind='pop-in-finally')
    if after:
        chk.ob('PAIR-scope', ps, all(copy_based(a, 'pop') for a in after), 'pop: a copy of the current stack without its last element is installed', kind='pop-on-copy')
    cur = prog.func('processes.Process.current')
    rets = [r for r in ast.walk(cur.node) if isinstance(r, ast.Return) and r.value is not None and not (isinstance(r.value, ast.Constant) and r.value.value is None)]
    chk.ob('PAIR-scope', cur, len(rets) == 1 and norm(rets[0].value) == 'PROCESS_STACK.get()[-1]', 'current() is the top of the stack', kind='current-is-top')


def scope_reachability(chk: Check) -> None:
    prog = chk.prog
    esc = Esc(chk.ctx)

    def stop(f: FuncInfo, node: ast.AST, via: str):
        if '[scoped]' in via:
            return 'scoped (runs inside _run_task)'
        if esc.enclosing_with(f, node, SCOPE):
            return f'scoped in {f.short}'
        return None

    n = 0
    for q, what in PROCESS_CODE.items():
        f = prog.func(q)
        usites = chk.ctx.calls.summary(f).usites
        if q == 'base.state_machine.StateMachine.transition_to':
            usites = [(c, t) for c, t in usites if 'on_terminated' in t.name]
        if not usites:
            continue
        unscoped: Dict[str, str] = {}
        scoped = 0
        skipped = 0
        for call, t in usites:
            n += 1
            for o in esc.trace(f, call, stop=stop, containers=False):
                if o.kind == 'stopped':
                    scoped += 1
                else:
                    root_f = o.path[-1][0]
                    if o.root == 'public-entry' and (root_f.has_decorator('protected') or root_f.name == 'run' or root_f.name.startswith('on_')
                                                      or root_f.name in ('enter', 'exit', 'do_enter', 'do_exit', 'execute') and root_f.cls is not None
                                                      and root_f.cls.qualname != 'processes.Process'):
                        skipped += 1
                        continue  # step functions / hooks / @protected methods are not entry points: only the process's own code calls them
                    if o.root == 'orphan':
                        continue
                    unscoped.setdefault(f'{root_f.short} ({o.root})', o.chain())
        chk.need(scoped > 0 or bool(unscoped) or skipped > 0, f'no call chain at all reaches the user code run by {q}: the call graph lost it, the scope rule would pass vacuously')
        ok = not unscoped
        chk.ob('SCOPE-reachability', f, ok,
               f'{what}: ' + ('every call chain reaching this user code passes "with self._process_scope()"' if ok else
                              f'reached outside any process scope from {sorted(unscoped)}; e.g. {list(unscoped.values())[0]} -- Process.current() is not this process '
                              f'(None, or an outer process) while that code runs'), kind='unscoped-chain' if not ok else 'scoped', expr=what)
    chk.floor('SCOPE-reachability:usites', n, 20)
    # the scheduled-callback path wraps the callback in _run_task
    cs = prog.func('processes.Process.call_soon')
    pc = [c for c in calls_in_func(cs, 'ProcessCallback')]
    ok = len(pc) == 1 and len(pc[0].args) >= 2 and norm(pc[0].args[1]) == 'self._run_task'
    chk.ob('SCOPE-reachability', cs, ok, 'call_soon runs the callback through _run_task (inside the scope)', node=pc[0] if pc else None, kind='callback-through-run-task')
    from ..rules import Resolver
    first = False
    if pc and len(pc[0].args) >= 3:
        a3 = Resolver(cs).expand(pc[0].args[2])
        cb = cs.params[1]
        # (callback,) + args   |   (callback, *args)   -- also when bound to a local first (possibly the rebound ``args``)
        if isinstance(a3, ast.Name):
            vals = [n_.value for n_ in ast.walk(cs.node) if isinstance(n_, ast.Assign) and norm(n_.targets[0]) == a3.id]
            a3 = vals[0] if len(vals) == 1 else a3
        if isinstance(a3, ast.BinOp) and isinstance(a3.op, ast.Add) and isinstance(a3.left, ast.Tuple) and a3.left.elts and norm(a3.left.elts[0]) == cb:
            first = True
        if isinstance(a3, ast.Tuple) and a3.elts and norm(a3.elts[0]) == cb:
            first = True
    chk.ob('SCOPE-reachability', cs, first, 'the user callback is the first argument handed to _run_task', kind='callback-first-arg')
    rt = prog.func('processes.Process._run_task')
    sites = [c for c, t in chk.ctx.calls.func_calls(rt) if t.uncontrolled]
    ok = bool(sites) and all(esc.enclosing_with(rt, c, SCOPE) for c in sites)
    chk.ob('SCOPE-reachability', rt, ok, '_run_task awaits the function inside "with self._process_scope()"', kind='run-task-scoped')
