"""C19 -- any Savable round-trips its declared members through the named loader."""
from __future__ import annotations

import ast
from typing import List, Optional

from ..cfg import cfg_of, no_exc
from ..model import AnalysisError, UNKNOWN, is_self_attr, norm, unparse, walk_shallow
from ..report import Check
from ..rules import branch_reaches_exit, calls_in_func, last_name


def subscript_path(prog, f, e: ast.expr) -> Optional[List[object]]:
    """``x[A][B][C]`` / ``x.setdefault(A, {})[B]`` / helper calls returning a sub-dict -> list of folded keys."""
    path: List[object] = []
    cur = e
    while True:
        if isinstance(cur, ast.Subscript):
            k = prog.fold(f.module, cur.slice, f.owner_class)
            path.insert(0, k if k is not UNKNOWN else norm(cur.slice))
            cur = cur.value
        elif isinstance(cur, ast.Call) and isinstance(cur.func, ast.Attribute) and cur.func.attr == 'setdefault' and cur.args:
            k = prog.fold(f.module, cur.args[0], f.owner_class)
            path.insert(0, k if k is not UNKNOWN else norm(cur.args[0]))
            cur = cur.func.value
        elif isinstance(cur, ast.Call) and last_name(cur) == '_get_create_meta':
            meta = prog.func('persistence.Savable._get_create_meta')
            rets = [n for n in ast.walk(meta.node) if isinstance(n, ast.Return)]
            if len(rets) != 1:
                return None
            sub = subscript_path(prog, meta, rets[0].value)
            if sub is None:
                return None
            return sub + path
        elif isinstance(cur, ast.Name):
            return path
        else:
            return None


def writer_path(prog, f) -> Optional[List[object]]:
    """Path of the store performed by a meta setter (follows one local alias: ``d = <path>; d[name] = value``)."""
    for n in ast.walk(f.node):
        if isinstance(n, ast.Assign) and len(n.targets) == 1 and isinstance(n.targets[0], ast.Subscript):
            t = n.targets[0]
            base = t.value
            if isinstance(base, ast.Name):
                vals = [m.value for m in ast.walk(f.node) if isinstance(m, ast.Assign) and norm(m.targets[0]) == base.id]
                if len(vals) == 1:
                    sub = subscript_path(prog, f, vals[0])
                    if sub is None:
                        return None
                    k = prog.fold(f.module, t.slice, f.owner_class)
                    return sub + [k if k is not UNKNOWN else norm(t.slice)]
            return subscript_path(prog, f, t)
    return None


def reader_path(prog, f) -> Optional[List[object]]:
    rets = [n for n in ast.walk(f.node) if isinstance(n, ast.Return) and n.value is not None]
    for r in rets:
        if isinstance(r.value, ast.Subscript):
            return subscript_path(prog, f, r.value)
    return None


def class_identified_by_loader(chk: Check, rule: str = 'PROV-loader-precedence') -> None:
    """save() writes the identifier the loader IN EFFECT for this save gives the class (not a remembered one).  Shared with C07."""
    prog = chk.prog
    sv = prog.func('persistence.Savable.save')
    ci = [c for c in calls_in_func(sv, '_set_class_name')]
    from ..rules import Resolver
    ident_arg = Resolver(sv).expand(ci[0].args[1]) if len(ci) == 1 and len(ci[0].args) >= 2 else None
    ok = isinstance(ident_arg, ast.Call) and norm(ident_arg.func) == 'loader.identify_object' and norm(ident_arg.args[0]) in ('self.__class__', 'type(self)')
    chk.ob(rule, sv, ok, 'the class is identified by the loader in effect (custom if given, else default)', kind='class-identified-by-loader')


def persist_hook_before_members(chk: Check, rule: str) -> None:
    """Both save_instance_state and load_instance_state of Savable let the class declare its members (the ``persist()`` hook, via _ensure_persist_configured) BEFORE
    they save / load the declared members: a load in an interpreter that has not saved an instance of the class yet would otherwise skip the hook-declared ones."""
    prog = chk.prog
    for name in ('save_instance_state', 'load_instance_state'):
        f_ = prog.func(f'persistence.Savable.{name}')
        c_ = [c for c in calls_in_func(f_, '_ensure_persist_configured')]
        cfg_ = cfg_of(f_)
        users = [m for m in cfg_.nodes if any(isinstance(x, ast.Call) and last_name(x) in ('save_members', 'load_members') for x in (walk_shallow(m.expr()) if m.expr() is not None else []))]
        cn = [m for c in c_ for m in cfg_.nodes_containing(c)]
        ok = bool(c_) and bool(users) and all(cfg_.must_pass(cfg_.entry, [u], lambda m: m in cn, edge_ok=no_exc) for u in users)
        chk.ob(rule, f_, ok, f'{name} lets the class declare its members (persist hook) before it handles them', kind='persist-hook-before-members')


def class_loaded_by_loader(chk: Check, rule: str = 'PROV-loader-precedence') -> None:
    """Savable.load asks the loader of THIS load -- the object _ensure_object_loader put into the context -- for the class, every time: a class remembered from an
    earlier load (keyed by the loader's type, say) was resolved by whichever loader instance came first."""
    prog = chk.prog
    ld = prog.view(prog.func('persistence.Savable.load'))   # (a local standing for ``load_context.loader`` is read through)
    lo = [c for c in calls_in_func(ld, 'load_object')]
    from ..rules import Resolver as _Rl
    ok = len(lo) == 1 and norm(_Rl(ld).expand(lo[0].func)) == 'load_context.loader.load_object' and any(last_name(c) == '_ensure_object_loader' for c in calls_in_func(ld))
    # ... on EVERY path: the class whose recreate_from is called is what that call returned -- not one kept from an earlier load (by identifier, by loader type ...)
    if ok:
        from ..decisions import paths_under, value_on_path
        fl = chk.ctx.facts.analyse(ld)
        rc = [c for c in calls_in_func(ld, 'recreate_from') if isinstance(c.func, ast.Attribute)]
        got = set()
        try:
            for path in paths_under(fl, {}):
                for i, m in enumerate(path):
                    for c in rc:
                        if m.expr() is not None and any(c is x for x in walk_shallow(m.expr())):
                            got.add(norm(value_on_path(path, i, c.func.value, depth=1)))
        except RuntimeError:
            got.add('<too many paths>')
        want = norm(lo[0])
        ok = bool(rc) and bool(got) and got <= {want}
        if not ok:
            chk.ob(rule, ld, False, f'the class recreated is on every path {want} -- found {sorted(got)}: a class remembered from an earlier load was resolved by whichever loader came first',
                   node=rc[0] if rc else None, kind='class-loaded-by-loader')
            return
    chk.ob(rule, ld, ok, 'load() resolves the class through the loader chosen by _ensure_object_loader', kind='class-loaded-by-loader')


def loader_precedence(chk: Check, rule: str = 'PROV-loader-precedence') -> None:
    """_ensure_object_loader: a loader already in the load context wins; otherwise the saved state is consulted; the global default
    comes last.  Shared with C17 (the launcher's configured loader travels in the load context)."""
    from ..rules import Resolver as _R
    prog = chk.prog
    # 2. loader precedence
    eol = prog.func('persistence._ensure_object_loader')
    cfg = cfg_of(eol)
    ff = chk.ctx.facts.analyse(eol)
    rets = [n for n in cfg.nodes if n.kind == 'return']
    first = [r for r in rets if norm(r.ast.value) == eol.params[0]]
    ok = bool(first) and all(('notnone', f'{eol.params[0]}.loader') in ff.at(r) for r in first)
    chk.ob(rule, eol, ok, '1) a loader already in the context wins (returned unchanged)', kind='context-first')
    gets = [n for n in cfg.nodes if any(isinstance(c, ast.Call) and last_name(c) == 'get_custom_meta' for c in (walk_shallow(n.expr()) if n.expr() is not None else []))]
    ok = bool(gets) and all(('none', f'{eol.params[0]}.loader') in ff.at(g) for g in gets)
    chk.ob(rule, eol, ok, '2) otherwise the loader named in the saved state is looked up', kind='saved-second')
    ok = bool(gets) and cfg.must_pass(cfg.entry, [cfg.exit], lambda m: m in gets or m in first)
    chk.ob(rule, eol, ok, 'every way of returning a context either returns the given context that already carries a loader, or has consulted the saved state '
           'first (a shortcut -- no context given, say -- that goes straight to the default ignores the loader the state was saved with)', kind='saved-state-always-consulted')
    key_ok = any(isinstance(c, ast.Call) and last_name(c) == 'get_custom_meta' and len(c.args) == 2 and norm(c.args[0]) == eol.params[1] and prog.fold(eol.module, c.args[1]) == 'object_loader'
                 for g in gets for c in walk_shallow(g.expr()))
    chk.ob(rule, eol, key_ok, 'the lookup uses the object-loader meta key of the given saved state', kind='saved-key')
    # the fallback to the default is taken only when the saved state names no loader
    tries = [t for t in ast.walk(eol.node) if isinstance(t, ast.Try)]
    ok = False
    for t in tries:
        if any(isinstance(c, ast.Call) and last_name(c) == 'get_custom_meta' for s in t.body for c in ast.walk(s)):
            ce_ = [c for c in calls_in_func(eol, 'copyextend')]
            lv = next((norm(k.value) for c in ce_ for k in c.keywords if k.arg == 'loader'), 'loader')   # the local that carries the chosen loader
            is_default = lambda v: 'default' in _R(eol).text(v) or 'get_object_loader' in _R(eol).text(v)
            # the default is what the local holds when the lookup raises: assigned in the handler, or assigned before the try and left alone by the handler
            before = [s for s in eol.node.body if isinstance(s, ast.Assign) and norm(s.targets[0]) == lv and s.lineno < t.lineno]
            h_ok = any(h.type is not None and 'ValueError' in norm(h.type) and (
                any(isinstance(s, ast.Assign) and norm(s.targets[0]) == lv and is_default(s.value) for s in h.body)
                or (not any(isinstance(x, ast.Name) and x.id == lv and isinstance(x.ctx, ast.Store) for s in h.body for x in ast.walk(s)) and bool(before) and is_default(before[-1].value)
                    and not any(isinstance(x, (ast.Raise, ast.Return)) for s in h.body for x in ast.walk(s)))) for h in t.handlers)
            # what the handler covers is the lookup alone: ObjectLoader.load_object signals an unknown identifier with ValueError too, and a recorded loader that cannot
            # be obtained must not be mistaken for "none recorded" (the state would be read by the default loader, the class name meaning something else to it)
            covered = [c for s in t.body for c in ast.walk(s) if isinstance(c, ast.Call) and last_name(c) != 'get_custom_meta']
            after = [s for s in eol.node.body if s.lineno > t.lineno] if t in eol.node.body else []
            after_get = (t.orelse + after) if not covered else []
            e_ok = any(isinstance(s, ast.Assign) and norm(s.targets[0]) == lv and ('loader_identifier' in _R(eol).text(s.value) or 'get_custom_meta' in _R(eol).text(s.value)) for s in after_get)
            ok = h_ok and e_ok
    chk.ob(rule, eol, ok, '3) the global default is used only when the saved state names none', kind='default-last')
    ce = [c for c in calls_in_func(eol, 'copyextend')]
    chk.ob(rule, eol, len(ce) == 1 and any(k.arg == 'loader' and norm(k.value) == 'loader' for k in ce[0].keywords), 'the chosen loader is put into the returned context', kind='into-context')


def run(chk: Check) -> None:
    from ..rules import Resolver as _R
    # "copied at save time": deepcopy must really copy (shared with C07 / C08 / C14)
    from .common import copy_protocol_is_deep
    copy_protocol_is_deep(chk, 'TAB-member-kinds')
    prog = chk.prog
    pe = prog.module('persistence')

    # 1. auto_persist copies the inherited set before adding
    wr = prog.func('persistence.auto_persist.wrapped')
    cfg = cfg_of(wr)
    sp = wr.params[0]
    adds = [n for n in cfg.nodes if any(isinstance(c, ast.Call) and norm(c.func) == f'{sp}.auto_persist' for c in (walk_shallow(n.expr()) if n.expr() is not None else []))]
    from ..rules import Resolver as _R2
    rw = _R2(wr)
    def _values(v):   # a conditional expression counts as its two branches
        return _values(v.body) + _values(v.orelse) if isinstance(v, ast.IfExp) else [v]
    def _is_new_set(v):
        return isinstance(v, ast.Call) and norm(v.func) in ('set', 'frozenset', 'copy.copy')
    stores_ap = [n for n in cfg.nodes if n.kind == 'stmt' and isinstance(n.ast, ast.Assign) and norm(n.ast.targets[0]) == f'{sp}._auto_persist']
    fresh = [n for n in stores_ap if all(_is_new_set(v) for v in _values(n.ast.value))]
    ok = bool(adds) and all(cfg.must_pass(cfg.entry, [a], lambda m: m in fresh, edge_ok=no_exc) for a in adds)
    chk.ob('PROV-auto-persist-copy', wr, ok, 'a class decorated with auto_persist gets its own new set (copied from the parent\'s) before members are added: '
           'declarations never leak into sibling classes or the parent', kind='fresh-set-before-add')
    inherit = [n for n in fresh if any(v.args and rw.text(v.args[0]) == f'{sp}._auto_persist' for v in _values(n.ast.value))]
    chk.ob('PROV-auto-persist-copy', wr, bool(inherit), 'the new set starts from the inherited members', kind='inherits-parent')
    # the lazy persist() hook runs for every object before its members are saved / loaded; the "already configured" mark is not inheritable
    epc = prog.func('persistence.Savable._ensure_persist_configured')
    ef = chk.ctx.facts.analyse(epc)
    hook = [c for c in calls_in_func(epc, 'persist')]
    from ..rules import Resolver
    res_e = Resolver(epc)
    marks = [n for n in ast.walk(epc.node) if isinstance(n, ast.Assign) and isinstance(n.targets[0], ast.Attribute) and norm(n.value) == 'True']
    def _holder(e):
        return res_e.text(e.value) if isinstance(e, ast.Attribute) else ''
    holders = {_holder(n.targets[0]) for n in marks}
    inheritable = {h for h in holders if h != 'self'}   # a class object: subclasses read the parent's mark through attribute lookup
    tests = [t for t in ef.cfg.nodes if t.kind == 'test']
    via_dict = any('__dict__' in norm(t.ast.test) or 'vars(' in norm(t.ast.test) for t in tests)
    ok = len(hook) == 1 and len(marks) == 1 and (not inheritable or via_dict)
    chk.ob('PROV-auto-persist-copy', epc, ok, f'persist() is run once per object and the "configured" mark is kept on {sorted(holders)}: '
           + ('not inheritable' if ok else 'a class-level mark is inherited by every subclass, whose own persist() -- and the members it declares -- is then skipped'),
           node=marks[0] if marks else None, kind='persist-hook-per-object')
    persist_hook_before_members(chk, 'PROV-auto-persist-copy')
    ap = prog.func('persistence.Savable.auto_persist')
    # the classmethod form (used from persist()): the set it adds to is the class's OWN -- an inherited set is copied first, else the members land in the parent
    apf = chk.ctx.facts.analyse(ap)
    upd_ = [c for c in calls_in_func(ap) if norm(c.func) == 'cls._auto_persist.update']
    own_tests = [t for t in apf.cfg.nodes if t.kind == 'test' and '__dict__' in norm(t.ast.test) and '_auto_persist' in norm(t.ast.test)]
    copies = [n for n in apf.cfg.nodes if n.kind == 'stmt' and isinstance(n.ast, ast.Assign) and norm(n.ast.targets[0]) == 'cls._auto_persist' and isinstance(n.ast.value, ast.Call)
              and norm(n.ast.value.func) in ('set', 'frozenset', 'copy.copy') and n.ast.value.args]
    ok = bool(upd_) and bool(own_tests) and bool(copies) and all(any(c_.id in apf.cfg.reachable([s_ for s_, l_ in t.succ], include_src=True, edge_ok=no_exc) for c_ in copies) for t in own_tests)
    chk.ob('PROV-auto-persist-copy', ap, ok, 'Savable.auto_persist() gives the class its own copy of an inherited member set before adding to it (declarations made in a subclass\'s persist() '
           'do not leak into the parent and its other subclasses)', node=upd_[0] if upd_ else None, kind='classmethod-own-set')
    chk.ob('PROV-auto-persist-copy', ap, any(norm(c.func) == 'cls._auto_persist.update' and [norm(a) for a in c.args] in ([f'*{ap.node.args.vararg.arg}'], [ap.node.args.vararg.arg]) for c in calls_in_func(ap)),
           'Savable.auto_persist adds exactly the named members', kind='adds-members')

    # member kinds: save_members <-> _get_value, as decision tables (any spelling: if/elif, early returns, extracted helper)
    from ..decisions import leaf, paths_under, valuations, value_on_path
    sm = prog.func('persistence.Savable.save_members')
    gv = prog.func('persistence.Savable._get_value')
    ffs = chk.ctx.facts.analyse(sm)
    scfg = ffs.cfg
    store_nodes = [n for n in scfg.nodes if n.kind == 'stmt' and isinstance(n.ast, ast.Assign) and isinstance(n.ast.targets[0], ast.Subscript)
                   and norm(n.ast.targets[0].value) == sm.params[2]]
    # one key expression for all stores (an extracted multi-return helper gives one store per kind), and it is the member's name
    loops_ = [l for l in ast.walk(sm.node) if isinstance(l, ast.For) and norm(l.iter) == sm.params[1]]
    keys_ = {norm(n.ast.targets[0].slice) for n in store_nodes}
    chk.ob('TAB-member-kinds', sm, len(keys_) == 1 and len(loops_) == 1 and keys_ == {norm(loops_[0].target)}, 'every member is stored under its own name', kind='stored-under-name')
    tags = {}
    tables = {'save': [], 'tags': []}
    ism = [c for c in calls_in_func(sm) if norm(c.func) in ('inspect.ismethod', 'ismethod')]
    isv = [c for c in calls_in_func(sm) if norm(c.func) == 'isinstance' and len(c.args) == 2 and norm(c.args[1]).split('.')[-1] == 'Savable']
    ok_shape = len(ism) == 1 and len(isv) == 1 and bool(store_nodes)
    chk.ob('TAB-member-kinds', sm, ok_shape, 'save_members tells methods and Savables apart from plain values', kind='kinds-tested')
    m_tag = s_tag = None
    if ok_shape:
        M, S = leaf(ffs, ism[0])[0], leaf(ffs, isv[0])[0]
        subj = norm(ism[0].args[0])
        loopvar = norm(store_nodes[0].ast.targets[0].slice)
        chk.ob('TAB-member-kinds', sm, norm(isv[0].args[0]) == subj, 'both tests look at the same value', kind='same-subject')
        dev = []
        seen_kinds = set()
        for val in valuations([M, S], lambda v: not (v[M] and v[S])):
            for path in paths_under(ffs, val, frozen=[subj]):
                idx = [i for i, m in enumerate(path) if m in store_nodes]
                if not idx:
                    continue
                i = idx[0]
                if len(idx) > 1 and path[-1] is scfg.exit and not any(m.kind == 'iter' for m in path[idx[0]:idx[1]]):
                    dev.append((dict(val), 'stored twice in one iteration', ''))
                stored = norm(value_on_path(path, i, path[i].ast.value))
                base = norm(value_on_path(path, i, ast.Name(id=subj, ctx=ast.Load())))
                # the first value ever bound to the subject on this path (the member itself)
                first = None
                for j in range(i):
                    a = path[j].ast
                    if path[j].kind == 'stmt' and isinstance(a, ast.Assign) and norm(a.targets[0]) == subj:
                        first = norm(value_on_path(path, j, a.value))
                        break
                first = first or subj
                want = f'{first}.__name__' if val[M] else (f'{first}.save()' if val[S] else f'copy.deepcopy({first})')
                seen_kinds.add('m' if val[M] else ('S' if val[S] else 'plain'))
                if stored != want:
                    dev.append((dict(val), stored, want))
                tcalls = [c for m in path[:i] for c in (walk_shallow(m.expr()) if m.expr() is not None else []) if isinstance(c, ast.Call) and last_name(c) == '_set_meta_type']
                tvals = [prog.fold(sm.module, c.args[2]) for c in tcalls if len(c.args) >= 3]
                if val[M]:
                    m_tag = tvals[0] if len(tvals) == 1 else None
                    if len(tvals) != 1:
                        dev.append((dict(val), f'tags {tvals}', 'one method tag'))
                elif val[S]:
                    s_tag = tvals[0] if len(tvals) == 1 else None
                    if len(tvals) != 1:
                        dev.append((dict(val), f'tags {tvals}', 'one savable tag'))
                elif tvals:
                    dev.append((dict(val), f'tags {tvals}', 'no tag for a plain value'))
                if tcalls and not all(len(c.args) >= 2 and norm(c.args[0]) == sm.params[2] and norm(c.args[1]) == loopvar for c in tcalls):
                    dev.append((dict(val), 'tag written for another member / state', ''))
        chk.ob('TAB-member-kinds', sm, not dev and seen_kinds == {'m', 'S', 'plain'},
               'decision table over (is a bound method, is a Savable): a method is stored by name, a Savable through its own save(), anything else as a deep copy; the kind is '
               'recorded as a meta tag for exactly the first two' + (f'; deviations {dev[:2]}' if dev else ''), kind='save-kinds')
    guard = any(isinstance(n, ast.If) and '__self__ is not self' in norm(n.test) and any(isinstance(x, ast.Raise) for x in n.body) for n in ast.walk(sm.node))
    chk.ob('TAB-member-kinds', sm, guard, 'methods of other objects are refused', kind='foreign-method-refused')
    # _get_value reverses exactly those tags
    ffg = chk.ctx.facts.analyse(gv)
    gcfg = ffg.cfg
    tagvar = None
    for n in ast.walk(gv.node):
        if isinstance(n, ast.Assign) and isinstance(n.value, ast.Call) and last_name(n.value) == '_get_meta_type' and isinstance(n.targets[0], ast.Name):
            tagvar = n.targets[0].id
    chk.ob('TAB-member-kinds', gv, tagvar is not None and m_tag is not None and s_tag is not None and m_tag != s_tag, 'the two kind tags are distinct constants, read back by _get_value',
           kind='tags-distinct')
    if tagvar is not None and m_tag is not None and s_tag is not None:
        consts = {}
        for t in gcfg.nodes:
            if t.kind == 'test':
                for x in ast.walk(t.ast.test):
                    if isinstance(x, ast.Compare) and len(x.ops) == 1 and norm(x.left) == tagvar:
                        consts[prog.fold(gv.module, x.comparators[0])] = leaf(ffg, x)[0]
        dev = []
        if m_tag in consts and s_tag in consts:
            A, B = consts[m_tag], consts[s_tag]
            raw = f'{gv.params[1]}[{gv.params[2]}]'
            for val in valuations([A, B], lambda v: not (v[A] and v[B])):
                for path in paths_under(ffg, val, frozen=[tagvar]):
                    rets = [i for i, m in enumerate(path) if m.kind == 'return']
                    if not rets or path[-1] is not gcfg.exit:
                        continue
                    i = rets[-1]
                    got = norm(value_on_path(path, i, path[i].ast.value))
                    want = f'getattr(self, {raw})' if val[A] else (f'Savable.load({raw}, {gv.params[3]})' if val[B] else raw)
                    if got != want:
                        dev.append((dict(val), got, want))
        else:
            dev.append(('tags compared', sorted(map(str, consts)), [m_tag, s_tag]))
        chk.ob('TAB-member-kinds', gv, not dev, f'decision table over the tag read back: {m_tag!r} re-binds the named method on the new object, {s_tag!r} loads the nested state with the same '
               f'load context, no tag hands the stored value back' + (f'; deviations {dev[:2]}' if dev else ''), kind='load-kinds')
    lm = prog.func('persistence.Savable.load_members')
    from ..rules import Resolver as _R
    ok = any(isinstance(c, ast.Call) and norm(c.func) == 'setattr' and [norm(a) for a in c.args[:2]] == ['self', 'member'] and '_get_value' in _R(lm).text(c.args[2]) for c in calls_in_func(lm))
    chk.ob('TAB-member-kinds', lm, ok, 'load_members assigns every declared member from _get_value', kind='load-assigns-all')
    for q, fn in (('persistence.Savable.save_instance_state', 'save_members'), ('persistence.Savable.load_instance_state', 'load_members')):
        f = prog.func(q)
        c = [x for x in calls_in_func(f, fn)]
        chk.ob('TAB-member-kinds', f, len(c) == 1 and norm(c[0].args[0]) == 'self._auto_persist', f'{f.name} handles exactly the declared members', kind='declared-members')

    loader_precedence(chk)
    eol = prog.func('persistence._ensure_object_loader')
    # kind agreement: save() records the identifier of the loader's CLASS, so the loaded object must be instantiated
    sv = prog.func('persistence.Savable.save')
    rec = [c for c in calls_in_func(sv, 'set_custom_meta')]
    ident = None
    fs = chk.ctx.facts.analyse(sv)
    if rec:
        v = rec[0].args[2] if len(rec[0].args) >= 3 else None
        if isinstance(v, ast.Name):
            vals = [n.value for n in ast.walk(sv.node) if isinstance(n, ast.Assign) and norm(n.targets[0]) == v.id]
            v = vals[0] if len(vals) == 1 else None
        ident = norm(v) if v is not None else None
    records_class = ident is not None and '.__class__' in ident or (ident is not None and 'type(' in ident)
    # decision table over "the save context has a loader": recorded on every way out when it has one, on none when it has not (the test may be made on the
    # attribute or on a local that took its value)
    from ..decisions import paths_under as _pu_s
    LK = f'{sv.params[1]}.loader is None'
    rec_nodes = {m.id for c_ in rec for m in fs.cfg.nodes_containing(c_)}
    try:
        with_l = [p_ for p_ in _pu_s(fs, {LK: False}, frozen=[sv.params[1]]) if p_[-1] is fs.cfg.exit]
        without = [p_ for p_ in _pu_s(fs, {LK: True}, frozen=[sv.params[1]]) if p_[-1] is fs.cfg.exit]
        ok = len(rec) == 1 and bool(with_l) and bool(without) and all(any(m.id in rec_nodes for m in p_) for p_ in with_l) and not any(m.id in rec_nodes for p_ in without for m in p_)
    except RuntimeError:
        ok = False
    chk.ob('PROV-loader-precedence', sv, ok, 'save() records the loader in the saved state exactly when the save context has one', node=rec[0] if rec else sv.node, kind='recorded-iff-custom')
    uses = [n for n in ast.walk(eol.node) if isinstance(n, ast.Assign) and norm(n.targets[0]) == 'loader' and ('loader_identifier' in _R(eol).text(n.value) or 'get_custom_meta' in _R(eol).text(n.value))]
    if uses and ident is not None:
        val = _R(eol).expand(uses[0].value)
        instantiated = isinstance(val, ast.Call) and isinstance(val.func, ast.Call) and last_name(val.func) == 'load_object'
        chk.ob('SYM-loader-kind', eol, instantiated == bool(records_class),
               f'save() records {"the loader\'s class" if records_class else "the loader object"} ({ident}); what load puts into the context must be '
               f'{"an instance: the loaded class called" if records_class else "that object itself"} -- its consumers call load_object()/identify_object() on it '
               f'(found: {norm(val)})', node=uses[0], kind='class-vs-instance')
    class_identified_by_loader(chk)
    class_loaded_by_loader(chk)
    ld = prog.func('persistence.Savable.load')

    # 3. meta key paths agree between paired writer / reader helpers
    pairs = [('set_custom_meta', 'get_custom_meta'), ('_set_class_name', '_get_class_name'), ('_set_meta_type', '_get_meta_type')]
    for w, r in pairs:
        wf, rf = prog.func(f'persistence.Savable.{w}'), prog.func(f'persistence.Savable.{r}')
        wp, rp = writer_path(prog, wf), reader_path(prog, rf)
        chk.need(wp is not None and rp is not None, f'cannot derive the key path of {w}/{r}')
        chk.ob('SYM-meta-path', rf, [str(x) for x in wp] == [str(x) for x in rp],
               f'{w} writes {wp} and {r} reads {rp}: ' + ('same path' if [str(x) for x in wp] == [str(x) for x in rp] else
                                                         'a value recorded by the writer is never found by the reader'), kind='path-agreement')

    # 4. unknown class -> ValueError
    lo_f = prog.func('loaders.DefaultObjectLoader.load_object')
    lcfg = cfg_of(lo_f)
    bad = []
    for n in lcfg.nodes:
        if n.kind == 'raisestmt' and n.ast.exc is not None:
            if 'ValueError' not in norm(n.ast.exc):
                bad.append(norm(n.ast.exc))
    handlers = [h for t in ast.walk(lo_f.node) if isinstance(t, ast.Try) for h in t.handlers]
    conv = all(any(isinstance(s, ast.Raise) and s.exc is not None and 'ValueError' in norm(s.exc) for s in h.body) for h in handlers)
    kinds = sorted(norm(h.type) for h in handlers if h.type is not None)
    chk.ob('ESC-unknown-class', lo_f, not bad and conv and {'ImportError', 'AttributeError', 'ValueError'} <= set(kinds),
           f'every failure of load_object (bad format, missing module, missing attribute) is converted to ValueError (handlers: {kinds})', kind='valueerror-only')
    tr = [t for t in ast.walk(ld.node) if isinstance(t, ast.Try)]
    ok = any(any(h.type is not None and 'KeyError' in norm(h.type) and any(isinstance(s, ast.Raise) and 'ValueError' in norm(s.exc) for s in h.body) for h in t.handlers) for t in tr)
    chk.ob('ESC-unknown-class', ld, ok, 'a saved state without a class name is a ValueError', kind='missing-class-name')

    # a nested Savable is written with the loader of the save it is part of: on load it is resolved through the OUTER context's loader
    # (_get_value passes the load context on), so it has to be identified by that loader when saved -- every nested .save() passes the save context
    n_nested = 0
    for f_ in prog.all_funcs():
        if f_.name not in ('save_instance_state', 'save_members') or f_.owner_class is None:
            continue
        ctxp = [p_ for p_ in f_.params if 'context' in p_]
        # the load side of this class: does it hand the OUTER load context to the nested load?
        lname = '_get_value' if f_.name == 'save_members' else 'load_instance_state'
        lf_ = f_.owner_class.vmethods.get(lname)
        outer = False
        if lf_ is not None:
            lctx = [p_ for p_ in lf_.params if 'context' in p_]
            outer = any(last_name(c2) == 'load' and len(c2.args) >= 2 and isinstance(c2.args[1], ast.Name) and c2.args[1].id in lctx for c2 in calls_in_func(lf_))
        if not outer:
            continue   # the nested state is loaded with a context of its own (no loader in it): default on both sides
        for c in calls_in_func(prog.view(f_), 'save'):   # (the view: the nested save may sit in an extracted private helper)
            if isinstance(c.func, ast.Attribute) and norm(c.func.value) not in ('super()',) and not norm(c.func.value).startswith('pickle') and not norm(c.func.value).startswith('yaml'):
                n_nested += 1
                passes = bool(ctxp) and any(isinstance(x, ast.Name) and x.id in ctxp for a_ in list(c.args) + [k.value for k in c.keywords] for x in ast.walk(a_))
                chk.ob('PROV-loader-precedence', f_, passes, f'{norm(c)}: the nested object is saved ' + ('with the save context of its owner' if passes else
                       'WITHOUT the save context: its class is identified by the global default loader although the load side resolves it through the loader of the outer context -- a '
                       'per-save custom loader with its own identifier scheme cannot load what it saved'), node=c, kind='nested-save-passes-context')
    chk.units['nested_saves'] = n_nested
    # a class that replaces recreate_from still restores what its subclasses declare: it goes through load_instance_state / load_members (or super().recreate_from)
    sv_ = prog.cls('persistence.Savable')
    for c_ in prog.subclasses(sv_):
        rf_ = c_.vmethods.get('recreate_from')
        if rf_ is None:
            continue
        reach = {last_name(x) for x in calls_in_func(rf_)} | {norm(x.args[0]).split('.')[-1] for x in calls_in_func(rf_, 'call_with_super_check') if x.args}
        ok_ = bool(reach & {'load_instance_state', 'load_members', 'recreate_from'})
        chk.ob('TAB-member-kinds', rf_, ok_, f'{c_.name}.recreate_from restores the declared members through load_instance_state / load_members' + ('' if ok_ else
               ': it rebuilds the object by hand from the keys it knows, so members a subclass declares (auto_persist / persist()) are saved but never restored'), kind='recreate-restores-declared')
    # members declared by EVERY base are inherited: a class with two Savable bases gets the union, not just the set attribute lookup finds first
    wr_ = prog.func('persistence.auto_persist.wrapped')
    src_ = [norm(n.value) for n in ast.walk(wr_.node) if isinstance(n, ast.Assign) and norm(n.targets[0]).endswith('._auto_persist')]
    union = any('__mro__' in t or '__bases__' in t or 'mro()' in t for t in src_) or any(isinstance(x, (ast.For, ast.comprehension)) and ('__mro__' in norm(x.iter) or '__bases__' in norm(x.iter)) for x in ast.walk(wr_.node))
    chk.ob('PROV-auto-persist-copy', wr_, union, 'the decorator starts from the members of ALL bases' + ('' if union else ': it copies `cls._auto_persist`, i.e. the one set that attribute lookup '
           'finds first along the MRO -- with two bases that both declare members, those of the second base are silently not persisted'), kind='inherits-all-bases')
    from .common import outcome_read_after_cancel_test
    outcome_read_after_cancel_test(chk, 'DISP-future-state', 'persistence.SavableFuture.save_instance_state', 'saving a future in any state (a cancelled one included)')
    # 5. futures: a branch per state, exception saved when failed
    rf = prog.func('persistence.SavableFuture.recreate_from')
    states = {}
    for n in ast.walk(rf.node):
        if isinstance(n, ast.If) and isinstance(n.test, ast.Compare) and norm(n.test.left) == 'state':
            states[norm(n.test.comparators[0]).split('.')[-1]] = n
    for st in ('_PENDING', '_FINISHED', '_CANCELLED'):
        chk.ob('DISP-future-state', rf, st in states, f'a saved future in state {st} has a branch', kind=f'branch:{st}', expr=st)
    if '_CANCELLED' in states:
        chk.ob('DISP-future-state', rf, any(isinstance(c, ast.Call) and last_name(c) == 'cancel' for s in states['_CANCELLED'].body for c in ast.walk(s)), 'a cancelled future is restored cancelled', kind='cancelled-restored')
    if '_FINISHED' in states:
        body = states['_FINISHED'].body   # the branch itself: an ``elif`` chain hangs the other states off its orelse
        se = [c for s_ in body for c in ast.walk(s_) if isinstance(c, ast.Call) and last_name(c) == 'set_exception']
        sr = [c for s_ in body for c in ast.walk(s_) if isinstance(c, ast.Call) and last_name(c) == 'set_result']
        ok = len(se) == 1 and len(sr) == 1 and norm(sr[0].args[0]) == 'result' and norm(se[0].args[0]) == 'exception'
        chk.ob('DISP-future-state', rf, ok, 'a finished future is restored with its exception if one was saved, else with its result', kind='finished-restored')
    if '_PENDING' in states:
        body = states['_PENDING'].body
        writes = [c for s_ in body for c in ast.walk(s_) if isinstance(c, ast.Call) and last_name(c) in ('set_result', 'set_exception', 'cancel')]
        chk.ob('DISP-future-state', rf, not writes, 'a pending future is restored pending', kind='pending-restored')
    sf = prog.func('persistence.SavableFuture.save_instance_state')
    # the store of the exception, with what is known there: the future is done, and it has an exception (however the tests are nested / named)
    fsf = chk.ctx.facts.analyse(sf)
    st_ = [m for m in fsf.cfg.nodes if m.kind == 'stmt' and isinstance(m.ast, ast.Assign) and isinstance(m.ast.targets[0], ast.Subscript)
           and prog.fold(sf.module, m.ast.targets[0].slice, sf.owner_class) == 'exception' and fsf.canon.key(m.ast.value) == 'self.exception()']
    ok = len(st_) == 1 and ('T', 'self.done()') in fsf.at(st_[0]) and ('notnone', 'self.exception()') in fsf.at(st_[0])
    chk.ob('DISP-future-state', sf, ok, 'the exception of a failed future is saved', kind='exception-saved')
    chk.assumptions.append('equality of restored plain values depends on copy.deepcopy / the serialisation medium: not decided')
