"""C12 -- outputs are stored only if valid; success requires spec-conforming outputs."""
from __future__ import annotations

import ast
from typing import List, Set

from ..cfg import cfg_of, no_exc
from ..model import AnalysisError, EnumMember, is_self_attr, norm, unparse, walk_shallow
from ..report import Check
from ..rules import attr_writers, branch_reaches_exit, calls_in_func, last_name, node_has_call
from .c11 import typed_dynamic_leaf_checked, verdict_propagated


def _calls(n) -> List[ast.Call]:
    e = n.expr()
    return [x for x in walk_shallow(e) if isinstance(x, ast.Call)] if e is not None else []


def fallback_keeps_result(chk: Check, rule: str) -> None:
    """When the outputs do not satisfy the spec, on_finish falls back to FINISHED with the SAME result and successful=False (shared with C09: the result of a work chain
    is the return_ code / the value of its last step whatever the outputs look like)."""
    of = chk.prog.func('processes.Process.on_finish')
    built = [c for c in calls_in_func(of) if chk.ctx.calls.state_ctor_label(of, c) is not None]
    ok = len(built) == 1 and repr(chk.ctx.calls.state_ctor_label(of, built[0])) == 'ProcessState.FINISHED'
    if ok:
        from ..rules import Resolver
        rs = Resolver(of)
        kws = {k.arg: norm(rs.expand(k.value)) for k in built[0].keywords}
        ok = kws.get('result') == of.params[1] and kws.get('successful') == 'False'
    chk.ob(rule, of, ok, 'the fallback is FINISHED with the SAME result and successful=False', node=built[0] if built else None, kind='same-result-unsuccessful')


def implicit_namespace_takes_nothing_from_port(chk: Check, rule: str) -> None:
    """A namespace created implicitly while declaring ``a.b.c`` takes nothing from the port being declared (else which of its ports is declared first decides whether
    the namespace -- and with it every REQUIRED port below -- is enforced at all).  Shared with C11 (required inputs)."""
    prog = chk.prog
    cp = prog.func('process_spec.ProcessSpec._create_port')
    kwn = cp.node.args.kwarg.arg if cp.node.args.kwarg else 'kwargs'
    mk = [c for c in calls_in_func(cp, 'create_port_namespace')]
    ok = len(mk) == 1 and not any(isinstance(x, ast.Name) and x.id == kwn for a_ in list(mk[0].args) + [k.value for k in mk[0].keywords] for x in ast.walk(a_))
    chk.ob(rule, cp, ok, 'the namespaces implied by a dotted port name are created with the namespace defaults, independent of the options of the port being declared',
           node=mk[0] if mk else None, kind='options-independent-of-port')


def run(chk: Check) -> None:
    prog = chk.prog
    # the end-of-run validation of the outputs goes through the same loop over the declared ports as the inputs do
    from .common import every_declared_port_validated
    every_declared_port_validated(chk, 'PROV-downgrade')
    # "stored values are what the process later reports": the outputs of a rebuilt process are its own -- a deep copy on the way into and out of a checkpoint -- so a later
    # out() of one process never changes what another (or the bundle) reports (shared with C07)
    from .c07 import io_mappings_encoded
    io_mappings_encoded(chk, 'OWN-outputs')
    # what out() accepts for a class is what THAT class declared: exposing its outputs elsewhere copies the ports, a later change of the exposing spec does not
    # reach back into the source spec (shared with C15)
    from .c15 import absorbed_ports_are_copies
    absorbed_ports_are_copies(chk, 'OWN-output-spec')
    out = prog.func('processes.Process.out')
    cfg = cfg_of(out)
    ff = chk.ctx.facts.analyse(out)
    vparam = out.params[2] if len(out.params) > 2 else 'value'

    # aliases of self._outputs inside out(): locals assigned from it / from setdefault on an alias
    aliases: Set[str] = set()
    changed = True
    while changed:
        changed = False
        for n in ast.walk(out.node):
            if isinstance(n, ast.Assign) and len(n.targets) == 1 and isinstance(n.targets[0], ast.Name):
                v = n.value
                src = None
                if norm(v) in ('self._outputs', 'self.outputs'):
                    src = 'self'
                elif isinstance(v, ast.Call) and isinstance(v.func, ast.Attribute) and v.func.attr == 'setdefault' and norm(v.func.value) in aliases:
                    src = 'alias'
                elif isinstance(v, ast.Subscript) and norm(v.value) in aliases:
                    src = 'alias'
                if src and n.targets[0].id not in aliases:
                    aliases.add(n.targets[0].id)
                    changed = True
    aliases |= {'self._outputs', 'self.outputs'}
    stores = []
    for n in cfg.nodes:
        if n.kind == 'stmt' and isinstance(n.ast, ast.Assign):
            for t in n.ast.targets:
                if isinstance(t, ast.Subscript) and norm(t.value) in aliases:
                    stores.append(n)
        for c in _calls(n):
            if isinstance(c.func, ast.Attribute) and c.func.attr in ('setdefault', 'update', '__setitem__') and norm(c.func.value) in aliases:
                stores.append(n)
    chk.floor('DOM-validate-before-store', len(stores), 1)
    # the validation-error test that raises
    tests = [t for t in cfg.nodes if t.kind == 'test' and ('T', 'validation_error') in ff.cond_atoms(t.ast.test, True)]
    good = [t for t in tests if not branch_reaches_exit(cfg, t, 'true')]
    raises_ve = [n for n in cfg.nodes if n.kind == 'raisestmt' and n.ast.exc is not None and (norm(n.ast.exc).startswith('ValueError(')) and any(
        n.id in cfg.reachable([s for s, l in t.succ if l == 'true'], include_src=True, edge_ok=no_exc) for t in good)]
    chk.ob('DOM-validate-before-store', out, bool(good) and bool(raises_ve), 'a validation error makes out() raise ValueError', kind='error-raises-valueerror')
    for s in stores:
        ok = bool(good) and cfg.must_pass(cfg.entry, [s], lambda m: m in good, edge_ok=no_exc)
        chk.ob('DOM-validate-before-store', out, ok, 'this write into the outputs happens only after the validation verdict was examined and found clean (a rejected value leaves the '
               'outputs unchanged -- not even an empty namespace is created)', node=s.ast, kind='store-after-check')
    # both validation routes feed that verdict
    vsites = [c for c in calls_in_func(out) if last_name(c) in ('validate', 'validate_dynamic_ports')]
    chk.ob('DOM-validate-before-store', out, len(vsites) == 2, 'a declared port validates the value itself, an undeclared name is validated against the namespace\'s dynamic rules', kind='two-routes')
    for c in vsites:
        ok, why = verdict_propagated(ff, c)
        chk.ob('DOM-validate-before-store', out, ok, f'verdict of {norm(c.func)}: {why}', node=c, kind='verdict')
        if last_name(c) == 'validate':
            chk.ob('DOM-validate-before-store', out, [norm(a) for a in c.args] == [vparam], 'the value validated is the value emitted', node=c, kind='validates-the-value')
        else:
            ok = len(c.args) == 1 and isinstance(c.args[0], ast.Dict) and [norm(v) for v in c.args[0].values] == [vparam] and [norm(k) for k in c.args[0].keys] == ['port_name']
            chk.ob('DOM-validate-before-store', out, ok, 'the dynamic check sees the emitted value under the emitted name', node=c, kind='validates-the-value')
    from .c11 import namespace_value_is_mapping
    namespace_value_is_mapping(chk, 'DOM-validate-before-store')
    from .common import sentinels_are_unique_objects
    sentinels_are_unique_objects(chk, 'DOM-validate-before-store')
    typed_dynamic_leaf_checked(chk, 'DOM-validate-before-store')
    # out('a.b.c', v) creates the undeclared sub-namespaces on the fly: they must constrain what goes below them exactly as
    # the dynamic namespace they were created in (type, validator, dynamic-ness), else the value is validated against nothing
    gp = prog.func('ports.PortNamespace.get_port')
    gf = chk.ctx.facts.analyse(gp)
    made = [c for c in calls_in_func(gp) if (norm(c.func) in ('self.__class__', 'type(self)', 'PortNamespace', 'self.create_port_namespace')) and c.keywords]
    chk.ob('PROV-dynamic-subnamespace', gp, len(made) == 1, 'get_port(create_dynamically=True) creates the missing sub-namespace at one site', kind='creation-site')
    if made:
        kws = {k.arg: norm(k.value) for k in made[0].keywords if k.arg}
        for prop_ in ('valid_type', 'validator', 'dynamic'):
            chk.ob('PROV-dynamic-subnamespace', gp, kws.get(prop_) in (f'self.{prop_}', f'self._{prop_}'), f'the namespace created on the fly inherits {prop_} from the dynamic namespace it is created in '
                   f'(got {kws.get(prop_)!r})', node=made[0], kind=f'inherits:{prop_}')
        ok = all(('T', 'create_dynamically') in fs and ('T', 'self.dynamic') in {(a[0], a[1]) for a in fs if len(a) == 2} or
                 (('T', 'create_dynamically') in fs and any(a[0] == 'T' and 'dynamic' in str(a[1]) for a in fs)) for _, fs in gf.site_facts(made[0]))
        chk.ob('PROV-dynamic-subnamespace', gp, ok, 'a namespace is created only when asked to and only inside a dynamic namespace', node=made[0], kind='only-when-dynamic')
    # the value stored is the value given, under the name given
    final = [s for s in stores if isinstance(s.ast, ast.Assign) and norm(s.ast.value) == vparam]
    chk.ob('DOM-validate-before-store', out, len(final) == 1 and norm(final[0].ast.targets[0].slice) == 'port_name', 'the value emitted is what is stored, under the port name', kind='stores-the-value')
    # a namespace created implicitly while declaring ``a.b.c`` takes nothing from the port being declared (else which of its ports is declared first
    # decides whether the namespace -- and with it every REQUIRED port below -- is enforced at all)
    implicit_namespace_takes_nothing_from_port(chk, 'PROV-implicit-namespace')
    # OWN: nobody else mutates _outputs
    for f, node in __import__('plumpy_sa.rules', fromlist=['effective_writers']).effective_writers(prog, '_outputs'):
        ok = f.qualname in ('processes.Process.__init__', 'processes.Process.load_instance_state')
        chk.ob('OWN-outputs', f, ok, 'the outputs mapping is replaced only at construction / load', node=node, kind='replacer', expr='_outputs store')
    proc = prog.cls('processes.Process')
    for c in [proc] + prog.subclasses(proc):
        for f in c.emethods.values():
            if f is out:
                continue
            for n in ast.walk(f.node):
                bad = False
                if isinstance(n, ast.Assign):
                    bad = any(isinstance(t, ast.Subscript) and norm(t.value) in ('self._outputs', 'self.outputs') for t in n.targets)
                if isinstance(n, ast.Call) and isinstance(n.func, ast.Attribute) and norm(n.func.value) in ('self._outputs', 'self.outputs') and n.func.attr in (
                        'update', 'setdefault', 'pop', 'clear', '__setitem__', 'popitem'):
                    bad = True
                if bad:
                    chk.ob('OWN-outputs', f, False, 'the outputs are changed outside out(): the value bypasses validation', node=n, kind='foreign-mutation')
    # 2. emitted notification on the storing path with the same arguments
    em = [n for n in cfg.nodes if any(norm(c.func) == 'self.on_output_emitted' for c in _calls(n))]
    ok = len(em) == 1 and bool(final) and cfg.must_pass(final[0], [cfg.exit], lambda m: m in em, edge_ok=no_exc) and cfg.must_pass(cfg.entry, em, lambda m: m in final, edge_ok=no_exc)
    chk.ob('DOM-emitted', out, ok, 'listeners are told about an output exactly when it was stored', kind='emitted-iff-stored')
    if em:
        c = [c for c in _calls(em[0]) if norm(c.func) == 'self.on_output_emitted'][0]
        chk.ob('DOM-emitted', out, [norm(a) for a in c.args] == [out.params[1], vparam, 'dynamic'], 'with the port, the value and whether the port was dynamic', node=c, kind='emitted-args')
    oe = prog.func('processes.Process.on_output_emitted')
    c = [x for x in calls_in_func(oe, 'fire_event')]
    ok = len(c) == 1 and [norm(a) for a in c[0].args] == ['ProcessListener.on_output_emitted', 'self'] + oe.params[1:]
    chk.ob('DOM-emitted', oe, ok, 'on_output_emitted forwards (process, port, value, dynamic) to the listeners', kind='listener-args')
    # dynamic flag is False for declared ports, True otherwise
    dyn = {norm(n.ast.value): n for n in cfg.nodes if n.kind == 'stmt' and isinstance(n.ast, ast.Assign) and norm(n.ast.targets[0]) == 'dynamic'}
    chk.ob('DOM-emitted', out, set(dyn) == {'True', 'False'}, 'dynamic is decided per route', kind='dynamic-flag')

    # 3. downgrade in on_finish
    of = prog.func('processes.Process.on_finish')
    fcfg = cfg_of(of)
    f2 = chk.ctx.facts.analyse(of)
    sparam = of.params[2]
    val = [n for n in fcfg.nodes if any(norm(c.func) == 'self.spec().outputs.validate' for c in _calls(n))]
    ok = len(val) == 1 and ('T', sparam) in f2.at(val[0])
    chk.ob('PROV-downgrade', of, ok, 'the collected outputs are validated against the output spec exactly when the step reported success', kind='validated-iff-successful')
    if val:
        c = [c for c in _calls(val[0]) if last_name(c) == 'validate'][0]
        chk.ob('PROV-downgrade', of, [norm(strip) for strip in map(lambda a: a, c.args)] in (['self.outputs'], ['self._outputs']), 'what is validated is the outputs mapping', node=c, kind='validates-outputs')
    raises = [n for n in fcfg.nodes if n.kind == 'raisestmt' and n.ast.exc is not None and 'StateEntryFailed' in norm(n.ast.exc)]
    ok = len(raises) == 1 and ('T', 'validation_error') in f2.at(raises[0])
    chk.ob('PROV-downgrade', of, ok, 'invalid outputs make the entry fail over to another state (StateEntryFailed) -- only then', kind='raises-on-error')
    fallback_keeps_result(chk, 'PROV-downgrade')
    built = [c for c in calls_in_func(of) if chk.ctx.calls.state_ctor_label(of, c) is not None]
    if raises and built:
        arg = raises[0].ast.exc.args[0] if isinstance(raises[0].ast.exc, ast.Call) and raises[0].ast.exc.args else None
        ok = arg is not None and (arg is built[0] or (isinstance(arg, ast.Name) and any(isinstance(n, ast.Assign) and norm(n.targets[0]) == arg.id and n.value is built[0] for n in ast.walk(of.node))))
        chk.ob('PROV-downgrade', of, ok, 'that state is the one carried by StateEntryFailed', kind='carried')
    # the unsuccessful entry does not validate again and resolves the future
    sr = [n for n in fcfg.nodes if any(last_name(c) == 'set_result' for c in _calls(n))]
    ok = bool(sr) and fcfg.must_pass(fcfg.entry, [fcfg.exit], lambda m: m in sr, edge_ok=no_exc)
    chk.ob('PROV-downgrade', of, ok, 'every entry that does not fail over resolves the future', kind='future-resolved')
    tt = prog.func('base.state_machine.StateMachine.transition_to')
    hs = [h for t in ast.walk(tt.node) if isinstance(t, ast.Try) for h in t.handlers if h.type is not None and norm(h.type) == 'StateEntryFailed']
    ok = len(hs) == 1
    if ok:
        h = hs[0]
        # the state entered in the handler is the one the exception carries -- directly, or through a name bound to it in the handler
        carried = f'{h.name}.state'
        bound = {norm(s.targets[0]) for s in h.body if isinstance(s, ast.Assign) and len(s.targets) == 1 and norm(s.value) == carried}
        enters = [c for s in h.body for c in ast.walk(s) if isinstance(c, ast.Call) and last_name(c) == '_enter_next_state']
        ok = len(enters) == 1 and len(enters[0].args) == 1 and (norm(enters[0].args[0]) == carried or norm(enters[0].args[0]) in bound)
    chk.ob('PROV-downgrade', tt, ok, 'transition_to enters the state carried by StateEntryFailed', kind='enters-carried-state')
    sef = prog.func('base.state_machine.StateEntryFailed.__init__')
    chk.ob('PROV-downgrade', sef, any(isinstance(n, ast.Assign) and norm(n.targets[0]) == 'self.state' and norm(n.value) == sef.params[1] for n in ast.walk(sef.node)),
           'StateEntryFailed keeps the state it is given', kind='exception-keeps-state')
    chk.assumptions.append('which values the output spec accepts is validation logic shared with C11 and not decided here')
