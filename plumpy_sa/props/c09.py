"""C09 -- a WorkChain executes its outline as the structured program it denotes.

Only clauses that are path properties of one function are decided (return propagation, short-circuit, re-evaluation, one
instruction per step, step-by-one sequencing).  This decides these clauses, NOT the order of calls over all outlines.
"""
from __future__ import annotations

import ast
from typing import List

from ..cfg import cfg_of, no_exc
from ..model import AnalysisError, norm, unparse, walk_shallow
from ..report import Check
from ..rules import Resolver, branch_reaches_exit, call_sites, calls_in_func, last_name


def _calls(n) -> List[ast.Call]:
    e = n.expr()
    return [x for x in walk_shallow(e) if isinstance(x, ast.Call)] if e is not None else []


def run(chk: Check) -> None:
    prog = chk.prog
    do_step(chk)
    return_shapes(chk)
    if_stepper(chk)
    while_stepper(chk)
    block_stepper(chk)
    ownership(chk)
    child_value_handed_up(chk, 'DOM-value-propagation')
    # "with that value as the result": what a step function returns reaches the work chain unchanged through the coroutine wrapper of the run step (shared with C13)
    from .c13 import step_wrapper_returns_result_unchanged
    step_wrapper_returns_result_unchanged(chk, 'DOM-return-propagation')
    # "... in every case the result is the return_ code or the value returned by the last step": also when the collected outputs turn out not to satisfy the spec
    # (the process is then unsuccessful, with the same result) -- shared with C12
    from .c12 import fallback_keeps_result
    fallback_keeps_result(chk, 'DOM-return-propagation')
    # "if_ taking the first branch whose predicate is true": also after a checkpoint taken just before the if_ -- a loaded conditional stepper has a child only if one was
    # saved, otherwise the predicates are (still) to be evaluated (shared with C08)
    from .c08 import load_restores_only_saved_children
    load_restores_only_saved_children(chk, 'DOM-if-short-circuit')


def do_step(chk: Check) -> None:
    prog = chk.prog
    ds = prog.func('workchains.WorkChain._do_step')
    cfg = cfg_of(ds)
    steps = [n for n in cfg.nodes if any(norm(c.func) == 'self._stepper.step' for c in _calls(n))]
    chk.ob('DOM-one-instruction', ds, len(steps) == 1, 'one outline instruction is executed per call of _do_step (one RUNNING state)', kind='single-step-call')
    # the decision, as a table over the three leaves it depends on (any spelling: compound test, early returns, De Morgan)
    from ..decisions import paths_under, valuations
    ff = chk.ctx.facts.analyse(ds)
    unpack = [n for n in ast.walk(ds.node) if isinstance(n, ast.Assign) and isinstance(n.targets[0], ast.Tuple) and len(n.targets[0].elts) == 2
              and isinstance(n.value, ast.Call) and norm(n.value.func) == 'self._stepper.step']
    chk.need(len(unpack) == 1, '_do_step: "finished, value = self._stepper.step()" not found')
    fin, rv = [norm(e) for e in unpack[0].targets[0].elts]
    p, q, r = fin, f'{rv} is None', f'isinstance({rv}, ToContext)'
    bad = []
    n_paths = 0
    reg_bad = []
    for val in valuations([p, q, r], lambda v: not (v[q] and v[r])):
        expect = 'command' if (not val[p] and (val[q] or val[r])) else 'value'
        for path in paths_under(ff, val, frozen=[fin, rv]):
            if path[-1] is not cfg.exit:
                continue
            n_paths += 1
            rets = [m for m in path if m.kind == 'return']
            got = 'fall-through'
            if rets:
                v_ = rets[-1].ast.value
                got = 'command' if isinstance(v_, ast.Call) and last_name(v_) in ('Continue', 'Wait') else ('value' if v_ is not None and norm(v_) == rv else norm(v_))
            if got != expect:
                bad.append((dict(val), got))
            registered = any(any(norm(c.func) == 'self.to_context' for c in _calls(m)) for m in path)
            if expect == 'command' and registered != val[r]:
                reg_bad.append(dict(val))
    chk.units['do_step_paths'] = n_paths
    chk.ob('DOM-one-instruction', ds, not bad and n_paths >= 6, 'decision table over (finished, value is None, value is a ToContext): the chain goes on (Continue/Wait) exactly '
           'when the stepper is not finished and the step returned None or a context assignment; in every other case the value itself is returned' +
           (f'; deviations: {bad[:3]}' if bad else ''), kind='continue-condition')
    chk.ob('DOM-one-instruction', ds, not reg_bad, 'a returned ToContext -- and only that -- is registered through to_context before continuing', kind='tocontext-iff')
    rets = [n for n in cfg.nodes if n.kind == 'return']
    cont = [r_ for r_ in rets if isinstance(r_.ast.value, ast.Call) and last_name(r_.ast.value) in ('Continue', 'Wait')]
    chk.ob('DOM-one-instruction', ds, bool(cont) and all(r_.ast.value.args and norm(r_.ast.value.args[0]) == 'self._do_step' for r_ in cont), 'the chain continues with _do_step itself',
           kind='continues-with-do-step')
    from .common import spec_built_per_class
    spec_built_per_class(chk, 'TAB-outline-per-class')
    from .common import context_assignment_is_any_dict
    context_assignment_is_any_dict(chk, 'DOM-one-instruction')
    # return propagation
    handlers = [h for tr in ast.walk(ds.node) if isinstance(tr, ast.Try) for h in tr.handlers if h.type is not None and norm(h.type) == '_PropagateReturn']
    ok = len(handlers) == 1
    if ok:
        h = handlers[0]
        # what the handler binds (one tuple assignment or two plain ones): the pair the step would have returned is (True, exit code)
        bound = {}
        for s_ in h.body:
            if isinstance(s_, ast.Assign) and len(s_.targets) == 1:
                if isinstance(s_.targets[0], ast.Tuple) and isinstance(s_.value, ast.Tuple) and len(s_.targets[0].elts) == len(s_.value.elts):
                    bound.update({norm(a_): norm(b_) for a_, b_ in zip(s_.targets[0].elts, s_.value.elts)})
                elif isinstance(s_.targets[0], ast.Name):
                    bound[norm(s_.targets[0])] = norm(s_.value)
        tr = [t for t in ast.walk(ds.node) if isinstance(t, ast.Try) and h in t.handlers][0]
        unp = [s_.targets[0] for s_ in tr.body if isinstance(s_, ast.Assign) and isinstance(s_.targets[0], ast.Tuple) and len(s_.targets[0].elts) == 2
               and isinstance(s_.value, ast.Call) and norm(s_.value.func) == 'self._stepper.step']
        ok = len(unp) == 1 and bound == {norm(unp[0].elts[0]): 'True', norm(unp[0].elts[1]): f'{h.name}.exit_code'}
        # ... or the handler hands the exit code back at once (finished, so the value IS the result; the decision table above covers the rest of _do_step)
        direct = [s_ for s_ in h.body if isinstance(s_, ast.Return)]
        ok = ok or (len(unp) == 1 and not bound and len(direct) == 1 and direct[0] is h.body[-1] and norm(direct[0].value) == f'{h.name}.exit_code')
        ok = ok and any(norm(c.func) == 'self._stepper.step' for s in tr.body for c in ast.walk(s) if isinstance(c, ast.Call))
    chk.ob('DOM-return-propagation', ds, ok, 'return_ raised anywhere below is caught here and means (finished, exit code)', kind='caught-in-do-step')
    pr = prog.cls('workchains._PropagateReturn')
    chk.ob('DOM-return-propagation', pr.qualname, 'BaseException' in [b if isinstance(b, str) else b.name for b in pr.bases], '_PropagateReturn is a BaseException: '
           'no "except Exception" between the return instruction and _do_step can swallow it', kind='base-exception')
    st = prog.cls('workchains.Stepper')
    for c in [st] + prog.subclasses(st):
        for f in c.emethods.values():
            for tr in [t for t in ast.walk(f.node) if isinstance(t, ast.Try)]:
                for h in tr.handlers:
                    bad = h.type is None or norm(h.type).split('.')[-1] in ('BaseException', '_PropagateReturn')
                    chk.ob('DOM-return-propagation', f, not bad, 'no stepper catches the return propagation on its way up', node=h, kind='no-intermediate-handler',
                           expr=f'except {norm(h.type) if h.type else ""}')
    rs = prog.func('workchains._ReturnStepper.step')
    rcfg = cfg_of(rs)
    raises = [n for n in rcfg.nodes if n.kind == 'raisestmt']
    ok = len(raises) == 1 and Resolver(rs).text(raises[0].ast.exc) == '_PropagateReturn(self._return_instruction._exit_code)' and not any(n.kind == 'return' for n in rcfg.nodes)
    chk.ob('DOM-return-propagation', rs, ok, 'a return instruction always raises _PropagateReturn with its exit code', kind='return-stepper-raises')
    rc = prog.func('workchains._Return.__call__')
    rets = [n for n in ast.walk(rc.node) if isinstance(n, ast.Return)]
    chk.ob('DOM-return-propagation', rc, len(rets) == 1 and norm(rets[0].value) == f'_Return({rc.params[1]})', 'return_(code) is a return instruction carrying that code',
           kind='return-with-code')


def return_shapes(chk: Check) -> None:
    prog = chk.prog
    st = prog.cls('workchains.Stepper')
    n = 0
    for c in prog.subclasses(st):
        f = prog.view(c.vmethods.get('step'))
        if f is None:
            continue
        n += 1
        cfg = cfg_of(f)
        rets = [r for r in cfg.nodes if r.kind == 'return']
        _rs = Resolver(f)   # (``nothing_to_do = (True, None)`` ; ``return nothing_to_do``)
        ok = all(isinstance(_rs.expand(r.ast.value), ast.Tuple) and len(_rs.expand(r.ast.value).elts) == 2 for r in rets)
        # no path falls off the end
        falls = [p for p, l in cfg.exit.pred if p.kind != 'return']
        chk.ob('DOM-step-shape', f, ok and not falls, f'every non-raising path of {c.name}.step returns a (finished, value) pair', kind='two-tuple')
    chk.floor('DOM-step-shape', n, 5)
    fs = prog.func('workchains._FunctionStepper.step')
    rets = [r for r in ast.walk(fs.node) if isinstance(r, ast.Return)]
    chk.ob('DOM-step-shape', fs, len(rets) == 1 and Resolver(fs).text(rets[0].value) == '(True, self._fn(self._workchain))' and len(calls_in_func(fs)) == 1, 'a function step calls the step once with the workchain, is finished '
           'afterwards and hands back its return value', kind='function-step')


def if_stepper(chk: Check) -> None:
    prog = chk.prog
    f = prog.func('workchains._IfStepper.step')
    cfg = cfg_of(f)
    tests = [t for t in cfg.nodes if t.kind == 'test' and any(last_name(c) == 'is_true' for c in _calls(t))]
    chk.ob('DOM-if-short-circuit', f, len(tests) == 1, 'the branch predicates are evaluated at one site', kind='single-predicate-site')
    if not tests:
        return
    t = tests[0]
    # which edge of the test means "the predicate held" (the test may be written ``if pred`` or ``if not pred``)
    ff0 = chk.ctx.facts.analyse(f)
    pcall = [c for c in _calls(t) if last_name(c) == 'is_true'][0]
    pkey = ff0.canon.key(pcall)
    if ('T', pkey) in ff0.cond_atoms(t.ast.test, True):
        L_TRUE, L_FALSE = 'true', 'false'
    elif ('T', pkey) in ff0.cond_atoms(t.ast.test, False):
        L_TRUE, L_FALSE = 'false', 'true'
    else:
        L_TRUE, L_FALSE = None, None
    chk.ob('DOM-if-short-circuit', f, L_TRUE is not None, 'the branch decision is the predicate\'s truth value itself (not combined with anything else)', node=t.ast, kind='decision-is-predicate')
    if L_TRUE is None:
        return
    # from the predicate-true edge no further predicate evaluation is reachable within the invocation
    reach = cfg.reachable([s for s, l in t.succ if l == L_TRUE], include_src=True)
    chk.ob('DOM-if-short-circuit', f, t.id not in reach, 'once a predicate is true no later predicate is evaluated (the search loop is left)', node=t.ast, kind='first-true-wins')
    # the search runs over the conditionals in order, advancing the position on every false predicate
    from ..rules import ordered_loop
    loop = ordered_loop(f, t.ast)
    call = [c for c in _calls(t) if last_name(c) == 'is_true'][0]
    ok = loop is not None and ff0.canon.key(loop.seq) == 'self._if_instruction' and loop.is_element(call.func.value) \
        and [ff0.canon.key(a) for a in call.args] == ['self._workchain']
    chk.ob('DOM-if-short-circuit', f, ok, 'predicates are tried in the order of the if_/elif_/else_ chain, each with the workchain', kind='in-order')
    false_side = cfg.reachable([s for s, l in t.succ if l == L_FALSE], include_src=True, edge_ok=no_exc)
    inc = [n for n in cfg.nodes if n.kind == 'stmt' and isinstance(n.ast, ast.AugAssign) and norm(n.ast.target) == 'self._pos' and isinstance(n.ast.op, ast.Add) and norm(n.ast.value) == '1']
    ok = len(inc) == 1 and inc[0].id in false_side and cfg.must_pass([s for s, l in t.succ if l == L_FALSE][0], [t], lambda m: m in inc, edge_ok=no_exc)
    chk.ob('DOM-if-short-circuit', f, ok, 'a false predicate advances the position by exactly one before the next is tried', kind='advance-on-false')
    # the search happens only when there is no live child; the child comes from the branch at the current position
    ff = chk.ctx.facts.analyse(f)
    none_tests = [x for x in cfg.nodes if x.kind == 'test' and ('none', 'self._child_stepper') in ff.cond_atoms(x.ast.test, True) | ff.cond_atoms(x.ast.test, False)]
    ok = False
    for nt in none_tests:   # any of the tests of the child will do: it has to dominate the search and keep it off its "there is a child" side
        none_label = 'true' if ('none', 'self._child_stepper') in ff.cond_atoms(nt.ast.test, True) else 'false'
        other = 'false' if none_label == 'true' else 'true'
        ok = ok or (cfg.must_pass(cfg.entry, [t], lambda m, nt=nt: m is nt, edge_ok=no_exc) and t.id not in cfg.reachable([s for s, l in nt.succ if l == other], include_src=True, edge_ok=no_exc))
    chk.ob('DOM-if-short-circuit', f, ok, 'predicates are evaluated only when no branch is being executed (a chosen branch is never re-decided)', kind='only-without-child')
    creates = [c for c in calls_in_func(f, 'create_stepper')]
    ok = len(creates) == 1 and norm(Resolver(f).expand(creates[0].func.value)) == 'self._if_instruction[self._pos].body'
    chk.ob('DOM-if-short-circuit', f, ok, 'the branch executed is the body of the conditional at the position the search stopped at', kind='child-from-position')
    # none true -> finished with None
    fin_ret = [r for r in cfg.nodes if r.kind == 'return' and norm(Resolver(f).expand(r.ast.value)) == '(True, None)']
    chk.ob('DOM-if-short-circuit', f, len(fin_ret) >= 1, 'with no true predicate the if_ is finished without running anything', kind='none-true')
    # a finished branch finishes the whole if_
    done = [n for n in cfg.nodes if n.kind == 'stmt' and isinstance(n.ast, ast.Assign) and norm(n.ast.targets[0]) == 'self._pos' and norm(n.ast.value) == 'len(self._if_instruction)']
    chk.ob('DOM-if-short-circuit', f, len(done) == 1, 'when the chosen branch is finished the whole if_ is (no second branch can run)', kind='branch-done')
    fin = prog.func('workchains._IfStepper.finished')
    rets = [r for r in ast.walk(fin.node) if isinstance(r, ast.Return)]
    chk.ob('DOM-if-short-circuit', fin, len(rets) == 1 and norm(rets[0].value) == 'self._pos == len(self._if_instruction)', 'finished means "position past the last conditional"',
           kind='finished-definition')


def _step_unpack(f):
    """``finished, value = self._child_stepper.step()`` -> (finished-name, value-name, call)"""
    u = [n for n in ast.walk(f.node) if isinstance(n, ast.Assign) and isinstance(n.targets[0], ast.Tuple) and len(n.targets[0].elts) == 2
         and isinstance(n.value, ast.Call) and norm(n.value.func) == 'self._child_stepper.step']
    if len(u) != 1:
        return None
    return norm(u[0].targets[0].elts[0]), norm(u[0].targets[0].elts[1]), u[0].value


def _ret_tuple(ff, node, path=None):
    """[finished-expression, value-expression] of a ``return a, b``; with ``path`` the value is what that name holds on
    that very path (a reassignment such as ``result = None`` before the return shows)."""
    v = node.ast.value
    if path is not None:
        from ..decisions import value_on_path
        idx = [i for i, m in enumerate(path) if m is node]
        if idx:
            v = value_on_path(path, idx[-1], v)
    if isinstance(v, ast.Tuple) and len(v.elts) == 2:
        return [ff.canon.key(e) for e in v.elts]
    return None


def child_value_handed_up(chk: Check, rule: str) -> None:
    """Block / if / while steppers hand the value of the child step they ran up UNCHANGED on every path (a ToContext or
    a stop value produced deep inside nested blocks must reach WorkChain._do_step)."""
    from ..decisions import paths_under
    prog = chk.prog
    for name in ('_BlockStepper', '_IfStepper', '_WhileStepper'):
        f = prog.func(f'workchains.{name}.step')
        ff = chk.ctx.facts.analyse(f)
        up = _step_unpack(f)
        if up is None:
            chk.ob(rule, f, False, f'{name}.step does not step its child at one site', kind='child-step-site')
            continue
        fin, res, call = up
        step_nodes = ff.cfg.nodes_containing(call)
        bad = []
        n = 0
        for path in paths_under(ff, {}, frozen=[fin, res]):
            if path[-1] is not ff.cfg.exit or not any(m in step_nodes for m in path):
                continue
            rets = [m for m in path if m.kind == 'return']
            if not rets:
                continue
            n += 1
            rt = _ret_tuple(ff, rets[-1], path)
            if rt is None or rt[1] != res:
                bad.append(rt)
        chk.ob(rule, f, not bad and n >= 1, f'{name}.step: on each of the {n} paths that ran a child step, the value handed up is that step\'s value, unchanged' +
               (f' (got {bad[:2]})' if bad else ''), kind='child-value-unchanged')


def while_stepper(chk: Check) -> None:
    """Decision table over (a body iteration is in progress, the predicate holds, the body step finished the iteration)."""
    from ..decisions import leaf, paths_under, valuations
    prog = chk.prog
    f = prog.func('workchains._WhileStepper.step')
    ff = chk.ctx.facts.analyse(f)
    cfg = ff.cfg
    pred_calls = [c for c in calls_in_func(f, 'is_true')]
    chk.ob('DOM-while-reevaluation', f, len(pred_calls) == 1, 'the loop predicate is evaluated at one site', kind='single-predicate-site')
    up = _step_unpack(f)
    chk.ob('DOM-while-reevaluation', f, up is not None, 'the body is stepped at one site', kind='single-body-step')
    if len(pred_calls) != 1 or up is None:
        return
    pc = pred_calls[0]
    ok_pred = norm(pc.func.value) == 'self._while_instruction' and [norm(a) for a in pc.args] == ['self._workchain']
    chk.ob('DOM-while-reevaluation', f, ok_pred, 'the predicate evaluated is the loop\'s own, with the workchain', node=pc, kind='predicate-call')
    fin, res, step_call = up
    CHILD, PRED = 'self._child_stepper is None', leaf(ff, pc)[0]
    pred_nodes = cfg.nodes_containing(pc)
    step_nodes = cfg.nodes_containing(step_call)
    create = [c for c in calls_in_func(f, 'create_stepper')]
    create_nodes = [m for c in create for m in cfg.nodes_containing(c)]
    ok_create = len(create) == 1 and norm(create[0].func.value) == 'self._while_instruction.body'
    chk.ob('DOM-while-reevaluation', f, ok_create, 'a new iteration runs the loop body', kind='body-from-instruction')
    drop_nodes = [n for n in cfg.nodes if n.kind == 'stmt' and isinstance(n.ast, ast.Assign) and norm(n.ast.targets[0]) == 'self._child_stepper' and norm(n.ast.value) == 'None']
    dev = []
    n_paths = 0
    for val in valuations([CHILD, PRED, fin]):
        for path in paths_under(ff, val, frozen=[fin, res]):
            if path[-1] is not cfg.exit:
                continue
            n_paths += 1
            saw_pred = any(m in pred_nodes for m in path)
            saw_step = any(m in step_nodes for m in path)
            saw_create = any(m in create_nodes for m in path)
            saw_drop = any(m in drop_nodes for m in path)
            rets = [m for m in path if m.kind == 'return']
            rt = _ret_tuple(ff, rets[-1], path) if rets else None
            no_iter = val[CHILD]
            exp_pred = no_iter
            exp_body = (not no_iter) or val[PRED]
            checks = {
                'predicate evaluated exactly when no iteration is in progress': saw_pred == exp_pred,
                'body stepped exactly when an iteration is in progress or the predicate holds': saw_step == exp_body,
                'a new body stepper is created exactly when none is in progress and the predicate holds': saw_create == (no_iter and val[PRED]),
                'predicate before body': (not (saw_pred and saw_step)) or min(i for i, m in enumerate(path) if m in pred_nodes) < min(i for i, m in enumerate(path) if m in step_nodes),
                'false predicate finishes the loop': exp_body or rt == ['True', 'None'],
                'after a body step the loop is not finished and hands the value up': (not exp_body) or rt == ['False', res],
                'a finished iteration is dropped (predicate re-evaluated next time), an unfinished one kept': (not exp_body) or saw_drop == val[fin],
            }
            for k, okk in checks.items():
                if not okk:
                    dev.append((k, dict(val)))
    chk.units['while_paths'] = n_paths
    for k in ['predicate evaluated exactly when no iteration is in progress', 'body stepped exactly when an iteration is in progress or the predicate holds',
              'a new body stepper is created exactly when none is in progress and the predicate holds', 'predicate before body', 'false predicate finishes the loop',
              'after a body step the loop is not finished and hands the value up',
              'a finished iteration is dropped (predicate re-evaluated next time), an unfinished one kept']:
        bad = [v for kk, v in dev if kk == k]
        chk.ob('DOM-while-reevaluation', f, not bad and n_paths >= 4, f'decision table over (iteration in progress, predicate, body step finished): {k}' + (f'; fails for {bad[:2]}' if bad else ''),
               kind=k.split(' (')[0].replace(' ', '-')[:60])


def block_stepper(chk: Check) -> None:
    from ..decisions import paths_under, valuations
    prog = chk.prog
    f = prog.func('workchains._BlockStepper.step')
    ff = chk.ctx.facts.analyse(f)
    cfg = ff.cfg
    up = _step_unpack(f)
    chk.ob('DOM-block-sequence', f, up is not None, 'a block executes one instruction per call', kind='single-child-step')
    if up is not None:
        fin, res, step_call = up
        nxt = [n for n in cfg.nodes if any(norm(c.func) == 'self.next_instruction' for c in _calls(n))]
        dev = []
        n_paths = 0
        for val in valuations([fin]):
            for path in paths_under(ff, val, frozen=[fin, res]):
                if path[-1] is not cfg.exit:
                    continue
                n_paths += 1
                adv = sum(1 for m in path if m in nxt)
                if adv != (1 if val[fin] else 0):
                    dev.append((dict(val), adv))
                rets = [m for m in path if m.kind == 'return']
                rt = _ret_tuple(ff, rets[-1], path) if rets else None
                if rt != ['self.finished()', res]:
                    dev.append((dict(val), rt))
        chk.ob('DOM-block-sequence', f, not dev and n_paths >= 2, 'the block advances exactly once when the current instruction is finished, not at all otherwise, and reports '
               '(its own finished-ness, the value of the instruction just run)' + (f'; deviations {dev[:2]}' if dev else ''), kind='advance-iff-finished')
    ni = prog.func('workchains._BlockStepper.next_instruction')
    incs = [n for n in ast.walk(ni.node) if isinstance(n, ast.AugAssign) and norm(n.target) == 'self._pos']
    ok = len(incs) == 1 and isinstance(incs[0].op, ast.Add) and norm(incs[0].value) == '1'
    chk.ob('DOM-block-sequence', ni, ok, 'advancing moves the position by exactly one (no instruction skipped or repeated)', kind='step-by-one')
    creates = [c for c in calls_in_func(ni, 'create_stepper')]
    chk.ob('DOM-block-sequence', ni, len(creates) == 1 and norm(creates[0].func.value) == 'self._block[self._pos]', 'the next instruction executed is the one at the new position',
           kind='next-from-position')
    if creates and incs:
        ncfg = cfg_of(ni)
        inc_nodes = [m for m in ncfg.nodes if m.ast is incs[0]]
        cr_nodes = ncfg.nodes_containing(creates[0])
        chk.ob('DOM-block-sequence', ni, all(ncfg.must_pass(ncfg.entry, [c], lambda m: m in inc_nodes, edge_ok=no_exc) for c in cr_nodes), 'the position is advanced before the next stepper is created',
               kind='advance-before-create')
    fin_f = prog.func('workchains._BlockStepper.finished')
    rets = [r for r in ast.walk(fin_f.node) if isinstance(r, ast.Return)]
    chk.ob('DOM-block-sequence', fin_f, len(rets) == 1 and norm(rets[0].value) in ('self._pos == len(self._block)', 'len(self._block) == self._pos', 'self._pos >= len(self._block)'),
           'finished means "position past the last instruction"', kind='finished-definition')
    init = prog.func('workchains._BlockStepper.__init__')
    creates = [c for c in calls_in_func(init, 'create_stepper')]
    pos0 = any(isinstance(n, (ast.Assign, ast.AnnAssign)) and norm(n.targets[0] if isinstance(n, ast.Assign) else n.target) == 'self._pos' and norm(n.value) == '0' for n in ast.walk(init.node))
    chk.ob('DOM-block-sequence', init, pos0 and len(creates) == 1 and norm(creates[0].func.value) in ('self._block[0]', 'self._block[self._pos]'), 'a block starts at its first instruction',
           kind='starts-at-first')
    blk = prog.func('workchains._Block.__init__')
    ok = any(isinstance(n, (ast.For, ast.ListComp, ast.comprehension)) and norm(n.iter if not isinstance(n, ast.ListComp) else n.generators[0].iter) == blk.params[1] for n in ast.walk(blk.node))
    chk.ob('DOM-block-sequence', blk, ok, 'a block keeps the instructions in the order given in the outline', kind='order-kept')


def ownership(chk: Check) -> None:
    prog = chk.prog
    # predicates only through _Conditional.is_true, steps only through _FunctionStepper.step
    for f in prog.all_funcs():
        if f.module.short != 'workchains':
            continue
        for c in calls_in_func(f):
            txt = norm(c.func)
            if txt.endswith('._predicate') or txt.endswith('.predicate'):
                chk.ob('OWN-user-calls', f, f.qualname == 'workchains._Conditional.is_true', 'predicates are evaluated only by _Conditional.is_true', node=c, kind='predicate-call')
            if txt.endswith('._fn') and f.cls is not None:
                chk.ob('OWN-user-calls', f, f.qualname == 'workchains._FunctionStepper.step', 'outline steps are called only by _FunctionStepper.step', node=c, kind='step-call')
    it = prog.func('workchains._Conditional.is_true')
    calls = [c for c in calls_in_func(it) if norm(c.func) == 'self._predicate']
    rets = [r for r in ast.walk(it.node) if isinstance(r, ast.Return)]
    ok = len(calls) == 1 and [norm(a) for a in calls[0].args] == [it.params[1]] and len(rets) == 1 and norm(rets[0].value) == 'result'
    chk.ob('OWN-user-calls', it, ok, 'is_true calls the predicate once with the workchain and returns its verdict unchanged', kind='predicate-once')
    for fn, cls in (('if_', '_If'), ('while_', '_While')):
        f = prog.func(f'workchains.{fn}')
        rets = [r for r in ast.walk(f.node) if isinstance(r, ast.Return)]
        chk.ob('OWN-user-calls', f, len(rets) == 1 and norm(rets[0].value) == f'{cls}({f.params[0]})', f'{fn}(p) builds a {cls} with that predicate', kind='constructor')
    mod = prog.module('workchains')
    # the outline is a class-level object shared by every run of the work chain class: once built (constructors, elif_ / else_ / __call__ while the spec is being
    # defined) nothing may change it -- a description method that pops the else-branch off the live list removes it for every later run
    from .common import MUTATORS
    builders = ('__init__', 'elif_', 'else_', '__call__')
    n_ro = 0
    for cname in ('_Instruction', '_FunctionCall', '_Block', '_Conditional', '_If', '_While', '_Return'):
        k = prog.cls(f'workchains.{cname}')
        for mname, f in k.emethods.items():
            if mname in builders:
                continue
            n_ro += 1
            bad = None
            for x in ast.walk(f.node):
                if isinstance(x, ast.Call) and isinstance(x.func, ast.Attribute) and x.func.attr in MUTATORS and norm(x.func.value).startswith('self.'):
                    bad = bad or x
                elif isinstance(x, (ast.Subscript, ast.Attribute)) and isinstance(x.ctx, (ast.Store, ast.Del)) and norm(x.value).startswith('self'):
                    bad = bad or x
            chk.ob('OWN-user-calls', f, bad is None, f'{cname}.{mname} leaves the instruction as it was built' + ('' if bad is None else
                   f': {norm(bad)} changes the outline object, which all runs of the class share -- the branch / instruction is gone for every later run'), node=bad, kind='outline-read-only')
    chk.floor('OWN-user-calls:outline-read-only', n_ro, 10)
    chk.ob('OWN-user-calls', 'workchains.return_', 'return_' in mod.constants and norm(mod.constants['return_']) == '_Return()', 'return_ is a _Return instruction without code', kind='return-singleton')
    el = prog.func('workchains._If.else_')
    ok = any(isinstance(n, ast.Lambda) and norm(n.body) == 'True' for n in ast.walk(el.node)) and any(norm(c.func) == 'self._ifs.append' for c in calls_in_func(el))
    chk.ob('OWN-user-calls', el, ok, 'else_ is a branch whose predicate is constantly true, appended last', kind='else-always-true')
    ef = prog.func('workchains._If.elif_')
    chk.ob('OWN-user-calls', ef, any(norm(c.func) == 'self._ifs.append' for c in calls_in_func(ef)), 'elif_ appends a conditional after the existing ones', kind='elif-appended')
    ol = prog.func('workchains.WorkChainSpec.outline')
    ok = any(last_name(c) == '_Block' and [norm(a) for a in c.args] == [ol.node.args.vararg.arg] for c in calls_in_func(ol))
    chk.ob('OWN-user-calls', ol, ok, 'the outline is the block of the commands in the order given', kind='outline-block')
    wc = prog.func('workchains.WorkChain.run')
    rets = [r for r in ast.walk(wc.node) if isinstance(r, ast.Return)]
    chk.ob('OWN-user-calls', wc, len(rets) == 1 and norm(rets[0].value) == 'self._do_step()', 'the first step of a workchain is the first outline instruction', kind='run-is-do-step')
    chk.assumptions.append('sequencing over all outlines and valuations (nesting, fall-through) is interpreter correctness and is not decided')
