"""C09 -- a WorkChain executes its outline as the structured program it denotes.

Only clauses that are path properties of one function are decided (return propagation, short-circuit, re-evaluation, one
instruction per step, step-by-one sequencing).  This decides these clauses, NOT the order of calls over all outlines.
"""
from __future__ import annotations

import ast
from typing import List

from ..cfg import cfg_of, no_exc
from ..model import AnalysisError, norm, unparse, walk_shallow
from ..report import Check
from ..rules import branch_reaches_exit, call_sites, calls_in_func, last_name


def _calls(n) -> List[ast.Call]:
    e = n.expr()
    return [x for x in walk_shallow(e) if isinstance(x, ast.Call)] if e is not None else []


def run(chk: Check) -> None:
    prog = chk.prog
    do_step(chk)
    return_shapes(chk)
    if_stepper(chk)
    while_stepper(chk)
    block_stepper(chk)
    ownership(chk)


def do_step(chk: Check) -> None:
    prog = chk.prog
    ds = prog.func('workchains.WorkChain._do_step')
    cfg = cfg_of(ds)
    steps = [n for n in cfg.nodes if any(norm(c.func) == 'self._stepper.step' for c in _calls(n))]
    chk.ob('DOM-one-instruction', ds, len(steps) == 1, 'one outline instruction is executed per call of _do_step (one RUNNING state)', kind='single-step-call')
    # the decision: continue the chain exactly when the stepper is unfinished and the value is None / a context assignment
    tests = [t for t in cfg.nodes if t.kind == 'test' and 'finished' in norm(t.ast.test) and 'return_value' in norm(t.ast.test)]
    ok = False
    if tests:
        t = tests[0].ast.test
        if isinstance(t, ast.BoolOp) and isinstance(t.op, ast.And) and len(t.values) == 2:
            a, b = t.values
            alts = sorted(norm(v) for v in b.values) if isinstance(b, ast.BoolOp) and isinstance(b.op, ast.Or) else []
            ok = norm(a) == 'not finished' and alts == ['isinstance(return_value, ToContext)', 'return_value is None']
    chk.ob('DOM-one-instruction', ds, ok, 'the chain goes on exactly when the stepper is not finished and the step returned None or a context assignment; '
           'any other value stops it', node=tests[0].ast if tests else None, kind='continue-condition')
    if tests:
        t = tests[0]
        true_side = cfg.reachable([s for s, l in t.succ if l == 'true'], include_src=True, edge_ok=no_exc)
        false_side = cfg.reachable([s for s, l in t.succ if l == 'false'], include_src=True, edge_ok=no_exc)
        rets = [n for n in cfg.nodes if n.kind == 'return']
        cont = [r for r in rets if isinstance(r.ast.value, ast.Call) and last_name(r.ast.value) in ('Continue', 'Wait')]
        plain = [r for r in rets if norm(r.ast.value) == 'return_value']
        ok = bool(cont) and bool(plain) and all(r.id in true_side and r.id not in false_side for r in cont) and all(r.id in false_side and r.id not in true_side for r in plain)
        chk.ob('DOM-one-instruction', ds, ok, 'Continue/Wait are returned only on the go-on branch, the value itself on the other', kind='branches')
        chk.ob('DOM-one-instruction', ds, all(r.ast.value.args and norm(r.ast.value.args[0]) == 'self._do_step' for r in cont), 'the chain continues with _do_step itself',
               kind='continues-with-do-step')
        # the true branch always returns a command (no fall-through to "return return_value" with an unfinished stepper)
        ok = not any(r.id in true_side for r in plain)
        chk.ob('DOM-one-instruction', ds, ok, 'an unfinished chain never finishes the process by falling through', kind='no-fallthrough')
    # return propagation
    handlers = [h for tr in ast.walk(ds.node) if isinstance(tr, ast.Try) for h in tr.handlers if h.type is not None and norm(h.type) == '_PropagateReturn']
    ok = len(handlers) == 1
    if ok:
        h = handlers[0]
        asg = [s for s in h.body if isinstance(s, ast.Assign)]
        ok = (len(asg) == 1 and isinstance(asg[0].targets[0], ast.Tuple) and [norm(e) for e in asg[0].targets[0].elts] == ['finished', 'return_value']
              and isinstance(asg[0].value, ast.Tuple) and [norm(e) for e in asg[0].value.elts] == ['True', f'{h.name}.exit_code'])
        tr = [t for t in ast.walk(ds.node) if isinstance(t, ast.Try) and h in t.handlers][0]
        ok = ok and any(norm(c.func) == 'self._stepper.step' for s in tr.body for c in ast.walk(s) if isinstance(c, ast.Call))
    chk.ob('DOM-return-propagation', ds, ok, 'return_ raised anywhere below is caught here and means (finished, exit code)', kind='caught-in-do-step')
    pr = prog.cls('workchains._PropagateReturn')
    chk.ob('DOM-return-propagation', pr.qualname, 'BaseException' in [b if isinstance(b, str) else b.name for b in pr.bases], '_PropagateReturn is a BaseException: '
           'no "except Exception" between the return instruction and _do_step can swallow it', kind='base-exception')
    st = prog.cls('workchains.Stepper')
    for c in [st] + prog.subclasses(st):
        for f in c.methods.values():
            for tr in [t for t in ast.walk(f.node) if isinstance(t, ast.Try)]:
                for h in tr.handlers:
                    bad = h.type is None or norm(h.type).split('.')[-1] in ('BaseException', '_PropagateReturn')
                    chk.ob('DOM-return-propagation', f, not bad, 'no stepper catches the return propagation on its way up', node=h, kind='no-intermediate-handler',
                           expr=f'except {norm(h.type) if h.type else ""}')
    rs = prog.func('workchains._ReturnStepper.step')
    rcfg = cfg_of(rs)
    raises = [n for n in rcfg.nodes if n.kind == 'raisestmt']
    ok = len(raises) == 1 and norm(raises[0].ast.exc) == '_PropagateReturn(self._return_instruction._exit_code)' and not any(n.kind == 'return' for n in rcfg.nodes)
    chk.ob('DOM-return-propagation', rs, ok, 'a return instruction always raises _PropagateReturn with its exit code', kind='return-stepper-raises')
    rc = prog.func('workchains._Return.__call__')
    rets = [n for n in ast.walk(rc.node) if isinstance(n, ast.Return)]
    chk.ob('DOM-return-propagation', rc, len(rets) == 1 and norm(rets[0].value) == f'_Return({rc.params[1]})', 'return_(code) is a return instruction carrying that code',
           kind='return-with-code')


def return_shapes(chk: Check) -> None:
    prog = chk.prog
    st = prog.cls('workchains.Stepper')
    n = 0
    for c in prog.subclasses(st):
        f = c.methods.get('step')
        if f is None:
            continue
        n += 1
        cfg = cfg_of(f)
        rets = [r for r in cfg.nodes if r.kind == 'return']
        ok = all(isinstance(r.ast.value, ast.Tuple) and len(r.ast.value.elts) == 2 for r in rets)
        # no path falls off the end
        falls = [p for p, l in cfg.exit.pred if p.kind != 'return']
        chk.ob('DOM-step-shape', f, ok and not falls, f'every non-raising path of {c.name}.step returns a (finished, value) pair', kind='two-tuple')
    chk.floor('DOM-step-shape', n, 5)
    fs = prog.func('workchains._FunctionStepper.step')
    rets = [r for r in ast.walk(fs.node) if isinstance(r, ast.Return)]
    chk.ob('DOM-step-shape', fs, len(rets) == 1 and norm(rets[0].value) == '(True, self._fn(self._workchain))', 'a function step calls the step once with the workchain, is finished '
           'afterwards and hands back its return value', kind='function-step')


def if_stepper(chk: Check) -> None:
    prog = chk.prog
    f = prog.func('workchains._IfStepper.step')
    cfg = cfg_of(f)
    tests = [t for t in cfg.nodes if t.kind == 'test' and any(last_name(c) == 'is_true' for c in _calls(t))]
    chk.ob('DOM-if-short-circuit', f, len(tests) == 1, 'the branch predicates are evaluated at one site', kind='single-predicate-site')
    if not tests:
        return
    t = tests[0]
    # from the true edge no further predicate evaluation is reachable within the invocation
    reach = cfg.reachable([s for s, l in t.succ if l == 'true'], include_src=True)
    chk.ob('DOM-if-short-circuit', f, t.id not in reach, 'once a predicate is true no later predicate is evaluated (the search loop is left)', node=t.ast, kind='first-true-wins')
    # the search runs over the conditionals in order, advancing the position on every false predicate
    loops = [l for l in ast.walk(f.node) if isinstance(l, ast.For) and any(x is t.ast for x in ast.walk(l))]
    ok = len(loops) == 1 and norm(loops[0].iter) == 'self._if_instruction'
    var = norm(loops[0].target) if loops else ''
    call = [c for c in _calls(t) if last_name(c) == 'is_true'][0]
    ok = ok and norm(call.func.value) == var and [norm(a) for a in call.args] == ['self._workchain']
    chk.ob('DOM-if-short-circuit', f, ok, 'predicates are tried in the order of the if_/elif_/else_ chain, each with the workchain', kind='in-order')
    false_side = cfg.reachable([s for s, l in t.succ if l == 'false'], include_src=True, edge_ok=no_exc)
    inc = [n for n in cfg.nodes if n.kind == 'stmt' and isinstance(n.ast, ast.AugAssign) and norm(n.ast.target) == 'self._pos' and isinstance(n.ast.op, ast.Add) and norm(n.ast.value) == '1']
    ok = len(inc) == 1 and inc[0].id in false_side and cfg.must_pass([s for s, l in t.succ if l == 'false'][0], [t], lambda m: m in inc, edge_ok=no_exc)
    chk.ob('DOM-if-short-circuit', f, ok, 'a false predicate advances the position by exactly one before the next is tried', kind='advance-on-false')
    # the search happens only when there is no live child; the child comes from the branch at the current position
    ff = chk.ctx.facts.analyse(f)
    none_tests = [x for x in cfg.nodes if x.kind == 'test' and ('none', 'self._child_stepper') in ff.cond_atoms(x.ast.test, True) | ff.cond_atoms(x.ast.test, False)]
    ok = False
    if none_tests:
        nt = none_tests[0]
        none_label = 'true' if ('none', 'self._child_stepper') in ff.cond_atoms(nt.ast.test, True) else 'false'
        other = 'false' if none_label == 'true' else 'true'
        ok = cfg.must_pass(cfg.entry, [t], lambda m: m is nt, edge_ok=no_exc) and t.id not in cfg.reachable([s for s, l in nt.succ if l == other], include_src=True, edge_ok=no_exc)
    chk.ob('DOM-if-short-circuit', f, ok, 'predicates are evaluated only when no branch is being executed (a chosen branch is never re-decided)', kind='only-without-child')
    creates = [c for c in calls_in_func(f, 'create_stepper')]
    ok = len(creates) == 1 and norm(creates[0].func.value) == 'self._if_instruction[self._pos].body'
    chk.ob('DOM-if-short-circuit', f, ok, 'the branch executed is the body of the conditional at the position the search stopped at', kind='child-from-position')
    # none true -> finished with None
    fin_ret = [r for r in cfg.nodes if r.kind == 'return' and norm(r.ast.value) == '(True, None)']
    chk.ob('DOM-if-short-circuit', f, len(fin_ret) >= 1, 'with no true predicate the if_ is finished without running anything', kind='none-true')
    # a finished branch finishes the whole if_
    done = [n for n in cfg.nodes if n.kind == 'stmt' and isinstance(n.ast, ast.Assign) and norm(n.ast.targets[0]) == 'self._pos' and norm(n.ast.value) == 'len(self._if_instruction)']
    chk.ob('DOM-if-short-circuit', f, len(done) == 1, 'when the chosen branch is finished the whole if_ is (no second branch can run)', kind='branch-done')
    fin = prog.func('workchains._IfStepper.finished')
    rets = [r for r in ast.walk(fin.node) if isinstance(r, ast.Return)]
    chk.ob('DOM-if-short-circuit', fin, len(rets) == 1 and norm(rets[0].value) == 'self._pos == len(self._if_instruction)', 'finished means "position past the last conditional"',
           kind='finished-definition')


def while_stepper(chk: Check) -> None:
    prog = chk.prog
    f = prog.func('workchains._WhileStepper.step')
    cfg = cfg_of(f)
    ff = chk.ctx.facts.analyse(f)
    tests = [t for t in cfg.nodes if t.kind == 'test' and any(last_name(c) == 'is_true' for c in _calls(t))]
    chk.ob('DOM-while-reevaluation', f, len(tests) == 1, 'the loop predicate is evaluated at one site', kind='single-predicate-site')
    if not tests:
        return
    t = tests[0]
    chk.ob('DOM-while-reevaluation', f, any(a == ('none', 'self._child_stepper') for a in ff.at(t)), 'the predicate is evaluated only when no iteration is in progress',
           node=t.ast, kind='only-without-child')
    # every path without a live child evaluates it: the child-step call is dominated by "child exists" or by the predicate
    steps = [n for n in cfg.nodes if any(norm(c.func) == 'self._child_stepper.step' for c in _calls(n))]
    none_tests = [x for x in cfg.nodes if x.kind == 'test' and ('none', 'self._child_stepper') in ff.cond_atoms(x.ast.test, True) | ff.cond_atoms(x.ast.test, False)]
    ok = bool(steps) and bool(none_tests)
    if ok:
        nt = none_tests[0]
        none_label = 'true' if ('none', 'self._child_stepper') in ff.cond_atoms(nt.ast.test, True) else 'false'
        starts = [s for s, l in nt.succ if l == none_label]
        ok = all(cfg.must_pass(s, steps + [cfg.exit], lambda m: m is t, edge_ok=no_exc) for s in starts) and cfg.must_pass(cfg.entry, steps, lambda m: m is nt, edge_ok=no_exc)
    chk.ob('DOM-while-reevaluation', f, ok, 'whenever no iteration is in progress the predicate is (re-)evaluated before anything of the body runs', kind='reevaluated-before-body')
    false_rets = cfg.reachable([s for s, l in t.succ if l == 'false'], include_src=True, edge_ok=no_exc)
    rets = [r for r in cfg.nodes if r.kind == 'return' and r.id in false_rets]
    ok = bool(rets) and all(norm(r.ast.value) == '(True, None)' for r in rets) and not any(s.id in false_rets for s in steps)
    chk.ob('DOM-while-reevaluation', f, ok, 'a false predicate finishes the loop without running the body', kind='false-finishes')
    true_side = cfg.reachable([s for s, l in t.succ if l == 'true'], include_src=True, edge_ok=no_exc)
    creates = [c for c in calls_in_func(f, 'create_stepper')]
    ok = len(creates) == 1 and norm(creates[0].func.value) == 'self._while_instruction.body' and all(n.id in true_side for n in cfg.nodes_containing(creates[0]))
    chk.ob('DOM-while-reevaluation', f, ok, 'a true predicate starts a new iteration of the body', kind='true-starts-body')
    drop = [n for n in cfg.nodes if n.kind == 'stmt' and isinstance(n.ast, ast.Assign) and norm(n.ast.targets[0]) == 'self._child_stepper' and norm(n.ast.value) == 'None']
    fin_tests = [x for x in cfg.nodes if x.kind == 'test' and norm(x.ast.test) == 'finished']
    ok = bool(drop) and bool(fin_tests) and all(d.id in cfg.reachable([s for s, l in fin_tests[0].succ if l == 'true'], include_src=True, edge_ok=no_exc) for d in drop)
    chk.ob('DOM-while-reevaluation', f, ok, 'a finished iteration is dropped, so the next call re-evaluates the predicate', kind='iteration-dropped')
    after = [r for r in cfg.nodes if r.kind == 'return' and any(r.id in cfg.reachable([s], edge_ok=no_exc) for s in steps)]
    chk.ob('DOM-while-reevaluation', f, bool(after) and all(norm(r.ast.value) == '(False, result)' for r in after), 'after a body step the loop itself is never finished '
           '(only a false predicate ends it) and the step\'s value is handed up', kind='never-finished-after-body')


def block_stepper(chk: Check) -> None:
    prog = chk.prog
    f = prog.func('workchains._BlockStepper.step')
    cfg = cfg_of(f)
    steps = [n for n in cfg.nodes if any(norm(c.func) == 'self._child_stepper.step' for c in _calls(n))]
    chk.ob('DOM-block-sequence', f, len(steps) == 1, 'a block executes one instruction per call', kind='single-child-step')
    fin_tests = [x for x in cfg.nodes if x.kind == 'test' and norm(x.ast.test) == 'finished']
    nxt = [n for n in cfg.nodes if any(norm(c.func) == 'self.next_instruction' for c in _calls(n))]
    ok = len(fin_tests) == 1 and len(nxt) == 1 and nxt[0].id in cfg.reachable([s for s, l in fin_tests[0].succ if l == 'true'], include_src=True, edge_ok=no_exc) \
        and nxt[0].id not in cfg.reachable([s for s, l in fin_tests[0].succ if l == 'false'], include_src=True, edge_ok=no_exc)
    chk.ob('DOM-block-sequence', f, ok, 'the block advances exactly when the current instruction is finished', kind='advance-iff-finished')
    rets = [r for r in cfg.nodes if r.kind == 'return']
    canon = chk.ctx.facts.analyse(f).canon
    chk.ob('DOM-block-sequence', f, len(rets) == 1 and isinstance(rets[0].ast.value, ast.Tuple) and [canon.key(e) for e in rets[0].ast.value.elts] == ['self.finished()', 'result'], 'the block reports finished-ness and the value of the instruction just run',
           kind='returns-child-value')
    ni = prog.func('workchains._BlockStepper.next_instruction')
    incs = [n for n in ast.walk(ni.node) if isinstance(n, ast.AugAssign) and norm(n.target) == 'self._pos']
    ok = len(incs) == 1 and isinstance(incs[0].op, ast.Add) and norm(incs[0].value) == '1'
    chk.ob('DOM-block-sequence', ni, ok, 'advancing moves the position by exactly one (no instruction skipped or repeated)', kind='step-by-one')
    creates = [c for c in calls_in_func(ni, 'create_stepper')]
    chk.ob('DOM-block-sequence', ni, len(creates) == 1 and norm(creates[0].func.value) == 'self._block[self._pos]', 'the next instruction executed is the one at the new position',
           kind='next-from-position')
    fin = prog.func('workchains._BlockStepper.finished')
    rets = [r for r in ast.walk(fin.node) if isinstance(r, ast.Return)]
    chk.ob('DOM-block-sequence', fin, len(rets) == 1 and norm(rets[0].value) == 'self._pos == len(self._block)', 'finished means "position past the last instruction"', kind='finished-definition')
    init = prog.func('workchains._BlockStepper.__init__')
    creates = [c for c in calls_in_func(init, 'create_stepper')]
    pos0 = any(isinstance(n, (ast.Assign, ast.AnnAssign)) and norm(n.targets[0] if isinstance(n, ast.Assign) else n.target) == 'self._pos' and norm(n.value) == '0' for n in ast.walk(init.node))
    chk.ob('DOM-block-sequence', init, pos0 and len(creates) == 1 and norm(creates[0].func.value) in ('self._block[0]', 'self._block[self._pos]'), 'a block starts at its first instruction',
           kind='starts-at-first')
    blk = prog.func('workchains._Block.__init__')
    ok = any(isinstance(n, ast.For) and norm(n.iter) == blk.params[1] for n in ast.walk(blk.node))
    chk.ob('DOM-block-sequence', blk, ok, 'a block keeps the instructions in the order given in the outline', kind='order-kept')


def ownership(chk: Check) -> None:
    prog = chk.prog
    # predicates only through _Conditional.is_true, steps only through _FunctionStepper.step
    for f in prog.all_funcs():
        if f.module.short != 'workchains':
            continue
        for c in calls_in_func(f):
            txt = norm(c.func)
            if txt.endswith('._predicate') or txt.endswith('.predicate'):
                chk.ob('OWN-user-calls', f, f.qualname == 'workchains._Conditional.is_true', 'predicates are evaluated only by _Conditional.is_true', node=c, kind='predicate-call')
            if txt.endswith('._fn') and f.cls is not None:
                chk.ob('OWN-user-calls', f, f.qualname == 'workchains._FunctionStepper.step', 'outline steps are called only by _FunctionStepper.step', node=c, kind='step-call')
    it = prog.func('workchains._Conditional.is_true')
    calls = [c for c in calls_in_func(it) if norm(c.func) == 'self._predicate']
    rets = [r for r in ast.walk(it.node) if isinstance(r, ast.Return)]
    ok = len(calls) == 1 and [norm(a) for a in calls[0].args] == [it.params[1]] and len(rets) == 1 and norm(rets[0].value) == 'result'
    chk.ob('OWN-user-calls', it, ok, 'is_true calls the predicate once with the workchain and returns its verdict unchanged', kind='predicate-once')
    for fn, cls in (('if_', '_If'), ('while_', '_While')):
        f = prog.func(f'workchains.{fn}')
        rets = [r for r in ast.walk(f.node) if isinstance(r, ast.Return)]
        chk.ob('OWN-user-calls', f, len(rets) == 1 and norm(rets[0].value) == f'{cls}({f.params[0]})', f'{fn}(p) builds a {cls} with that predicate', kind='constructor')
    mod = prog.module('workchains')
    chk.ob('OWN-user-calls', 'workchains.return_', 'return_' in mod.constants and norm(mod.constants['return_']) == '_Return()', 'return_ is a _Return instruction without code', kind='return-singleton')
    el = prog.func('workchains._If.else_')
    ok = any(isinstance(n, ast.Lambda) and norm(n.body) == 'True' for n in ast.walk(el.node)) and any(norm(c.func) == 'self._ifs.append' for c in calls_in_func(el))
    chk.ob('OWN-user-calls', el, ok, 'else_ is a branch whose predicate is constantly true, appended last', kind='else-always-true')
    ef = prog.func('workchains._If.elif_')
    chk.ob('OWN-user-calls', ef, any(norm(c.func) == 'self._ifs.append' for c in calls_in_func(ef)), 'elif_ appends a conditional after the existing ones', kind='elif-appended')
    ol = prog.func('workchains.WorkChainSpec.outline')
    ok = any(last_name(c) == '_Block' and [norm(a) for a in c.args] == [ol.node.args.vararg.arg] for c in calls_in_func(ol))
    chk.ob('OWN-user-calls', ol, ok, 'the outline is the block of the commands in the order given', kind='outline-block')
    wc = prog.func('workchains.WorkChain.run')
    rets = [r for r in ast.walk(wc.node) if isinstance(r, ast.Return)]
    chk.ob('OWN-user-calls', wc, len(rets) == 1 and norm(rets[0].value) == 'self._do_step()', 'the first step of a workchain is the first outline instruction', kind='run-is-do-step')
    chk.assumptions.append('sequencing over all outlines and valuations (nesting, fall-through) is interpreter correctness and is not decided')
