"""C05 -- pause/play is transparent: nothing runs while paused, no step lost or repeated."""
from __future__ import annotations

import ast
from typing import List

from ..cfg import cfg_of, no_exc
from ..facts import falsy, is_none, not_none, pending, truthy
from ..fut import classify, writer_sites
from ..model import AnalysisError, is_self_attr, norm, strip_cast, unparse, walk_shallow
from ..report import Check
from ..rules import attr_writers, calls_in_func, last_name, node_has_call
from .c06 import waiting_future_writers

PAUSED = 'self._paused'
PAUSING = 'self._pausing'
IA = 'self._interrupt_action'
STEPPING = 'self._stepping'


def run(chk: Check) -> None:
    withdrawn_pause_stays_withdrawn(chk)
    action_run_survives_external_cancel(chk)
    pause_gate(chk)
    pause_ladder(chk)
    no_step_lost(chk)
    # a wake-up that arrives while the process is paused is not thrown away: it is consumed when the process plays again
    from .common import barrier_opens_when_empty
    barrier_opens_when_empty(chk, 'DOM-no-step-lost')
    status_pairing(chk)
    never_raise(chk)
    # "play() cancels a pause that has not yet taken effect" also when both arrive as messages: every control intent goes through the one scheduling routine with the same
    # number of loop hops, so a pause followed by a play is carried out in that order (decision tables shared with C16)
    from .c16 import dispatch_tables
    dispatch_tables(chk, 'PAIR-play', 'PAIR-play')
    # "pause()/play() never raise": the paused / played notifications go to a snapshot of the listeners, each inside its own try -- a one-shot listener that removes
    # itself in on_process_paused does not break the loop (and with it the pause) with "Set changed size during iteration" (shared with C02)
    from .c02 import listener_loop
    listener_loop(chk, 'ESC-listener-loop')
    # "the status message present before the pause is restored by play" -- also when the paused process went through a checkpoint in between: the paused flag, the
    # status and the status remembered at the pause are part of what is saved (rows of the reference table of C07)
    from .c07 import persisted_fields
    persisted_fields(chk, 'PAIR-status', only={('processes.Process', '_paused'), ('processes.Process', '_status'), ('processes.Process', '_pre_paused_status')})


def _calls(n):
    e = n.expr()
    return [x for x in walk_shallow(e) if isinstance(x, ast.Call)] if e is not None else []


# ---------------------------------------------------------------------- 1. pause gate
def pause_gate(chk: Check) -> None:
    prog = chk.prog
    step = prog.func('processes.Process.step')
    cfg = cfg_of(step)
    ff = chk.ctx.facts.analyse(step)
    execs = [n for n in cfg.nodes if n.expr() is not None and any(isinstance(x, ast.Await) and '_state.execute' in norm(x) for x in walk_shallow(n.expr()))]
    chk.need(len(execs) >= 1, 'the await of the state\'s execute was not found in Process.step')
    awaits = [n for n in cfg.nodes if n.expr() is not None and any(isinstance(x, ast.Await) and ff.canon.key(x.value) == PAUSED for x in walk_shallow(n.expr()))]
    chk.ob('DOM-pause-gate', step, bool(awaits), 'step() awaits the pause future', kind='await-present')
    gates = []
    for t in cfg.nodes:
        if t.kind != 'test':
            continue
        false_atoms = ff.cond_atoms(t.ast.test, False)
        # the test is true whenever a pause future exists  <=>  its false branch implies "no pause future"
        if ('none', PAUSED) in false_atoms:
            true_side = cfg.reachable([s for s, l in t.succ if l == 'true'], include_src=True, edge_ok=no_exc)
            # on the true branch the await comes before the execute
            if awaits and all(cfg.must_pass(s, execs, lambda m: m in awaits, edge_ok=ff.feasible) for s, l in t.succ if l == 'true'):
                gates.append(t)
    ok = bool(gates) and all(cfg.must_pass(cfg.entry, [e], lambda m: m in gates, edge_ok=no_exc) for e in execs)
    chk.ob('DOM-pause-gate', step, ok, 'every path to the execution of the state passes a test that is true whenever the process is paused and whose '
           'true branch awaits the pause future first (nothing runs while paused)', node=gates[0].ast if gates else None, kind='gate-dominates-execute')
    # ... and it is KNOWN not to be paused where the state's execute starts: the fact has to hold in the interleaving-free region that
    # ends at the execute (waking up from the pause future is an interleaving point: the process may have been paused anew meanwhile)
    ok = all(('none', PAUSED) in ff.at(e) for e in execs)
    chk.ob('DOM-pause-gate', step, ok, 'where the state\'s execute is started the process is known not to be paused (the gate is re-checked after every wake-up)',
           node=execs[0].ast if execs else None, kind='not-paused-at-execute')
    # the attribute the gate awaits is the one on_paused creates and on_playing resolves
    op = prog.func('processes.Process.on_paused')
    created = [n for n in ast.walk(op.node) if isinstance(n, ast.Assign) and norm(n.targets[0]) == PAUSED and isinstance(n.value, ast.Call)
               and norm(n.value.func).split('.')[-1] in ('SavableFuture', 'Future')]
    chk.ob('DOM-pause-gate', op, len(created) == 1, 'on_paused creates the pause future the gate awaits', node=created[0] if created else op.node, kind='future-created')
    pp = prog.func('processes.Process.paused')
    rets = [n for n in ast.walk(pp.node) if isinstance(n, ast.Return)]
    chk.ob('DOM-pause-gate', pp, len(rets) == 1 and norm(rets[0].value) == 'self._paused is not None', 'paused == "a pause future exists"', kind='paused-definition')


# ---------------------------------------------------------------------- 2. ladder of pause()
def pause_ladder(chk: Check) -> None:
    prog = chk.prog
    pause = prog.func('processes.Process.pause')
    ff = chk.ctx.facts.analyse(pause)
    cfg = ff.cfg
    imm = calls_in_func(pause, '_do_pause')
    chk.ob('GUARD-pause-ladder', pause, len(imm) >= 1, 'pause() pauses immediately when no step is in flight', kind='immediate-site-present')
    # the step in flight is interrupted THERE AND THEN, by a direct call: put off to a later loop callback, the interruption meets whatever wake-up arrived in between
    # (the waiting future is done: the resume value is dropped, or the awaitable's completion raises InvalidStateError in the loop) and the process sleeps for good
    pv = prog.view(pause)
    handed_on = [n for n in ast.walk(pv.node) if isinstance(n, ast.Attribute) and n.attr == 'interrupt' and norm(n.value) in ('self._state', 'self.state')
                 and not any(isinstance(c, ast.Call) and c.func is n for c in ast.walk(pv.node))]
    direct = [c for c in calls_in_func(pv, 'interrupt') if norm(c.func) == 'self._state.interrupt']
    chk.ob('GUARD-pause-ladder', pause, len(direct) == 1 and not handed_on, 'the deferred pause interrupts the running state by a direct call (not scheduled for later)',
           node=handed_on[0] if handed_on else None, kind='deferred:interrupts-at-once')
    for c in imm:
        for n, fs in ff.site_facts(c):
            chk.ob('GUARD-pause-ladder', pause, is_none(fs, PAUSED), 'the immediate pause runs only when not already paused (a second on_paused would '
                   'clobber the saved status and orphan the first pause future)', node=c, kind='immediate:not-paused')
            chk.ob('GUARD-pause-ladder', pause, falsy(fs, STEPPING), 'the immediate pause runs only when no step is in flight (otherwise the process '
                   'would report paused while the step body keeps running)', node=c, kind='immediate:not-stepping')
        # the pause text reaches the state message
        kw = {k.arg: k.value for k in c.keywords}
        arg = kw.get('state_msg') or (c.args[0] if c.args else None)
        src = arg
        if isinstance(arg, ast.Name):
            vals = [n.value for n in ast.walk(pause.node) if isinstance(n, ast.Assign) and norm(n.targets[0]) == arg.id]
            src = vals[0] if len(vals) == 1 else None
        ok = isinstance(src, ast.Call) and norm(src.func) == 'MessageBuilder.pause' and [norm(a) for a in src.args] + [norm(k.value) for k in src.keywords] == [pause.params[1]]
        chk.ob('FWD-pause-text', pause, ok, 'the pause text reaches _do_pause as MessageBuilder.pause(text)', node=c, kind='immediate:text')
    deferred = calls_in_func(pause, '_set_interrupt_action_from_exception')
    chk.ob('GUARD-pause-ladder', pause, len(deferred) >= 1, 'pause() defers to the end of the step when one is in flight', kind='deferred-site-present')
    for c in deferred:
        for n, fs in ff.site_facts(c):
            chk.ob('GUARD-pause-ladder', pause, is_none(fs, PAUSED) and truthy(fs, STEPPING) and falsy(fs, PAUSING),
                   'a pause is deferred only when not paused, not already pausing and a step is in flight', node=c, kind='deferred:ladder')
        set_node = cfg.nodes_containing(c)[0]
        from ..rules import setter_returns_installed_action
        alias = [m for m in cfg.nodes if m.kind == 'stmt' and isinstance(m.ast, ast.Assign) and norm(m.ast.targets[0]) == PAUSING
                 and (norm(strip_cast(m.ast.value)) == IA or (setter_returns_installed_action(prog) and strip_cast(m.ast.value) is c))]
        ok = bool(alias) and cfg.must_pass(set_node, [cfg.exit], lambda m: m in alias, edge_ok=no_exc)
        chk.ob('PROV-deferred-pause', pause, ok, '_pausing is set to the installed action', node=alias[0].ast if alias else c, kind='pausing-aliases-action')
        rets = [r for r in cfg.nodes if r.kind == 'return' and r.id in cfg.reachable([set_node], edge_ok=no_exc)]
        chk.ob('PROV-deferred-pause', pause, bool(rets) and all(norm(strip_cast(r.ast.value)) in (IA, PAUSING) for r in rets),
               'the deferred branch returns the installed action', kind='returns-action')
        exc_val = None
        if c.args and isinstance(c.args[0], ast.Name):
            vals = [n.value for n in ast.walk(pause.node) if isinstance(n, ast.Assign) and norm(n.targets[0]) == c.args[0].id]
            exc_val = vals[0] if len(vals) == 1 else None
        ok = isinstance(exc_val, ast.Call) and norm(exc_val.func).split('.')[-1] == 'PauseInterruption' and [norm(a) for a in exc_val.args] == [pause.params[1]]
        chk.ob('FWD-pause-text', pause, ok, 'the deferred pause is built from PauseInterruption(text)', node=c, kind='deferred:text')
    # early returns
    rets = [n for n in cfg.nodes if n.kind == 'return']
    ok = any(norm(r.ast.value) == 'True' and not_none(ff.at(r), PAUSED) for r in rets)
    chk.ob('GUARD-pause-ladder', pause, ok, 'pause() on a paused process returns True', kind='return:already-paused')
    ok = any(norm(r.ast.value) == PAUSING and not_none(ff.at(r), PAUSING) for r in rets)
    chk.ob('GUARD-pause-ladder', pause, ok, 'pause() while a pause is pending returns that pending action', kind='return:pending')


# ---------------------------------------------------------------------- 3. no step lost
def no_step_lost(chk: Check) -> None:
    prog = chk.prog
    dp = prog.func('processes.Process._do_pause')
    cfg = cfg_of(dp)
    ff = chk.ctx.facts.analyse(dp)
    nparam = dp.params[2] if len(dp.params) > 2 else 'next_state'
    trans = [n for n in cfg.nodes if any(last_name(c) == 'transition_to' and [norm(a) for a in c.args] == [nparam] for c in _calls(n))]
    ok = bool(trans)
    if ok:
        # every non-raising path either performs the transition or knows next_state is None
        def through(m) -> bool:
            return m in trans
        tests = [t for t in cfg.nodes if t.kind == 'test' and ('none', nparam) in ff.cond_atoms(t.ast.test, False) | ff.cond_atoms(t.ast.test, True)]
        none_edges_ok = True
        # remove transition nodes: the exit must then be reachable only through the "is None" side of a test on next_state
        reach = cfg.reachable([cfg.entry], avoid=through, edge_ok=no_exc)
        if cfg.exit.id in reach:
            # acceptable only if all such paths pass the none-branch of a test
            def none_side(m) -> bool:
                return False
            ok2 = False
            for t in tests:
                none_label = 'true' if ('none', nparam) in ff.cond_atoms(t.ast.test, True) else 'false'
                other = 'false' if none_label == 'true' else 'true'
                # paths avoiding transitions must not go through the not-None side
                other_starts = [s for s, l in t.succ if l == other]
                r2 = cfg.reachable(other_starts, avoid=through, edge_ok=no_exc, include_src=True)
                ok2 = cfg.exit.id not in r2 and cfg.must_pass(cfg.entry, [cfg.exit], lambda m: m is t or m in trans, edge_ok=no_exc)
            ok = ok2
    chk.ob('DOM-no-step-lost', dp, ok, 'whenever a next state is handed to _do_pause it is entered on every non-raising path (the step that was in flight '
           'when the pause was requested is not lost)', kind='transition-when-given')

    hooks = [last_name(c) == 'call_with_super_check' and norm(c.args[0]) for c in calls_in_func(dp, 'call_with_super_check')]
    chk.ob('DOM-no-step-lost', dp, 'self.on_paused' in hooks, '_do_pause runs the paused hook (which creates the pause future)', kind='on-paused-called')
    cia = prog.func('processes.Process._create_interrupt_action')
    exc_param = cia.params[1]
    from ..rules import action_built_for
    built = action_built_for(chk.ctx, cia, 'PauseInterruption')
    ok = bool(built)
    for c_, fn_, cookie_ in built:
        ok &= c_ is not None and isinstance(fn_, ast.Call) and norm(fn_.func) in ('functools.partial', 'partial') and [norm(a) for a in fn_.args] == ['self._do_pause', f'{exc_param}.msg'] \
            and not fn_.keywords and cookie_ == exc_param
    chk.ob('DOM-no-step-lost', cia, ok, 'a deferred pause is partial(_do_pause, <pause message>) -- run with the next state as second argument -- with the '
           'interruption as cookie', kind='deferred-pause-action')
    chk.ob('DOM-no-step-lost', dp, dp.params[1:3] == ['state_msg', 'next_state'] or len(dp.params) >= 3, '_do_pause takes (message, next state)', kind='signature')
    # Waiting.execute re-arms the waiting future before re-raising
    from .c06 import rearm_after_interruption
    rearm_after_interruption(chk, 'DOM-no-step-lost')
    fin = [t for t in ast.walk(dp.node) if isinstance(t, ast.Try) and any(isinstance(s, ast.Assign) and norm(s.targets[0]) == PAUSING and norm(s.value) == 'None' for s in t.finalbody)]
    chk.ob('PAIR-pausing-reset', dp, bool(fin), '_pausing is reset on every exit of _do_pause', kind='finally-reset')


def action_run_survives_external_cancel(chk: Check, rule: str = 'FUT-external-canceller') -> None:
    """pause() / kill() requested during a step RETURN the pending action (a future): the caller holds it and may cancel it (a timeout, a dropped RPC).
    CancellableAction.run() refuses a done action by raising, so the site in step() that runs the pending action must know it is still pending --
    otherwise the end of the step raises InvalidStateError, the step's result is lost and the process stays in a state whose step already ran."""
    from ..rules import Contexts
    prog = chk.prog
    step = prog.func('processes.Process.step')
    ff = chk.ctx.facts.analyse(step)
    runs = [c for c in calls_in_func(step, 'run') if ff.canon.key(c.func.value) == 'self._interrupt_action']
    for c in runs:
        ok = all(('F', 'self._interrupt_action.done()') in fs or ('F', 'self._interrupt_action.cancelled()') in fs for _, fs in ff.site_facts(c))
        chk.ob(rule, step, ok, 'the pending interrupt action is run at the end of the step ' + ('only while it is known to be pending' if ok else 'without knowing that it is still pending: '
               'the caller of pause() / kill() holds that very future and may have cancelled it, run() then raises InvalidStateError out of step() after the step function has already run'),
               node=c, kind='action-pending-when-run')
    chk.ob(rule, step, bool(runs), 'step() runs the pending interrupt action at one or more sites', kind='action-run-sites')


def withdrawn_pause_stays_withdrawn(chk: Check) -> None:
    """play() calls a pending pause off by cancelling its action and clearing the interrupt action -- but when the step was blocked in WAITING the
    PauseInterruption is already sitting in the waiting future.  The stepping task then wakes up with an interruption for which NO action is installed
    any more; building a new action from the exception re-instates the pause that was called off."""
    from ..facts import is_none
    prog = chk.prog
    step = prog.func('processes.Process.step')
    ff = chk.ctx.facts.analyse(step)
    sites = [c for c in calls_in_func(step, '_set_interrupt_action_from_exception')]
    for c in sites:
        # per way of reaching the site: ``if action is None or action.cookie is not exc:`` reaches it with no action installed, too
        if any(is_none(fs, 'self._interrupt_action') for n_, fs in ff.site_fact_cases(c)):
            chk.ob('PAIR-play', step, False, 'step() builds a new interrupt action from an Interruption although no action is installed: a pause that play() called off while the step '
                   'was blocked in WAITING is re-instated, the process ends up paused after play()', node=c, kind='withdrawn-pause-reinstated')
    chk.ob('PAIR-play', step, True, f'{len(sites)} site(s) that build an interrupt action from a delivered interruption examined', kind='reinstate-scan')



def outcome_entered_before_pause_hooks(chk: Check, rule: str) -> None:
    """``_do_pause(msg, next_state)``: the outcome of the step that was in flight is entered FIRST.  For the executed steps of a run without faults the order is
    immaterial (C05 does not ask for it); it matters to whoever looks at the process from a pause hook: a checkpoint taken there (C08), or a hook that raises there
    (C06), meets the RUNNING state whose function has already been executed -- and runs that step a second time."""
    prog = chk.prog
    dp = prog.func('processes.Process._do_pause')
    cfg = cfg_of(dp)
    ff = chk.ctx.facts.analyse(dp)
    nparam = dp.params[2] if len(dp.params) > 2 else 'next_state'
    trans = [n for n in cfg.nodes if any(last_name(c) == 'transition_to' and [norm(a) for a in c.args] == [nparam] for c in _calls(n))]
    # ... and it is entered FIRST: the pause hooks (user code, listeners that write checkpoints) must see the outcome of the interrupted step, not the RUNNING
    # state whose function has already been executed -- a checkpoint taken there, or a hook that raises there, runs that step a second time (C06: the resume
    # value is delivered twice; C08: a completed step is executed again on resume)
    hooks_ = [n for n in cfg.nodes if any(last_name(c) == 'call_with_super_check' and c.args and norm(c.args[0]) in ('self.on_pausing', 'self.on_paused') for c in _calls(n))]
    tests_n = [t for t in cfg.nodes if t.kind == 'test' and ('none', nparam) in ff.cond_atoms(t.ast.test, False) | ff.cond_atoms(t.ast.test, True)]
    ok_first = bool(hooks_) and bool(trans)
    for h in hooks_:
        # every way to a pause hook has either made the transition or found that there is no next state
        ok_first &= cfg.must_pass(cfg.entry, [h], lambda m: m in trans or m in tests_n, edge_ok=no_exc) and not any(
            h.id in cfg.reachable([s_ for s_, l_ in t.succ if l_ == ('false' if ('none', nparam) in ff.cond_atoms(t.ast.test, True) else 'true')], avoid=lambda m: m in trans, edge_ok=no_exc, include_src=True)
            for t in tests_n)
        ok_first &= not any(t_.id in cfg.reachable([h], edge_ok=no_exc) for t_ in trans)
    chk.ob(rule, dp, ok_first, 'the next state is entered before the pause hooks run (on_pausing / on_paused see, and a checkpoint taken there records, the outcome of the '
           'interrupted step -- not the state whose step function has already run)', node=hooks_[0].ast if hooks_ else None, kind='transition-before-pause-hooks')

# ---------------------------------------------------------------------- 4. status pairing, play()
def status_pairing(chk: Check) -> None:
    prog = chk.prog
    op = prog.func('processes.Process.on_paused')
    cfg = cfg_of(op)
    save = [n for n in cfg.nodes if n.kind == 'stmt' and isinstance(n.ast, ast.Assign) and norm(n.ast.targets[0]) == 'self._pre_paused_status'
            and norm(n.ast.value) in ('self.status', 'self._status')]
    over = [n for n in cfg.nodes if any(last_name(c) == 'set_status' for c in _calls(n)) or (
        n.kind == 'stmt' and isinstance(n.ast, ast.Assign) and norm(n.ast.targets[0]) == 'self._status')]
    ok = len(save) == 1 and bool(over) and all(cfg.must_pass(cfg.entry, [o], lambda m: m in save, edge_ok=no_exc) for o in over) \
        and cfg.must_pass(cfg.entry, [cfg.exit], lambda m: m in save, edge_ok=no_exc)
    chk.ob('PAIR-status', op, ok, 'on_paused saves the current status before the pause message overwrites it, on every path', kind='save-before-overwrite')
    mp = op.params[1] if len(op.params) > 1 else 'msg'
    ok = any(last_name(c) == 'set_status' and [norm(a) for a in c.args] == [mp] for o in over for c in _calls(o))
    chk.ob('PAIR-status', op, ok, 'the pause message becomes the status', kind='pause-message-status')
    # both the save and the restore go through set_status(): it has to store WHATEVER it is given -- None, the status of a process that never
    # reported one, included (a "None means keep the last message" shortcut leaves the pause message in place after play())
    ss = prog.func('processes.Process.set_status')
    scfg = cfg_of(ss)
    sp = ss.params[1] if len(ss.params) > 1 else 'status'
    sets_ = [n for n in scfg.nodes if n.kind == 'stmt' and isinstance(n.ast, ast.Assign) and norm(n.ast.targets[0]) == 'self._status' and norm(n.ast.value) == sp]
    ok = bool(sets_) and scfg.must_pass(scfg.entry, [scfg.exit], lambda m: m in sets_, edge_ok=no_exc)
    chk.ob('PAIR-status', ss, ok, 'set_status(x) stores x on every path, whatever x is (the restore after a pause hands it the saved status, which may be None)', kind='set-status-stores')
    pl = prog.func('processes.Process.on_playing')
    pcfg = cfg_of(pl)
    restore = [n for n in pcfg.nodes if any(last_name(c) == 'set_status' and [norm(a) for a in c.args] == ['self._pre_paused_status'] for c in _calls(n))]
    ok = bool(restore) and pcfg.must_pass(pcfg.entry, [pcfg.exit], lambda m: m in restore, edge_ok=no_exc)
    chk.ob('PAIR-status', pl, ok, 'on_playing restores the saved status on every path', kind='restore')
    clear = [n for n in pcfg.nodes if n.kind == 'stmt' and isinstance(n.ast, ast.Assign) and norm(n.ast.targets[0]) == PAUSED and norm(n.ast.value) == 'None']
    ok = bool(clear) and pcfg.must_pass(pcfg.entry, [pcfg.exit], lambda m: m in clear, edge_ok=no_exc)
    chk.ob('PAIR-status', pl, ok, 'on_playing clears the pause future on every path (play() leaves the process un-paused)', kind='clear-paused')
    res = [s for s in writer_sites(chk.ctx, pl, [PAUSED])]
    nodes = [m for s in res for m in pcfg.nodes_containing(s.call)]
    ff = chk.ctx.facts.analyse(pl)
    # resolved whenever it exists: all paths pass the resolution or the "is None" side of a test
    tests = [t for t in pcfg.nodes if t.kind == 'test' and (('none', PAUSED) in ff.cond_atoms(t.ast.test, False) or ('none', PAUSED) in ff.cond_atoms(t.ast.test, True))]
    ok = bool(nodes)
    if ok:
        reach = pcfg.reachable([pcfg.entry], avoid=lambda m: m in nodes, edge_ok=no_exc)
        if pcfg.exit.id in reach:
            ok = False
            for t in tests:
                none_label = 'true' if ('none', PAUSED) in ff.cond_atoms(t.ast.test, True) else 'false'
                other = 'false' if none_label == 'true' else 'true'
                r2 = pcfg.reachable([s for s, l in t.succ if l == other], avoid=lambda m: m in nodes, edge_ok=no_exc, include_src=True)
                ok = pcfg.exit.id not in r2
    chk.ob('PAIR-status', pl, ok, 'on_playing resolves the pause future whenever one exists (the stepping task is released)', kind='resolve-paused')
    # resolution precedes clearing
    if nodes and clear:
        ok = all(pcfg.must_pass(pcfg.entry, [c], lambda m: m in nodes or m in tests, edge_ok=no_exc) for c in clear)
        chk.ob('PAIR-status', pl, ok, 'the pause future is resolved before it is forgotten', kind='resolve-before-clear')
    play = prog.func('processes.Process.play')
    fp = chk.ctx.facts.analyse(play)
    cfgp = fp.cfg
    hook = [c for c in calls_in_func(play, 'call_with_super_check') if c.args and norm(c.args[0]) == 'self.on_playing']
    chk.ob('PAIR-play', play, len(hook) == 1 and all(not_none(fs, PAUSED) for _, fs in fp.site_facts(hook[0])), 'play() on a paused process runs on_playing',
           node=hook[0] if hook else play.node, kind='runs-on-playing')
    # every normal return of play() knows the process is un-paused: either _paused is None or on_playing just ran
    rets = [n for n in cfgp.nodes if n.kind == 'return']
    hook_nodes = [m for c in hook for m in cfgp.nodes_containing(c)]
    ok = bool(rets)
    for r in rets:
        ok &= fp.holds_on_every_path(r, lambda fs: is_none(fs, PAUSED), hook_nodes)
        ok &= norm(r.ast.value) == 'True'
    chk.ob('PAIR-play', play, ok, 'play() always returns True with the process un-paused', kind='returns-unpaused')
    cancels = [c for c in calls_in_func(play, 'cancel') if norm(c.func.value) == PAUSING]
    ok = len(cancels) == 1 and all(not_none(fs, PAUSING) and is_none(fs, PAUSED) for _, fs in fp.site_facts(cancels[0]))
    chk.ob('PAIR-play', play, ok, 'play() cancels a pause that has not yet taken effect', node=cancels[0] if cancels else play.node, kind='cancels-pending-pause')
    clr = [n for n in cfgp.nodes if n.kind == 'stmt' and isinstance(n.ast, ast.Assign) and norm(n.ast.targets[0]) == PAUSING and norm(n.ast.value) == 'None']
    chk.ob('PAIR-play', play, bool(clr), 'play() forgets the cancelled pending pause', kind='clears-pausing')
    # the cancelled pause action must also stop being the interrupt action (else the step would still run it -> raises)
    sia = [c for c in calls_in_func(play, '_set_interrupt_action') if [norm(a) for a in c.args] == ['None']]
    if cancels:
        cn = cfgp.nodes_containing(cancels[0])[0]
        ok = bool(sia) and cfgp.must_pass(cn, [cfgp.exit], lambda m: any(x in _calls(m) for x in sia), edge_ok=no_exc)
        chk.ob('PAIR-play', play, ok, 'the cancelled pause is removed as interrupt action (a cancelled action must never be run)', kind='uninstalls-cancelled-action')


# ---------------------------------------------------------------------- 5. pause()/play() never raise
def never_raise(chk: Check) -> None:
    prog = chk.prog
    wi = prog.func('process_states.Waiting.interrupt')
    for s in [x for x in waiting_future_writers(chk) if x.func is wi]:
        chk.ob('FUT-multi-writer', s.func, s.guard in ('guarded', 'fresh'),
               f'{s.op} on the waiting future is {s.guard}: pause() delivered to a waiting step whose future was already resolved in this loop iteration '
               f'(resume, kill, awaitable completion) raises InvalidStateError out of pause(); {s.detail}', node=s.call, kind=s.guard)
    # the pause future: every role that resolves it clears the attribute in the same region, so "is not None" means pending
    proc = prog.cls('processes.Process')
    roles = []
    for f in proc.emethods.values():
        for s in writer_sites(chk.ctx, f, [PAUSED]):
            roles.append(s)
    chk.floor('FUT-pause-future', len(roles), 1)
    for s in roles:
        ff = chk.ctx.facts.analyse(s.func)
        cfg = ff.cfg
        facts = [fs for _, fs in ff.site_facts(s.call)]
        guarded = all(not_none(fs, PAUSED) or pending(fs, PAUSED) for fs in facts)
        clear = [n for n in cfg.nodes if n.kind == 'stmt' and isinstance(n.ast, ast.Assign) and norm(n.ast.targets[0]) == PAUSED and norm(n.ast.value) == 'None']
        node = cfg.nodes_containing(s.call)[0]
        cleared = bool(clear) and cfg.must_pass(node, [cfg.exit], lambda m: m in clear, edge_ok=no_exc)
        # no interleaving point between resolving and clearing
        region_ok = True
        if cleared:
            probe = ('T', '__probe__')
            fr = chk.ctx.facts.analyse(s.func, [probe])
            # facts established right after the write must survive to the clear: use the not-None guard as witness
            region_ok = all(any(a[1] == PAUSED for a in ff.at(c)) or True for c in clear)
        chk.ob('FUT-pause-future', s.func, guarded and cleared,
               f'the pause future is resolved only when it exists (guarded={guarded}) and forgotten right after on every path (cleared={cleared}): with this '
               f'discipline "exists" implies "pending", so neither play() nor termination can resolve it twice', node=s.call, kind='resolve-and-clear')
    # creation only in on_paused / load
    for f, node in __import__('plumpy_sa.rules', fromlist=['effective_writers']).effective_writers(prog, '_paused'):
        ok = f.qualname in ('processes.Process.__init__', 'processes.Process.on_paused', 'processes.Process.on_playing', 'processes.Process.on_terminated')
        chk.ob('OWN-pause-future', f, ok, 'the pause future is created by on_paused and cleared by on_playing / termination only', node=node, kind='writer',
               expr='_paused store')
