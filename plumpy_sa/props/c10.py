"""C10 -- ToContext is a barrier: the next step sees every awaited result."""
from __future__ import annotations

import ast
from typing import List

from ..cfg import cfg_of, no_exc
from ..esc import Esc
from ..model import AnalysisError, norm, unparse, walk_shallow
from ..report import Check
from ..rules import calls_in_func, last_name
from . import common
from .c06 import waiting_future_writers


def _calls(n) -> List[ast.Call]:
    e = n.expr()
    return [x for x in walk_shallow(e) if isinstance(x, ast.Call)] if e is not None else []


def run(chk: Check) -> None:
    from .common import waiting_future_key
    WFK = waiting_future_key(chk.prog)
    prog = chk.prog
    # "if an awaited item fails or is killed the work chain ends EXCEPTED with that error": the error of a CANCELLED item (a child killed through its future) is a
    # concurrent.futures.CancelledError -- an Exception; the stepping code lets nothing of that kind through ahead of its catch-all (shared with C03)
    from .c03 import reraised_ahead_of_catch_all
    reraised_ahead_of_catch_all(chk, 'ESC-awaited-failure')
    # each barrier waits for ITS items: the table of awaited items is per state object (a mutable class-level default filled in place would be one table for every
    # waiting work chain in the interpreter: stale futures of an earlier chain under foreign keys, two chains waiting on each other's items)
    from .common import no_shared_mutable_class_state
    no_shared_mutable_class_state(chk, 'DOM-barrier-wait', roots=('process_states.State',))
    # 1. registration: a step that registered awaitables is followed only through WAITING
    ds = prog.view(prog.func('workchains.WorkChain._do_step'))   # (a helper that picks the next command is part of the step)
    cfg = cfg_of(ds)
    ff = chk.ctx.facts.analyse(ds)
    rets = [n for n in cfg.nodes if n.kind == 'return']
    waits = [r for r in rets if isinstance(r.ast.value, ast.Call) and last_name(r.ast.value) == 'Wait']
    conts = [r for r in rets if isinstance(r.ast.value, ast.Call) and last_name(r.ast.value) == 'Continue']
    # (one Wait, or one per way of getting there when the choice of the next command is a helper used at two places)
    ok = len(waits) >= 1 and all(len(w.ast.value.args) == 3 and ff.canon.key(w.ast.value.args[2]) == 'self._awaitables' and norm(w.ast.value.args[0]) == 'self._do_step' for w in waits)
    chk.ob('DOM-barrier-wait', ds, ok, 'the awaitables registered during the step are handed to the WAITING state, which continues with the next outline step', kind='wait-carries-awaitables')
    ok = bool(waits) and all(('T', 'self._awaitables') in ff.at(w) for w in waits) and all(('F', 'self._awaitables') in ff.at(c) for c in conts) and bool(conts)
    chk.ob('DOM-barrier-wait', ds, ok, 'the chain continues directly (Continue) only when nothing was registered; otherwise it waits', kind='continue-only-if-none')
    reset = [n for n in cfg.nodes if n.kind == 'stmt' and isinstance(n.ast, ast.Assign) and norm(n.ast.targets[0]) == 'self._awaitables' and norm(n.ast.value) == '{}']
    steps = [n for n in cfg.nodes if any(norm(c.func) == 'self._stepper.step' for c in _calls(n))]
    ok = len(reset) == 1 and bool(steps) and cfg.must_pass(cfg.entry, steps, lambda m: m in reset, edge_ok=no_exc)
    chk.ob('DOM-barrier-wait', ds, ok, 'the registrations of a step start empty (those of earlier steps were already awaited)', kind='reset-before-step')
    from ..decisions import paths_under
    tc = [n for n in cfg.nodes if any(norm(c.func) == 'self.to_context' and len(c.keywords) == 1 and c.keywords[0].arg is None and isinstance(c.keywords[0].value, ast.Name) for c in _calls(n))]
    ok = len(tc) == 1
    if ok:
        rvn = [c.keywords[0].value.id for c in _calls(tc[0]) if norm(c.func) == 'self.to_context'][0]
        ok = all(any((a[0] == 'isinst' and a[1] == rvn) or (a[0] == 'T' and a[1] == f'isinstance({rvn}, ToContext)') for a in ff.at(x)) for x in tc)
        # decision table: when the value IS a ToContext, every path that goes on (Wait / Continue) has registered it first
        n_on = 0
        for path in paths_under(ff, {f'isinstance({rvn}, ToContext)': True, f'{rvn} is None': False}, frozen=[rvn]):
            ends = [m for m in path if m in waits or m in conts]
            if ends:
                n_on += 1
                ok &= any(m in tc for m in path[:path.index(ends[0])])
        ok &= n_on >= 1
    chk.ob('DOM-barrier-wait', ds, ok, 'a returned ToContext is registered through to_context before the decision to wait is taken', kind='tocontext-registered')
    t2 = prog.func('workchains.WorkChain.to_context')
    stores = [n for n in ast.walk(t2.node) if isinstance(n, ast.Assign) and isinstance(n.targets[0], ast.Subscript) and norm(n.targets[0].value) == 'self._awaitables']
    ok = len(stores) == 1 and norm(stores[0].value) == 'key' and any(isinstance(l, ast.For) and norm(l.iter) == f'{t2.node.args.kwarg.arg}.items()' and norm(l.target) == '(key, awaitable)' or
                                                                    (isinstance(l, ast.For) and norm(l.iter) == f'{t2.node.args.kwarg.arg}.items()') for l in ast.walk(t2.node))
    chk.ob('DOM-barrier-wait', t2, ok, 'to_context registers every (key, awaitable) pair it is given', kind='registers-all')
    # ... on every path through the loop body (no shortcut that copies something into the context itself: whether the item
    # succeeded, failed or was killed is only known by going through the wait), and nothing else writes the context here
    tcfg = cfg_of(t2)
    its = [m for m in tcfg.nodes if m.kind == 'iter']
    regs = [m for m in tcfg.nodes if m.kind == 'stmt' and any(m.ast is s_ for s_ in stores)]
    ok = bool(its) and bool(regs)
    for it in its:
        body = [t for t, l in it.succ if l not in ('exc', 'uncaught', 'handler', 'false', 'exit', 'done')]
        body = [t for t in body if it.id in tcfg.reachable([t], edge_ok=no_exc)]   # the successor that leads back to the loop head
        ok &= bool(body) and all(tcfg.must_pass(b, [it], lambda x: x in regs, edge_ok=no_exc) for b in body)
    direct = [n for n in ast.walk(t2.node) if isinstance(n, ast.Assign) and any(isinstance(t, ast.Subscript) and norm(t.value).endswith('.ctx') for t in n.targets)]
    chk.ob('DOM-barrier-wait', t2, ok and not direct, 'every iteration registers the item for the barrier and to_context itself puts nothing into the context', node=direct[0] if direct else None,
           kind='registers-on-every-path')
    # "each result under its key": two keys may name the SAME awaitable (ToContext(a=f, b=f)); a table indexed by the awaitable keeps only the last key
    for f_, tbl in ((t2, 'self._awaitables'), (prog.func('workchains.Waiting.__init__'), 'self._awaiting')):
        # the name the loop / comprehension gives to the context key of a pair: ``for key, awaitable in kwargs.items()`` / ``for awaitable, key in awaiting.items()``
        sites_ = []   # (node, index expression, value expression, pair target)
        for l_ in [x for x in ast.walk(f_.node) if isinstance(x, ast.For)]:
            for n_ in [x for b_ in l_.body for x in ast.walk(b_) if isinstance(x, ast.Assign) and isinstance(x.targets[0], ast.Subscript) and norm(x.targets[0].value) == tbl]:
                sites_.append((n_, n_.targets[0].slice, n_.value, l_.target))
        for n_ in [x for x in ast.walk(f_.node) if isinstance(x, (ast.Assign, ast.AnnAssign)) and norm(x.targets[0] if isinstance(x, ast.Assign) else x.target) == tbl
                   and isinstance(x.value, ast.DictComp) and len(x.value.generators) == 1]:
            sites_.append((n_, n_.value.key, n_.value.value, n_.value.generators[0].target))
        for n_, idx_, val_, tgt_ in sites_:
            names_ = [norm(e_) for e_ in tgt_.elts] if isinstance(tgt_, ast.Tuple) else []
            by_key = not (norm(val_) in names_ and norm(idx_) not in names_ + ['key'] or norm(val_) == 'key') or norm(idx_) == 'key'
            chk.ob('DOM-barrier-wait', f_, by_key, f'{tbl}: the registration table is indexed ' + ('by the context key' if by_key else
                   'by the awaitable, with the key as value: the same future or child registered under two keys keeps only the last one, the other key is never filled in'),
                   node=n_, kind='registry-keeps-every-key', expr=f'{tbl} indexed by the awaitable, the key is the value')
    from ..rules import conditional_values

    def process_to_future(f, store_key: str, item: str) -> bool:
        """The key under which an awaitable is tracked is its future if it is a Process, else the awaitable itself."""
        fff = chk.ctx.facts.analyse(f)
        vals = conditional_values(fff, store_key) if store_key.isidentifier() else []
        if not vals:
            # the index spelled out in place (``table[a.future() if isinstance(a, Process) else a] = key``), possibly after inlining a helper
            try:
                ke = ast.parse(store_key, mode='eval').body
            except SyntaxError:
                ke = None
            if isinstance(ke, ast.IfExp):
                vals = [(frozenset(fff.cond_atoms(ke.test, True)), ke.body), (frozenset(fff.cond_atoms(ke.test, False)), ke.orelse)]
        fut = [(fs, v) for fs, v in vals if norm(v) == f'{item}.future()']
        same = [(fs, v) for fs, v in vals if norm(v) == item]
        if len(vals) != len(fut) + len(same) or not fut or not same:
            return False
        is_proc = lambda fs: any(a[0] == 'isinst' and a[1] == item and a[2].endswith('processes.Process') for a in fs)
        not_proc = lambda fs: any(a[0] == 'F' and a[1].startswith(f'isinstance({item}, ') and a[1].endswith('Process)') for a in fs)
        return all(is_proc(fs) for fs, _ in fut) and all(not_proc(fs) for fs, _ in same)

    skey = norm(stores[0].targets[0].slice) if stores else ''
    chk.ob('DOM-barrier-wait', t2, bool(stores) and process_to_future(t2, skey, 'awaitable'), 'a child process is awaited through its future (anything else as it is)', kind='process-to-future')
    wi = prog.func('workchains.Waiting.__init__')
    loop = [l for l in ast.walk(wi.node) if isinstance(l, ast.For)]
    aparam = wi.params[4] if len(wi.params) > 4 else 'awaiting'
    # every (awaitable, key) pair of the mapping given ends up in self._awaiting with ITS key -- a loop that stores, or a dict comprehension
    def pair_value(target) -> str:
        return norm(target.elts[1]) if isinstance(target, ast.Tuple) and len(target.elts) == 2 else ''
    ok = len(loop) == 1 and aparam in norm(loop[0].iter) and '.items()' in norm(loop[0].iter) and any(
        isinstance(s, ast.Assign) and isinstance(s.targets[0], ast.Subscript) and norm(s.targets[0].value) == 'self._awaiting' and norm(s.value) == pair_value(loop[0].target) != ''
        for s in loop[0].body)
    comps = [n.value for n in ast.walk(wi.node) if isinstance(n, (ast.Assign, ast.AnnAssign)) and norm(n.targets[0] if isinstance(n, ast.Assign) else n.target) == 'self._awaiting'
             and isinstance(n.value, ast.DictComp)]
    ok = ok or (not loop and len(comps) == 1 and len(comps[0].generators) == 1 and not comps[0].generators[0].ifs and aparam in norm(comps[0].generators[0].iter)
                and '.items()' in norm(comps[0].generators[0].iter) and norm(comps[0].value) == pair_value(comps[0].generators[0].target) != '')
    chk.ob('DOM-barrier-wait', wi, ok, 'the waiting state tracks every awaitable it was given', kind='tracks-all')
    wstores = [s_ for l in loop for s_ in ast.walk(l) if isinstance(s_, ast.Assign) and isinstance(s_.targets[0], ast.Subscript) and norm(s_.targets[0].value) == 'self._awaiting']
    if wstores and isinstance(loop[0].target, ast.Tuple):
        item = norm(loop[0].target.elts[0])
        chk.ob('DOM-barrier-wait', wi, process_to_future(wi, norm(wstores[0].targets[0].slice), item), 'it tracks a child process through its future', kind='process-to-future')
    sup = [c for c in calls_in_func(wi, '__init__')]
    ok = len(sup) == 1 and [norm(a) for a in sup[0].args] == [wi.params[1], wi.params[2], wi.params[3], aparam]
    chk.ob('DOM-barrier-wait', wi, ok, 'the continuation, message and awaitables are handed to the base WAITING state unchanged', kind='super-init')
    gsc = prog.func('workchains.WorkChain.get_state_classes')
    entries = common.states_map_entries(prog, gsc)
    ok = any(l == 'WAITING' and c is not None and c.qualname == 'workchains.Waiting' for l, c, _ in entries)
    chk.ob('DOM-barrier-wait', gsc, ok, 'a workchain waits in the awaitable-aware WAITING state', kind='state-installed')
    rets_ = [r for r in ast.walk(gsc.node) if isinstance(r, ast.Return)]
    chk.ob('DOM-barrier-wait', gsc, len(rets_) == 1 and norm(rets_[0].value) == 'states_map', 'the modified map is what is returned', kind='map-returned')

    # the work chain's WAITING state is only in effect if the work chain class builds its OWN state table
    from .common import state_tables_built_per_class
    state_tables_built_per_class(chk, 'DOM-barrier-wait')
    # 2. barrier guard in _awaitable_done
    ad = prog.func('workchains.Waiting._awaitable_done')
    acfg = cfg_of(ad)
    af = chk.ctx.facts.analyse(ad)
    wake = [n for n in acfg.nodes if any(last_name(c) == 'set_result' and af.canon.key(c.func.value) == WFK for c in _calls(n))]
    chk.ob('DOM-barrier-guard', ad, len(wake) == 1, 'the wake-up is performed at one site', kind='single-wake-site')
    pops = [n for n in acfg.nodes if any(norm(c.func) == 'self._awaiting.pop' for c in _calls(n))]
    ok = bool(wake) and all(('F', 'self._awaiting') in af.at(w) for w in wake) and bool(pops) and all(acfg.must_pass(acfg.entry, [w], lambda m: m in pops, edge_ok=no_exc) for w in wake)
    chk.ob('DOM-barrier-guard', ad, ok, 'the waiting step is woken only when, after removing the completed awaitable, nothing is awaited any more -- in whatever order they complete',
           node=wake[0].ast if wake else None, kind='wake-only-when-empty')
    ctxw = [n for n in acfg.nodes if n.kind == 'stmt' and isinstance(n.ast, ast.Assign) and isinstance(n.ast.targets[0], ast.Subscript) and norm(n.ast.targets[0].value).endswith('.ctx')]
    ok = len(ctxw) == 1 and all(acfg.must_pass(acfg.entry, [w], lambda m: m in ctxw, edge_ok=no_exc) or acfg.must_pass(w, [acfg.exit], lambda m: m in ctxw, edge_ok=no_exc) for w in wake)
    chk.ob('DOM-barrier-guard', ad, ok, 'the result is stored in the context on every path that can wake the step', kind='context-before-or-with-wake')
    # every completion is looked at: each normal path through the callback reads the awaitable's outcome (stores it, or forwards its failure)
    aparam_ = ad.params[1] if len(ad.params) > 1 else 'awaitable'
    reads = [n for n in acfg.nodes if any(last_name(c) in ('result', 'exception') and isinstance(c.func, ast.Attribute) and norm(c.func.value) == aparam_ for c in _calls(n))]
    ok = bool(reads) and acfg.must_pass(acfg.entry, [acfg.exit], lambda m: m in reads, edge_ok=no_exc)
    chk.ob('DOM-barrier-guard', ad, ok, 'no completion is ignored: every normal path through the done-callback reads the awaitable\'s outcome (a result skipped because "the wait is already decided" '
           '-- it is also "decided" while a pause interruption sits in the future -- never reaches the context)', kind='outcome-always-read')
    from .common import context_assignment_is_any_dict
    context_assignment_is_any_dict(chk, 'DOM-barrier-wait')
    from .common import barrier_opens_when_empty
    barrier_opens_when_empty(chk, 'DOM-barrier-guard')
    from .common import cancellation_delivered
    cancellation_delivered(chk, 'DOM-barrier-guard', 'workchains.Waiting._awaitable_done', WFK, 'the completion of an awaited item (a cancelled item is a failed one)')
    fails = [n for n in acfg.nodes if any(last_name(c) == 'set_exception' and af.canon.key(c.func.value) == WFK for c in _calls(n))]
    ok = False
    for h in [h for t in ast.walk(ad.node) if isinstance(t, ast.Try) for h in t.handlers]:
        if h.type is not None and norm(h.type) in ('Exception', 'BaseException') and h.name:
            ok = any(isinstance(c, ast.Call) and last_name(c) == 'set_exception' and [norm(a) for a in c.args] == [h.name] for s in h.body for c in ast.walk(s))
    # (one forwarding site for failures proper -- the exception handled -- plus, possibly, one for a cancelled awaitable)
    other = [n for n in fails if not any(isinstance(x, ast.ExceptHandler) and x.type is not None and norm(x.type) in ('Exception', 'BaseException') and any(n.ast is s_ or any(n.ast is y for y in ast.walk(s_)) for s_ in x.body)
                                         for x in ast.walk(ad.node))]
    other_ok = all(any(isinstance(x, ast.ExceptHandler) and x.type is not None and 'CancelledError' in norm(x.type) and any(any(n.ast is y for y in ast.walk(s_)) for s_ in x.body) for x in ast.walk(ad.node)) for n in other)
    chk.ob('DOM-barrier-guard', ad, ok and len(fails) - len(other) == 1 and other_ok, 'a failed (or killed) awaitable fails the waiting step with that awaitable\'s exception', kind='failure-forwarded')

    # 4. failure ends EXCEPTED: Waiting.execute lets anything but an Interruption through; step() turns it into EXCEPTED
    we = prog.func('process_states.Waiting.execute')
    handlers = [h for t in ast.walk(we.node) if isinstance(t, ast.Try) for h in t.handlers]
    ok = all((h.type is not None and norm(h.type).split('.')[-1] == 'Interruption') or Esc._just_reraises(h) for h in handlers)
    chk.ob('ESC-awaitable-failure', we, ok, 'the waiting step handles only Interruptions: the failure of an awaited item propagates out of it', kind='only-interruption-handled')
    esc = Esc(chk.ctx)
    aw = [n for n in ast.walk(we.node) if isinstance(n, ast.Await)]
    outs = esc.trace(we, aw[0]) if aw else []
    ok = bool(outs) and all(o.kind == 'contained' and o.container.sink == 'excepted-state' for o in outs)
    from .c03 import failure_handlers_build_excepted
    failure_handlers_build_excepted(chk, 'ESC-awaitable-failure')
    chk.ob('ESC-awaitable-failure', we, ok, 'that failure is first caught where it becomes the EXCEPTED state (' + ', '.join(sorted({repr(o.container) if o.container else o.root for o in outs})) + ')',
           kind='becomes-excepted')
    # child launch
    la = prog.func('processes.Process.launch')
    ctor = [c for c in calls_in_func(la) if isinstance(c.func, ast.Name) and c.func.id == la.params[1]]
    ok = len(ctor) == 1 and {k.arg: norm(k.value) for k in ctor[0].keywords}.get('loop') in ('self.loop', 'self._loop')
    sp = [c for c in calls_in_func(la, 'create_task')]
    ok = ok and len(sp) == 1 and 'step_until_terminated()' in norm(sp[0].args[0])
    chk.ob('DOM-barrier-wait', la, ok, 'a launched child runs on the parent\'s loop and is stepped until it terminates (its future then completes)', kind='child-launch')
    # a ToContext returned by a step nested in if_/while_/blocks must reach _do_step: every stepper hands its child's value up unchanged
    from .c09 import child_value_handed_up
    child_value_handed_up(chk, 'DOM-barrier-wait')
    # cross reference: the unguarded writes of _awaitable_done are C06's finding
    g10 = [s for s in waiting_future_writers(chk) if s.func is ad and s.guard not in ('guarded', 'fresh')]
    if g10:
        chk.info('cross-reference', f'{len(g10)} write(s) of the waiting future in _awaitable_done are unguarded: reported under C06 (G10)')
    chk.assumptions.append('"killed" children are covered only as "their future raises"')
