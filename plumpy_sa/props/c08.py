"""C08 -- resuming from any checkpoint reproduces the uninterrupted execution (SYM + SIB on steppers and continuations)."""
from __future__ import annotations

import ast
from typing import Dict, List, Optional, Set

from ..cfg import cfg_of, no_exc
from ..model import AnalysisError, ClassInfo, FuncInfo, UNKNOWN, is_self_attr, norm, unparse, walk_shallow
from ..report import Check
from ..rules import calls_in_func, last_name
from .sym import (auto_persist_set, calls_super_on_all_paths, context_kwargs, context_reads, init_fields, loaded_bindings,
                  loaded_keys_of, saved_bindings, saved_keys_of)

STEPPERS = ['_FunctionStepper', '_BlockStepper', '_IfStepper', '_WhileStepper', '_ReturnStepper']
INSTRUCTIONS = {'_FunctionCall': '_FunctionStepper', '_Block': '_BlockStepper', '_If': '_IfStepper', '_While': '_WhileStepper', '_Return': '_ReturnStepper'}


def receiver_text(call: ast.Call) -> str:
    return norm(call.func.value) if isinstance(call.func, ast.Attribute) else ''


def load_restores_only_saved_children(chk: Check, rule: str) -> None:
    """A composite stepper that is loaded gets a child stepper only from a SAVED child state (recreate_stepper): "no child saved" is how a conditional that has not
    been decided yet -- or a block position whose instruction has not started -- looks in a checkpoint; creating a fresh child for it on load enters a branch whose
    predicate was never evaluated (shared with C09)."""
    prog = chk.prog
    n = 0
    for sname in ('_BlockStepper', '_IfStepper', '_WhileStepper'):
        c = prog.cls(f'workchains.{sname}')
        lf = c.vmethods.get('load_instance_state')
        if lf is None:
            continue
        lf = prog.view(lf)
        n += 1
        made = [x for x in calls_in_func(lf, 'create_stepper')]
        chk.ob(rule, lf, not made, f'{sname}.load_instance_state builds a child stepper from saved state only' + ('' if not made else
               f': {norm(made[0])} starts a body that the running stepper would only have entered after evaluating its predicate'), node=made[0] if made else None,
               kind='no-fresh-child-on-load')
    chk.floor(f'{rule}:composite-loaders', n, 3)


def child_selector_agreement(chk: Check, rule: str = 'SIB-child-selector') -> None:
    """The nested steppers restore their child from the instruction the running stepper created it from (shared with C07: a bundle taken inside an ``elif_`` body
    has to load, and load into the same branch)."""
    prog = chk.prog
    # child selection: the selector used on load equals the one used when the running stepper creates that child
    for sname in ('_BlockStepper', '_IfStepper', '_WhileStepper'):
        c = prog.cls(f'workchains.{sname}')
        creates: Set[str] = set()
        for f in c.emethods.values():
            for x in calls_in_func(f, 'create_stepper'):
                from ..rules import Resolver as _Rcs
                r = norm(_Rcs(f).expand(x.func.value)) if isinstance(x.func, ast.Attribute) else ''   # (``chosen = self._ifs[self._pos]`` ; ``chosen.body.create_stepper``)
                if f.name == '__init__':
                    # position is 0 at construction: [0] is [self._pos]
                    pos0 = any(isinstance(n, (ast.Assign, ast.AnnAssign)) and norm(n.targets[0] if isinstance(n, ast.Assign) else n.target) == 'self._pos'
                               and n.value is not None and norm(n.value) == '0' for n in ast.walk(f.node))
                    if pos0:
                        r = r.replace('[0]', '[self._pos]')
                creates.add(r)
        lf = prog.view(c.vmethods['load_instance_state'])

        def through_hook(txt: str, c=c) -> str:
            """``self._child_instruction()`` -- a per-class hook of a shared base that returns one expression -- is that expression for THIS class"""
            import re as _re
            from ..model import accessor_value as _av
            m_ = _re.fullmatch(r'self\.(\w+)\(\)', txt)
            g_ = c.lookup(m_.group(1)) if m_ else None
            v_ = _av(g_) if g_ is not None else None
            return norm(v_) if v_ is not None else txt
        creates = {through_hook(t) for t in creates}
        recreates = {through_hook(receiver_text(x)) for x in calls_in_func(lf, 'recreate_stepper')}
        chk.ob(rule, lf, bool(recreates) and recreates <= creates,
               f'{sname} restores its child from {sorted(recreates)}; the running stepper creates children from {sorted(creates)}: ' +
               ('same selector' if recreates <= creates else 'a restored run would continue in a different instruction'), kind='selector-agreement')
        # the restored position is available before it is used
        cfg = cfg_of(lf)
        sup = [n for n in cfg.nodes if n.expr() is not None and any(isinstance(x, ast.Call) and isinstance(x.func, ast.Attribute) and x.func.attr == 'load_instance_state'
                                                                     and isinstance(x.func.value, ast.Call) and unparse(x.func.value.func) == 'super' for x in walk_shallow(n.expr()))]
        uses = [n for n in cfg.nodes if n.expr() is not None and 'self._pos' in norm(n.expr())]
        if uses:
            ok = bool(sup) and all(cfg.must_pass(cfg.entry, [u], lambda m: m in sup, edge_ok=no_exc) for u in uses)
            chk.ob(rule, lf, ok, 'the position is restored (super().load_instance_state) before it selects the child', kind='pos-restored-first')
        # the workchain passed on is the one this stepper belongs to
        for x in calls_in_func(lf, 'recreate_stepper'):
            chk.ob(rule, lf, len(x.args) == 2 and norm(x.args[1]) == 'self._workchain' and norm(x.args[0]) != '', 'the child is recreated for the same workchain',
                   node=x, kind='same-workchain')



def run(chk: Check) -> None:
    prog = chk.prog
    ctx = chk.ctx
    wc = prog.module('workchains')
    # what a checkpoint must carry / how it is handed out / what a load may depend on (obligations shared with C07 and C14)
    from .c07 import load_is_deterministic, members_deepcopied, persisted_fields, persisted_members_can_be_copied
    persisted_members_can_be_copied(chk, 'SYM-workchain')
    # a checkpoint taken at a step boundary is a snapshot: every member (the arguments handed to the next step included, whatever their type) is deep-copied into it,
    # so what the abandoned instance does afterwards cannot change what the checkpoint resumes with
    members_deepcopied(chk, 'PROV-snapshot-isolation')
    from .c14 import snapshot_isolation
    persisted_fields(chk)
    load_is_deterministic(chk)
    snapshot_isolation(chk)
    # a restored WAITING state wakes up only through resume(): a result put into the waiting future by the load itself is a wake-up the uninterrupted execution
    # never had (shared with C13)
    from .c13 import resume_value_reaches_future
    resume_value_reaches_future(chk, 'SYM-waiting-restored')
    # ... and the future that wake-up resolved is the one the first step after the restore awaits (shared with C06)
    from .c06 import rearm_after_interruption
    rearm_after_interruption(chk, 'SYM-waiting-restored')
    load_restores_only_saved_children(chk, 'SYM-stepper-child')
    # a process started without inputs has ``inputs == {}`` -- before AND after a restore (shared with C07)
    from .c07 import falsy_values_survive
    falsy_values_survive(chk, 'SYM-load-context')
    # "no completed step is executed again": the outcome of a step interrupted by a pause is entered before anything (a listener, a hook) can take a checkpoint (shared with C05)
    from .c05 import outcome_entered_before_pause_hooks
    outcome_entered_before_pause_hooks(chk, 'SYM-no-step-twice')
    # a Bundle that is unbundled more than once ("possibly several times in a row") must give the same process each time: what unbundle() hands to the
    # load path has to be detached from the bundle, because load_members / the context mixin take values out of the saved state without copying
    ub = prog.func('persistence.Bundle.unbundle')
    lc = [c for c in calls_in_func(ub, 'load')]
    arg0 = lc[0].args[0] if len(lc) == 1 and lc[0].args else None
    detached = isinstance(arg0, ast.Call) and last_name(arg0) in ('deepcopy',)
    chk.ob('PROV-snapshot-isolation', ub, detached, 'Bundle.unbundle loads from a copy of the bundle' + ('' if detached else
           ': it hands the bundle itself to Savable.load, the loaded process shares the context entries / state arguments with it, so continuing that process changes the bundle and a '
           'second unbundle() yields a process that resumes from somewhere else'), node=lc[0] if lc else None, kind='unbundle-detached')
    # the context is saved as ONE object graph (the copy is taken of the whole saved state): copying it entry by entry would duplicate what two
    # entries share, and the resumed run would update one copy while reading the other
    cm = prog.func('mixins.ContextMixin.save_instance_state')
    from ..rules import Resolver as _Rc
    st_ = [n for n in ast.walk(cm.node) if isinstance(n, ast.Assign) and isinstance(n.targets[0], ast.Subscript) and norm(n.targets[0].value) == cm.params[1]]
    ok = len(st_) == 1
    if ok:
        v_ = _Rc(cm).expand(st_[0].value)
        per_entry = any(isinstance(x, (ast.DictComp, ast.ListComp, ast.GeneratorExp)) and any(isinstance(c_, ast.Call) and last_name(c_) in ('deepcopy', 'copy') for c_ in ast.walk(x)) for x in ast.walk(v_))
        ok = not per_entry and 'self._context' in norm(v_)
    chk.ob('SYM-workchain', cm, ok, 'the context is stored as one value (no entry-by-entry copy that would break sharing between entries)', node=st_[0] if st_ else None, kind='context-one-graph')

    # 1. stepper reference table
    for name in ('_BlockStepper', '_IfStepper'):
        c = prog.cls(f'workchains.{name}')
        chk.ob('SYM-stepper-position', c.qualname, '_pos' in auto_persist_set(prog, c), f'{name}._pos (how far the outline has been executed) is persisted',
               kind='pos-persisted', expr='_pos')
    for name in ('_BlockStepper', '_IfStepper', '_WhileStepper'):
        c = prog.cls(f'workchains.{name}')
        from .common import method_in_chain
        sf, lf = method_in_chain(prog, c, 'save_instance_state'), method_in_chain(prog, c, 'load_instance_state')
        chk.need(sf is not None and lf is not None, f'{name} lost its save/load_instance_state')
        sb, lb = saved_bindings(ctx, sf), loaded_bindings(ctx, lf)
        keys = [k for k, attrs in sb.items() if '_child_stepper' in attrs and '_child_stepper' in lb.get(k, set())]
        chk.ob('SYM-stepper-child', sf, bool(keys), f'the live child stepper of {name} is saved and restored under one key ({[str(k) for k in keys]}; saved { {str(k): sorted(v) for k, v in sb.items()} }, '
               f'loaded { {str(k): sorted(v) for k, v in lb.items()} })', kind='child-key')
        # saved iff it exists; restored to None otherwise
        guarded = any(isinstance(n, ast.If) and norm(n.test) == 'self._child_stepper is not None' and any(isinstance(s, ast.Assign) and isinstance(s.targets[0], ast.Subscript) for s in n.body)
                      for n in ast.walk(sf.node))
        chk.ob('SYM-stepper-child', sf, guarded, 'the child is saved whenever one is live', kind='child-saved-when-live')
        reset = any(isinstance(n, ast.Assign) and norm(n.targets[0]) == 'self._child_stepper' and norm(n.value) == 'None' for n in ast.walk(lf.node))
        chk.ob('SYM-stepper-child', lf, reset, 'a stepper loaded without a saved child has none', kind='child-none-otherwise')
        for f in (sf, lf):
            chk.ob('SYM-super-called', f, calls_super_on_all_paths(f), f'{name}.{f.name} calls super() on every path', kind='super-on-all-paths')
    fs = prog.cls('workchains._FunctionStepper')
    sb = saved_bindings(ctx, prog.view(fs.vmethods['save_instance_state']))
    lb = loaded_bindings(ctx, prog.view(fs.vmethods['load_instance_state']))
    keys = [k for k, attrs in sb.items() if '_fn' in attrs and '_fn' in lb.get(k, set())]
    chk.ob('SYM-stepper-function', prog.view(fs.vmethods['save_instance_state']), bool(keys), f'the step function is saved and restored under one key ({[str(k) for k in keys]})', kind='fn-key')
    byname = any(norm(v).endswith('.__name__') for v in saved_keys_of(prog, prog.view(fs.vmethods['save_instance_state'])).values())
    from ..rules import Resolver
    lfn = prog.view(fs.vmethods['load_instance_state'])
    rl = Resolver(lfn)
    rebound = False
    for n in ast.walk(lfn.node):
        if isinstance(n, ast.Assign) and norm(n.targets[0]) == 'self._fn':
            v = rl.expand(n.value)
            rebound = isinstance(v, ast.Call) and norm(v.func) == 'getattr' and 'self._workchain' in norm(v.args[0])
    chk.ob('SYM-stepper-function', prog.view(fs.vmethods['load_instance_state']), byname and rebound, 'the step function is saved by name and re-bound from the workchain class', kind='fn-by-name')
    st = prog.func('workchains.Stepper.load_instance_state')
    ok = any(isinstance(n, ast.Assign) and norm(n.targets[0]) == 'self._workchain' and norm(n.value).endswith('.workchain') for n in ast.walk(st.node))
    chk.ob('SYM-stepper-function', st, ok, 'a loaded stepper is re-bound to the workchain named by the context', kind='workchain-rebound')

    # 2. create / recreate agreement per instruction
    for iname, sname in INSTRUCTIONS.items():
        c = prog.cls(f'workchains.{iname}')
        cr, rc = prog.view(c.vmethods.get('create_stepper')), prog.view(c.vmethods.get('recreate_stepper'))
        chk.need(cr is not None and rc is not None, f'{iname} lost create_stepper/recreate_stepper')
        made = [norm(x.func) for x in calls_in_func(cr) if isinstance(x.func, ast.Name) and x.func.id.endswith('Stepper')]
        remade = [norm(x.func.value) for x in calls_in_func(rc, 'recreate_from')] + [norm(x.func) for x in calls_in_func(rc) if isinstance(x.func, ast.Name) and x.func.id.endswith('Stepper')]
        chk.ob('SIB-create-recreate', rc, made == [sname] and remade == [sname], f'{iname}: create_stepper builds {made}, recreate_stepper rebuilds {remade} (expected {sname})',
               kind='same-stepper-class')
        # the restored stepper belongs to THIS instruction: what identifies the instruction in the load context (``<kind>_instruction=...``), or is handed to the
        # stepper's constructor, is ``self`` -- not a module-level instance of the same class (a bare ``return_`` has no exit code; ``return_(418)`` has one)
        ictx = [k for x in ast.walk(rc.node) if isinstance(x, ast.Call) and last_name(x) == 'LoadSaveContext' for k in x.keywords if k.arg and k.arg not in ('workchain', 'loop', 'loader')]
        ctor = [x for x in calls_in_func(rc) if isinstance(x.func, ast.Name) and x.func.id.endswith('Stepper')]
        ok_self = bool(ictx or ctor) and all(norm(k.value) == 'self' for k in ictx) and all(x.args and norm(x.args[0]) == 'self' for x in ctor)
        chk.ob('SIB-create-recreate', rc, ok_self, f'{iname}: the recreated stepper is bound to this very instruction', kind='recreated-for-self')
        if iname != '_Return':
            rcs = [x for x in calls_in_func(rc, 'recreate_from')]
            ok = len(rcs) == 1 and norm(rcs[0].args[0]) == rc.params[1]
            chk.ob('SIB-create-recreate', rc, ok, 'the stepper is recreated from the saved state it is given', kind='from-given-state')
    child_selector_agreement(chk)

    # 3. load-context agreement
    supplied = context_kwargs(prog)
    need = {'_BlockStepper': ('block_instruction', '_Block'), '_IfStepper': ('if_instruction', '_If'), '_WhileStepper': ('while_instruction', '_While')}
    for sname, (attr, iname) in need.items():
        lf = prog.cls(f'workchains.{sname}').vmethods['load_instance_state']
        reads = [a for a, n, g in context_reads(lf)]
        rc = prog.cls(f'workchains.{iname}').vmethods['recreate_stepper']
        kws = {k.arg: norm(k.value) for x in calls_in_func(rc, 'LoadSaveContext') for k in x.keywords}
        ok = all(r in kws for r in reads) and kws.get(attr) == 'self' and kws.get('workchain') == rc.params[2]
        chk.ob('SYM-load-context', rc, ok, f'{iname}.recreate_stepper supplies what {sname}.load_instance_state reads from the context (reads {reads}; supplies {kws})',
               kind='context-supplied')
        ctx_used = any(len(x.args) == 2 and norm(x.args[1]) == 'load_context' for x in calls_in_func(rc, 'recreate_from'))
        chk.ob('SYM-load-context', rc, ctx_used, 'that context is the one handed to recreate_from', kind='context-passed')
    fc = prog.cls('workchains._FunctionCall').vmethods['recreate_stepper']
    kws = {k.arg: norm(k.value) for x in calls_in_func(fc, 'LoadSaveContext') for k in x.keywords}
    chk.ob('SYM-load-context', fc, kws.get('workchain') == fc.params[2], '_FunctionCall.recreate_stepper names the workchain in the context', kind='context-supplied')
    pl = prog.func('processes.Process.load_instance_state')
    for a, n, g in context_reads(pl):
        chk.ob('SYM-load-context', pl, g, f'Process reads {a!r} from the load context only under a membership guard (a checkpoint may be loaded with an empty context)',
               node=n, kind=f'guarded:{a}')

    # 4. continuations by name; the workchain's stepper and context
    for qual, key, attr in (('process_states.Created', 'RUN_FN', 'run_fn'), ('process_states.Running', 'RUN_FN', 'run_fn'), ('process_states.Waiting', 'DONE_CALLBACK', 'done_callback')):
        c = prog.cls(qual)
        sf, lf = prog.view(c.vmethods['save_instance_state']), prog.view(c.vmethods['load_instance_state'])
        kv = prog.fold(c.module, c.attrs[key], c)
        v = saved_keys_of(prog, sf).get(kv)
        from ..facts import Canon
        vkey = Canon(prog, chk.ctx.calls, sf).key(v) if v is not None else None
        chk.ob('SYM-continuation', sf, v is not None and vkey == f'self.{attr}.__name__', f'{c.name} saves its continuation by name under {kv!r}', kind='saved-by-name')
        lb = loaded_bindings(ctx, lf)
        rebind = any(isinstance(n, ast.Call) and norm(n.func) == 'getattr' and norm(n.args[0]) in ('self.process', 'self.state_machine') for n in ast.walk(lf.node))
        chk.ob('SYM-continuation', lf, attr in lb.get(kv, set()) and rebind, f'{c.name} re-binds the continuation with getattr(process, name) from the same key', kind='rebound-from-process')
    for qual in ('process_states.Created', 'process_states.Running'):
        c = prog.cls(qual)
        chk.ob('SYM-continuation', qual, {'args', 'kwargs'} <= auto_persist_set(prog, c), f'{c.name} persists the continuation\'s arguments', kind='args-persisted')
    w = prog.cls('workchains.WorkChain')
    sf, lf = prog.view(w.vmethods['save_instance_state']), prog.view(w.vmethods['load_instance_state'])
    v = [val for k, val in saved_keys_of(prog, sf).items()]
    chk.ob('SYM-workchain', sf, any(norm(x) == 'self._stepper.save()' for x in v), 'the workchain saves its outline stepper', kind='stepper-saved')
    rec = [x for x in calls_in_func(lf, 'recreate_stepper')]
    ok = len(rec) == 1 and 'get_outline()' in receiver_text(rec[0]) and len(rec[0].args) == 2 and norm(rec[0].args[1]) == 'self'
    chk.ob('SYM-workchain', lf, ok, 'the stepper is recreated through the outline of the spec, for this workchain', kind='stepper-recreated')
    oc = prog.view(w.vmethods['on_create'])
    cr = [x for x in calls_in_func(oc, 'create_stepper')]
    chk.ob('SYM-workchain', oc, len(cr) == 1 and 'get_outline()' in receiver_text(cr[0]), 'a new workchain starts from the same outline', kind='stepper-created')
    ds = prog.view(w.vmethods['_do_step'])
    conts = [x for x in calls_in_func(ds) if last_name(x) in ('Continue', 'Wait')]
    ok = bool(conts) and all(norm(x.args[0]) == 'self._do_step' for x in conts)
    chk.ob('SYM-workchain', ds, ok, 'the next outline step is requested as a named method (restorable by name)', kind='continuation-named')
    cm = prog.cls('mixins.ContextMixin')
    sb = saved_bindings(ctx, prog.view(cm.vmethods['save_instance_state']))
    lb = loaded_bindings(ctx, prog.view(cm.vmethods['load_instance_state']))
    keys = [k for k, attrs in sb.items() if '_context' in attrs and '_context' in lb.get(k, set())]
    chk.ob('SYM-workchain', prog.view(cm.vmethods['save_instance_state']), bool(keys), f'the context is saved and restored under one key ({[str(k) for k in keys]})', kind='context-key')
    ld = prog.view(cm.vmethods['load_instance_state'])
    ok = any(isinstance(n, ast.Assign) and norm(n.targets[0]) == 'self._context' and isinstance(n.value, ast.Call) and norm(n.value.func) == 'AttributesDict'
             and any(k.arg is None for k in n.value.keywords) for n in ast.walk(ld.node))
    chk.ob('SYM-workchain', ld, ok, 'the context is rebuilt as a new AttributesDict from the saved mapping', kind='context-rebuilt')
    chk.assumptions.append('steps depend only on persisted state (property quantifier); equality of the resumed and the reference run is not decided')
