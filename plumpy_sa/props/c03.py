"""C03 -- a failure in user code ends the process EXCEPTED, never half-transitioned (ESC + PAIR + PROV)."""
from __future__ import annotations

import ast
from typing import Dict, List, Optional, Set, Tuple

from ..cfg import cfg_of, no_exc
from ..esc import Esc, Outcome
from ..model import AnalysisError, EnumMember, FuncInfo, is_self_attr, norm, unparse, walk_shallow
from ..report import Check
from ..rules import calls_in_func, caught_exception_args, last_name
from . import common

FUTURE_SINKS = ('future:self', 'future:kiwi_future', 'future:future', 'future:unwrapping', 'future:execute_future')


def category(f: FuncInfo, t) -> Tuple[str, Set[str], Set[str], Optional[str]]:
    """(category, allowed sinks, allowed roots, function that must be the FIRST container or None)."""
    q = f.qualname
    name = t.name
    PUBLIC = {'public-entry', 'external-callback', 'orphan'}
    if q == 'process_states.Running.execute':
        return 'step function', {'excepted-state'}, set(), None
    if q == 'processes.Process._run_task':
        return 'process task', {'excepted-state', 'callback_excepted'}, set(), None
    if q == 'events.ProcessCallback.run':
        return 'scheduled callback', {'callback_excepted'}, set(), 'events.ProcessCallback.run'
    if q in ('workchains._FunctionStepper.step', 'workchains._Conditional.is_true'):
        return 'outline step / predicate', {'excepted-state'}, PUBLIC, None
    if f.module.short == 'event_helper' and t.ukind == 'getattr-callable':
        return 'listener', {'logged'}, set(), 'module:event_helper'
    if q == 'processes.Process.on_close':
        return 'cleanup', {'logged', 'transition_failed'}, PUBLIC, None
    if q == 'processes.Process._do_pause':
        return 'pause hook', {'future:self', 'future:kiwi_future'}, PUBLIC, None
    if q == 'processes.Process.play':
        return 'play hook', {'future:kiwi_future'}, PUBLIC, None
    if q == 'processes.Process._schedule_rpc.run_callback':
        return 'rpc callback', {'future:kiwi_future'}, set(), None
    if q == 'futures.CancellableAction.run':
        return 'interrupt action', {'future:self'}, set(), 'futures.CancellableAction.run'
    if q == 'futures.create_task.run_task':
        return 'communicator task', {'future:future'}, set(), None
    if q in ('processes.Process.on_entering', 'processes.Process.on_entered', 'processes.Process.on_exiting', 'base.state_machine.State.do_enter',
             'base.state_machine.State.do_exit', 'base.state_machine.StateMachine.transition_to', 'base.state_machine.StateMachine._fire_state_event',
             'processes.Process.close'):
        return 'state entry/exit/termination hook', {'transition_failed'}, PUBLIC, None
    if q == 'processes.Process.out':
        return 'output hook', {'excepted-state', 'transition_failed'}, PUBLIC, None
    return 'other user / external code', {'excepted-state', 'callback_excepted', 'transition_failed'} | set(FUTURE_SINKS), PUBLIC, None


def reraised_ahead_of_catch_all(chk: Check, rule: str) -> None:
    """What a function re-raises AHEAD of its catch-all is, by construction, not treated as a failure: that is right only for exceptions outside Exception and for the
    package's own signals that a caller handles by name.  (Shared with C10: the failure of a cancelled awaitable is a concurrent.futures.CancelledError.)"""
    prog = chk.prog
    # what is re-raised AHEAD of a catch-all is not a failure of user code: only exceptions outside Exception (KeyboardInterrupt, the event loop's own CancelledError)
    # may be let through -- kiwipy's / concurrent.futures' CancelledError IS an Exception (it is what a cancelled awaitable puts on the waiting future)
    from ..esc import Esc as _Esc
    from ..rules import effective_funcs as _ef
    BASE_ONLY = ('KeyboardInterrupt', 'SystemExit', 'GeneratorExit', 'BaseException', 'asyncio.CancelledError', 'asyncio.exceptions.CancelledError')
    n_re = 0
    for f in _ef(prog):
        if isinstance(f.node, ast.Lambda):
            continue
        for t in [n for b in f.node.body for n in walk_shallow(b) if isinstance(n, ast.Try)]:
            idx = [i for i, h in enumerate(t.handlers) if h.type is None or unparse(h.type).split('.')[-1] == 'Exception']
            if not idx:
                continue
            for h in t.handlers[:idx[0]]:
                if not _Esc._just_reraises(h):
                    continue
                for ty in (h.type.elts if isinstance(h.type, ast.Tuple) else [h.type]):
                    n_re += 1
                    k = prog.resolve_class(f.module, ty)
                    txt = norm(ty)
                    if k is not None:
                        inside = any(str(b).split('.')[-1] == 'Exception' for b in k.mro())
                        if inside:
                            # one of the package's own signals (an Interruption): fine when every way up from here ends in a handler written for it
                            rs = [x for s_ in h.body for x in ast.walk(s_) if isinstance(x, ast.Raise)]
                            outs = _Esc(chk.ctx).trace_class(f, rs[-1], k) if rs else []
                            inside = not outs or not all(o.kind == 'contained' and o.container is not None and o.container.kind == 'except'
                                                         and isinstance(o.container.node, ast.ExceptHandler) and o.container.node.type is not None
                                                         and unparse(o.container.node.type).split('.')[-1] not in ('Exception', 'BaseException') for o in outs)
                    else:
                        try:
                            r_ = prog.resolve(f.module, ty)
                        except Exception:  # noqa: BLE001
                            r_ = None
                        txt2 = norm(r_) if isinstance(r_, ast.AST) else txt
                        inside = not (txt in BASE_ONLY or txt2 in BASE_ONLY)
                    chk.ob(rule, f, not inside, f'{f.short} re-raises {txt} ahead of its catch-all: ' + ('not an Exception, so not a failure of user code' if not inside else
                           'an Exception (or not known to be outside it) -- a failure of this type raised by user code, or put on the awaited future by a cancelled awaitable, '
                           'leaves the stepping code instead of ending the process EXCEPTED'), node=h, kind='reraised-ahead-of-catch-all', expr=txt)
    chk.floor(f'{rule}:reraised-ahead', n_re, 1)


def callback_failure_fails_process(chk: Check, rule: str) -> None:
    """callback_excepted fails the process by calling fail() -- there and then, in the very callback in which it found the process alive (fail() is the guarded
    event; a transition scheduled for later runs after whatever terminates the process in between).  Shared with C01."""
    prog = chk.prog
    ce_f = prog.func('processes.Process.callback_excepted')
    fl = [c for c in calls_in_func(ce_f, 'fail')]
    ok = len(fl) == 1 and [norm(a) for a in fl[0].args] == ce_f.params[2:4]
    chk.ob(rule, ce_f, ok, 'callback_excepted fails the process with that exception', node=fl[0] if fl else None, kind='callback-fails')
    deferred = [c for c in calls_in_func(ce_f) if last_name(c) in ('call_soon', 'call_later', 'call_soon_threadsafe', 'create_task', 'ensure_future')]
    chk.ob(rule, ce_f, not deferred, 'nothing about the failure is put off to a later callback (the liveness test and the transition happen in one piece)',
           node=deferred[0] if deferred else None, kind='callback-fails-at-once')


def exception_in_flight_kept(chk: Check, rule: str) -> None:
    """"... with exactly that exception": a ``finally`` block runs on the exception edge too.  Where the protected body can run user code (a hook, a step, a callback),
    the block neither raises nor asserts nor returns: any of these REPLACES (or swallows) the user's exception in flight -- the process would end EXCEPTED with an
    AssertionError about bookkeeping instead of the failure that happened."""
    from ..model import walk_shallow_stmt
    from ..rules import effective_funcs
    prog = chk.prog
    n = 0
    for f in effective_funcs(prog):
        if isinstance(f.node, ast.Lambda):
            continue
        tries = [t for st in f.node.body for t in walk_shallow_stmt(st) if isinstance(t, ast.Try) and t.finalbody]
        if not tries:
            continue
        try:
            ip = chk.ctx.calls.summary(f).ip
        except Exception:  # noqa: BLE001
            ip = True
        for t in tries:
            # (the body of a ``with`` runs at the ``yield`` of a context manager: ``try: yield / finally:`` protects whatever the caller puts there)
            if not any(isinstance(x, (ast.Yield, ast.YieldFrom)) for b in t.body for x in walk_shallow_stmt(b)) and (
                    not ip or not any(isinstance(x, (ast.Call, ast.Await)) for b in t.body for x in walk_shallow_stmt(b))):
                continue
            n += 1
            bad = [x for b in t.finalbody for x in walk_shallow_stmt(b) if isinstance(x, (ast.Assert, ast.Raise, ast.Return))]
            # one named exemption: the sanity check of the process scope ("the process on top of the stack is me").  It reads the stack that the scope itself
            # pushed; the pairing rule of C18 (every push restored on every exit, exceptional ones included) is what shows that it cannot fail
            bad = [x for x in bad if not (isinstance(x, ast.Assert) and norm(x.test) in ('Process.current() is self', 'PROCESS_STACK.get()[-1] is self', 'self is Process.current()'))]
            chk.ob(rule, f, not bad, f'{f.short}: the finally block of a try whose body may run user code only restores state' + ('' if not bad else
                   f' -- it does not: `{norm(bad[0])[:80]}` runs while the user\'s exception is in flight and replaces (or swallows) it'), node=bad[0] if bad else t, kind='finally-does-not-raise',
                   expr=f'finally of the try at statement `{norm(t.body[0])[:60]}`')
    chk.floor(f'{rule}:finally-blocks', n, 4)


def run(chk: Check) -> None:
    containment(chk)
    construction_propagates(chk)
    pair_flags(chk)
    prov_failure_states(chk)
    exception_in_flight_kept(chk, 'ESC-exception-kept')
    # "... with its future raising it": the EXCEPTED entry resolves the process future whatever happened to it before (shared with C02)
    from .c02 import future_resolution
    future_resolution(chk)
    # "... with exactly that exception": nothing transitions again (no pending kill / pause action runs) once the failure made the process terminal (shared with C01)
    from .c01 import atom_terminal_guard
    atom_terminal_guard(chk)
    # "... and stepping returns normally": a step blocked in the state that the failure abandons is released (shared with C02)
    from .c02 import inflight_step_released
    inflight_step_released(chk)
    # fail() is guarded by @event(from_states=...): the guard must accept the state classes a subclass substitutes (the work chain's WAITING), else the failure
    # of a scheduled callback raises EventError instead of ending the process EXCEPTED (shared with C13)
    from .common import event_guard_accepts_subclasses
    event_guard_accepts_subclasses(chk, 'GUARD-fail-event')
    # "reported to whoever requested the pause or play": a request that arrived as a message is answered through the reply future of _schedule_rpc -- on every path
    # through its callback, the one on which the awaited (deferred) pause raises the hook's exception included, that future is resolved exactly once (shared with C20)
    from .c20 import adapters_deliver_exactly_once
    adapters_deliver_exactly_once(chk, 'ESC-requester-informed', 'ESC-requester-informed', adapters=[('processes.Process._schedule_rpc.run_callback', 'processes.Process._schedule_rpc')])
    # EXCEPTED must be reachable from every live state, else the failure itself is refused
    prog = chk.prog
    for lbl in common.LIVE:
        for c in common.labelled_states(prog).get(lbl, []):
            allowed = common.allowed_of(prog, c)
            chk.ob('TAB-exceptable', c.qualname, 'EXCEPTED' in allowed, f'{lbl} may be left for EXCEPTED', kind='excepted-allowed', expr=f'ALLOWED[{lbl}]')


# ---------------------------------------------------------------------- 1. ESC containment
def containment(chk: Check) -> None:
    prog = chk.prog
    esc = Esc(chk.ctx)
    skip_modules = {'lang', 'base.utils', 'utils', 'process_comms', 'communications', 'persistence', 'process_spec', 'loaders', 'events'}
    n_sites = 0
    n_paths = 0
    boundaries = set()
    for f in prog.all_funcs():
        if f.module.short in skip_modules and f.qualname != 'events.ProcessCallback.run':
            continue
        if f.qualname in ('processes.ensure_not_closed.func_wrapper', 'base.state_machine.event.wrapper.transition', 'processes.Process.execute',
                          'processes.Process.launch', 'processes.Process.init', 'processes.Process.recreate_from',
                          'base.state_machine.StateMachineMeta.__call__'):
            continue  # decorators' own plumbing / constructor-time / loop-spinning entry points: the caller is user code
        for call, t in chk.ctx.calls.summary(f).usites:
            n_sites += 1
            cat, sinks, roots, first = category(f, t)
            outs = esc.trace(f, call)
            n_paths += len(outs)
            groups: Dict[Tuple[str, str], List[Outcome]] = {}
            for o in outs:
                key = ('contained', o.container.sink) if o.kind == 'contained' else ('root', o.root)
                groups.setdefault(key, []).append(o)
            for (kind, what), os_ in sorted(groups.items()):
                o = os_[0]
                if kind == 'root' and what in ('task', 'done-callback'):
                    boundaries.add(o.path[-1][0].qualname)
                    chk.ob('ESC-containment', f, False,
                           f'{cat}: an exception raised here travels {o.chain()} and leaves plumpy through a {what} boundary into the event loop\'s '
                           f'exception handler: the process is left as it was (not EXCEPTED, not closed)', node=call, kind=f'escapes-to-loop:{o.path[-1][0].short}')
                elif kind == 'root':
                    chk.ob('ESC-containment', f, what in roots, f'{cat}: along {o.chain()} the exception propagates to the caller of a {what} '
                           + ('(user code asked for it)' if what in roots else '-- not an accepted outcome for this kind of user code'), node=call,
                           kind=f'root:{what}')
                else:
                    ok = what in sinks
                    if first is not None and first.startswith('module:'):
                        ok = ok and all(x.container.func.module.short == first[7:] for x in os_)
                    elif first is not None:
                        ok = ok and all((x.container.func.origin or x.container.func).qualname == first for x in os_)
                    chk.ob('ESC-containment', f, ok, f'{cat}: along {o.chain()} the exception is first caught in {o.container.func.short} and goes to '
                           f'"{what}"' + ('' if ok else f' -- the property wants one of {sorted(sinks)}' + (f' inside {first}' if first else '')),
                           node=call, kind=f'sink:{what}')
    chk.floor('ESC-containment:usites', n_sites, 35)
    chk.units['escape_paths_traced'] = n_paths
    # the task boundaries plumpy creates (informational + floor)
    esc._build() if esc._callers is None else None
    tb = sorted(f.qualname for f in prog.all_funcs() if esc.root_kind(f) in ('task', 'done-callback'))
    chk.units['task_boundaries'] = tb
    chk.floor('ESC-containment:task-boundaries', len(tb), 8)
    # handler order: Interruption before the catch-all; KeyboardInterrupt re-raised by step()
    re = prog.func('process_states.Running.execute')
    st = prog.func('processes.Process.step')
    for f in (re, st):
        ok = False
        for t in [n for n in ast.walk(f.node) if isinstance(n, ast.Try)]:
            names = [unparse(h.type).split('.')[-1] if h.type is not None else '<bare>' for h in t.handlers]
            if 'Interruption' in names and any(n in ('Exception', '<bare>', 'BaseException') for n in names):
                ok = names.index('Interruption') < min(i for i, n in enumerate(names) if n in ('Exception', '<bare>', 'BaseException'))
        if not any(h.type is None or unparse(h.type).split('.')[-1] in ('Exception', 'BaseException') for t in ast.walk(f.node) if isinstance(t, ast.Try)
                   for h in t.handlers):
            continue  # no catch-all in this function: nothing can be mistaken for a failure here
        chk.ob('ESC-handler-order', f, ok, 'an Interruption is told apart from a failure (its handler precedes the catch-all)', kind='interruption-first')
    reraised_ahead_of_catch_all(chk, 'ESC-handler-order')
    # step(): the catch-all does not re-raise ("stepping returns normally")
    for t in [n for n in ast.walk(st.node) if isinstance(n, ast.Try)]:
        for h in t.handlers:
            if h.type is not None and unparse(h.type) == 'Exception':
                chk.ob('ESC-handler-order', st, not any(isinstance(x, ast.Raise) for s in h.body for x in ast.walk(s)), 'step()\'s catch-all does not re-raise', kind='no-reraise')
    failure_handlers_build_excepted(chk)
    chk.assumptions.append('single-fault assumption of the property: the follow-up transition to EXCEPTED does not itself fail '
                           '(transition_to re-raises under _transition_failing)')
    chk.assumptions.append('user exceptions are plain Exception subclasses: typed handlers (KeyError, AttributeError, TimeoutError...) are transparent for them')


# ---------------------------------------------------------------------- 2. construction propagates
def construction_propagates(chk: Check) -> None:
    prog = chk.prog
    tf = prog.func('processes.Process.transition_failed')
    ff = chk.ctx.facts.analyse(tf)
    cfg = ff.cfg
    fparam = tf.params[2] if len(tf.params) > 2 else 'final_state'
    raises = [n for n in cfg.nodes if n.kind == 'raisestmt']
    ok = len(raises) == 1 and ('eq', fparam, 'ProcessState.CREATED') in ff.at(raises[0])
    chk.ob('GUARD-construction', tf, ok, 'transition_failed re-raises exactly when the state being entered is CREATED (a failure during construction '
           'propagates to the caller; any other failure is routed to EXCEPTED)', node=raises[0].ast if raises else None, kind='reraise-iff-created')
    if raises:
        e = raises[0].ast.exc
        chk.ob('GUARD-construction', tf, e is not None and norm(e).startswith(f'{tf.params[3]}.with_traceback') or (e is not None and norm(e) == tf.params[3]),
               'what is re-raised is the original exception', node=raises[0].ast, kind='reraise-original')
    trans = [n for n in cfg.nodes if any(isinstance(c, ast.Call) and last_name(c) == 'transition_to' for c in (walk_shallow(n.expr()) if n.expr() is not None else []))]
    ok = bool(trans) and all(('ne', fparam, 'ProcessState.CREATED') in ff.at(t) for t in trans)
    chk.ob('GUARD-construction', tf, ok, 'every other failed transition enters a new state (EXCEPTED)', kind='else-transition')
    # transition_to hands label and exc_info to transition_failed; re-raises only for a second fault
    tt = prog.func('base.state_machine.StateMachine.transition_to')
    calls = [c for c in calls_in_func(tt, 'transition_failed')]
    ok = len(calls) == 1 and len(calls[0].args) >= 3 and caught_exception_args(tt, calls[0], calls[0].args[2:])
    chk.ob('GUARD-construction', tt, ok, 'transition_to reports (initial label, target label, exception being handled, its traceback) to transition_failed',
           node=calls[0] if calls else None, kind='failed-args')
    tf_facts = chk.ctx.facts.analyse(tt)
    rr = [n for n in tf_facts.cfg.nodes if n.kind == 'raisestmt' and n.ast.exc is None]
    ok = all(('T', 'self._transition_failing') in tf_facts.at(n) for n in rr)
    chk.ob('GUARD-construction', tt, ok, 'transition_to itself re-raises only when the failing transition was already the follow-up of a failure', kind='reraise-only-second-fault')
    lbl_var = norm(calls[0].args[1]) if calls and len(calls[0].args) >= 2 else ''
    assigns = [n for n in ast.walk(tt.node) if isinstance(n, ast.Assign) and norm(n.targets[0]) == lbl_var]
    entered_vars = {norm(c.args[0]) for c in calls_in_func(tt, '_enter_next_state') if c.args}
    ok = bool(assigns) and all(norm(n.value) == 'None' or any(norm(n.value) in (f'{v}.LABEL', f'{v}.label') for v in entered_vars) for n in assigns) and any(
        norm(n.value) != 'None' for n in assigns)
    chk.ob('GUARD-construction', tt, ok, 'the target label reported is that of the state being entered', kind='label-tracked')


# ---------------------------------------------------------------------- 3. PAIR flags
def pair_flags(chk: Check) -> None:
    prog = chk.prog

    def reset_in_finally(f: FuncInfo, attr: str, raised: str, lowered: str, what: str) -> None:
        # path rule: from every statement that raises the flag, each way out (normal or by exception) passes a statement that lowers it
        from ..rules import flag_lowered_on_every_exit
        ok, n_up = flag_lowered_on_every_exit(f, f'self.{attr}', raised, lowered)
        has_final = any(isinstance(s, ast.Assign) and norm(s.targets[0]) == f'self.{attr}' and norm(s.value) == lowered
                        for t in ast.walk(f.node) if isinstance(t, ast.Try) for s in t.finalbody)
        ok = ok and has_final
        chk.ob('PAIR-flag-reset', f, ok, what, kind=f'finally-reset:{attr}', expr=attr)

    tt = prog.func('base.state_machine.StateMachine.transition_to')
    reset_in_finally(tt, '_transitioning', 'True', 'False', '_transitioning (re-entrancy guard) is lowered in the finally of the try that raises it: no failure leaves the machine "transitioning"')
    reset_in_finally(tt, '_transition_failing', 'True', 'False', '_transition_failing (exit-check bypass) is lowered in the same finally: the bypass never outlives the failed transition')
    st = prog.func('processes.Process.step')
    reset_in_finally(st, '_stepping', 'True', 'False', '_stepping is lowered in the finally of the step')
    fin_ia = any(isinstance(t, ast.Try) and any(isinstance(s, ast.Expr) and isinstance(s.value, ast.Call) and norm(s.value.func) == 'self._set_interrupt_action'
                                               and [norm(a) for a in s.value.args] == ['None'] for s in t.finalbody) for t in ast.walk(st.node))
    chk.ob('PAIR-flag-reset', st, fin_ia, 'the interrupt action is cleared in the finally of the step', kind='finally-reset:_interrupt_action', expr='_interrupt_action')
    dp = prog.func('processes.Process._do_pause')
    reset_in_finally(dp, '_pausing', '<none>', 'None', '_pausing is cleared on every exit of _do_pause (a failing pause hook leaves the process controllable)')
    dk = prog.func('processes.Process._create_interrupt_action').nested.get('do_kill')
    if dk is not None:
        reset_in_finally(dk, '_killing', '<none>', 'None', '_killing is cleared on every exit of the deferred kill')
    # the flags are read by guards (else the rule would be about dead code)
    readers = {'_transitioning': 0, '_transition_failing': 0, '_stepping': 0}
    for f in prog.all_funcs():
        for n in ast.walk(f.node):
            if isinstance(n, ast.Attribute) and n.attr in readers and isinstance(n.ctx, ast.Load):
                readers[n.attr] += 1
    for k, v in readers.items():
        chk.need(v > 0, f'flag {k} is no longer read anywhere: the PAIR rule would be about dead code')


# ---------------------------------------------------------------------- 4. PROV failure states
def prov_failure_states(chk: Check) -> None:
    prog = chk.prog
    calls = chk.ctx.calls
    sites = []
    for q in ('process_states.Running.execute', 'processes.Process.step', 'processes.Process.fail', 'processes.Process.transition_failed'):
        f = prog.func(q)
        built = [c for c in calls_in_func(f) if isinstance(calls.state_ctor_label(f, c), EnumMember) and calls.state_ctor_label(f, c).member == 'EXCEPTED']
        if q in ('process_states.Running.execute', 'processes.Process.step'):
            sites.extend(built)
        else:
            chk.ob('PROV-failure-state', f, len(built) == 1, f'{f.short} builds the EXCEPTED state at one site', kind='site')
        for c in built:
            args = [norm(a) for a in c.args[1:]]
            kws = {k.arg: norm(k.value) for k in c.keywords}
            if q in ('process_states.Running.execute', 'processes.Process.step'):
                ok = caught_exception_args(f, c, c.args[1:]) and not kws
                # and it sits in the catch-all handler
                pm = Esc(chk.ctx).parents(f)
                cur, in_handler = c, False
                while id(cur) in pm:
                    cur = pm[id(cur)]
                    if isinstance(cur, ast.ExceptHandler) and cur.type is not None and unparse(cur.type) == 'Exception':
                        in_handler = True
                ok = ok and in_handler
                chk.ob('PROV-failure-state', f, ok, 'the EXCEPTED state carries the exception and traceback being handled (sys.exc_info()[1:]) -- exactly that exception',
                       node=c, kind='carries-exc-info')
            elif q == 'processes.Process.fail':
                ok = kws == {'exception': f.params[1], 'trace_back': f.params[2]}
                chk.ob('PROV-failure-state', f, ok, 'fail(exception, trace_back) builds EXCEPTED with exactly those', node=c, kind='carries-params')
            else:
                ok = kws == {'exception': f.params[3], 'trace_back': f.params[4]}
                chk.ob('PROV-failure-state', f, ok, 'transition_failed builds EXCEPTED with the exception and traceback it was given', node=c, kind='carries-params')
    chk.ob('PROV-failure-state', 'process_states.Running.execute / processes.Process.step', len(sites) >= 1,
           'a failing step is turned into an EXCEPTED state by the running state or by step()', kind='step-failure-site')
    # what the state machinery does with them
    ex = prog.cls('process_states.Excepted')
    from .c13 import captured_fields
    cap = {a: p for a, p, k in captured_fields(prog.view(ex.vmethods['__init__']))}
    chk.ob('PROV-failure-state', ex.qualname, cap.get('exception') == 'exception' and cap.get('traceback') == 'trace_back', f'Excepted stores them ({cap})', kind='stored')
    ge = prog.func('process_states.Excepted.get_exc_info')
    rets = [n for n in ast.walk(ge.node) if isinstance(n, ast.Return)]
    ok = len(rets) == 1 and isinstance(rets[0].value, ast.Tuple) and [norm(e) for e in rets[0].value.elts[1:]] == ['self.exception', 'self.traceback']
    chk.ob('PROV-failure-state', ge, ok, 'get_exc_info() hands back (type, exception, traceback)', kind='exc-info')
    cb = prog.func('events.ProcessCallback.run')
    ce = [c for c in calls_in_func(cb, 'callback_excepted')]
    ok = len(ce) == 1 and caught_exception_args(cb, ce[0], ce[0].args[1:])
    chk.ob('PROV-failure-state', cb, ok, 'a failing scheduled callback reports its exception and traceback to callback_excepted', node=ce[0] if ce else None, kind='callback-exc-info')
    # ... to a process it still knows: the handle's attributes are cleared by cancel() (another role, any time while the callback is awaited), so
    # the report must not go through an attribute that a sibling method sets to None unless it is known to be set in this very region
    if ce:
        cbf = chk.ctx.facts.analyse(cb)
        recv = cbf.canon.key(ce[0].func.value)
        cleared = set()
        pc_cls = cb.owner_class
        for g in (pc_cls.emethods.values() if pc_cls is not None else []):
            for n_ in ast.walk(g.node):
                if isinstance(n_, ast.Assign) and norm(n_.value) == 'None' and g is not cb:
                    cleared |= {norm(t_) for t_ in n_.targets}
        ok2 = recv not in cleared or all(any(a_[0] in ('notnone', 'T') and a_[1] == recv for a_ in fs) for _, fs in cbf.site_facts(ce[0]))
        # (a LOCAL bound before the callback is awaited is a snapshot of the attribute: what other methods do to the attribute meanwhile does not reach it)
        rn_ = ce[0].func.value
        if isinstance(rn_, ast.Name) and rn_.id not in ('self', 'cls') and rn_.id not in cb.params:
            ok2 = True
        chk.ob('PROV-failure-state', cb, ok2, f'the failure is reported to {recv}, which ' + ('is not cleared by another method of the handle' if recv not in cleared else
               'cancel()/_cleanup() set to None while the callback is being awaited: the report raises AttributeError into the event loop and the user\'s exception is lost'),
               node=ce[0], kind='callback-process-known')
    callback_failure_fails_process(chk, 'PROV-failure-state')
    done = [n for t in ast.walk(cb.node) if isinstance(t, ast.Try) for n in t.finalbody]
    chk.info('PROV-failure-state', f'ProcessCallback.run finally: {[norm(s) for s in done]}')


def failure_handlers_build_excepted(chk: Check, rule: str = 'ESC-handler-order') -> None:
    """step(): whatever escapes the state's execute and is not an Interruption / KeyboardInterrupt / task cancellation is a FAILURE: every
    handler that can catch it builds the EXCEPTED state (a typed handler slipped in front of the catch-all -- ``except KilledError`` --
    would turn the failure of an awaited item into something else).  Shared with C10."""
    prog = chk.prog
    st = prog.func('processes.Process.step')
    calls = chk.ctx.calls
    CONTROL = {'Interruption', 'KeyboardInterrupt', 'CancelledError', 'PauseInterruption', 'KillInterruption'}
    n = 0
    st = prog.view(st)
    for t in [x for x in ast.walk(st.node) if isinstance(x, ast.Try)]:
        if not any(isinstance(c, ast.Call) and last_name(c) == '_run_task' for s_ in t.body for c in ast.walk(s_)):
            continue
        for h in t.handlers:
            names = [unparse(x).split('.')[-1] for x in (h.type.elts if isinstance(h.type, ast.Tuple) else [h.type])] if h.type is not None else ['<bare>']
            if all(nm in CONTROL for nm in names):
                continue
            n += 1
            built = [calls.state_ctor_label(st, c) for s_ in h.body for c in ast.walk(s_) if isinstance(c, ast.Call)]
            built = [repr(b) for b in built if b is not None]
            rer = Esc._just_reraises(h)
            chk.ob(rule, st, rer or (bool(built) and all(b == 'ProcessState.EXCEPTED' for b in built)),
                   f'the handler for {names} around the state\'s execute turns what it catches into the EXCEPTED state (builds: {built or "nothing"})', node=h, kind='failure-handler-builds-excepted')
    chk.ob(rule, st, n >= 1, 'step() has a handler for failures of the state\'s execute', kind='failure-handler-present')
