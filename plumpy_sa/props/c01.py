"""C01 -- state changes follow the lifecycle graph; terminal states are final (DESIGN 3 / C01)."""
from __future__ import annotations

import ast

from ..cfg import cfg_of
from ..facts import not_terminated
from ..model import AnalysisError, UNKNOWN, is_self_attr, norm, unparse, walk_shallow
from ..report import Check
from ..rules import (Contexts, attr_writers, branch_reaches_exit, call_sites, calls_in_func, guard_obligations, last_name,
                     node_has_call)
from . import common


def run(chk: Check) -> None:
    prog = chk.prog
    tab_lifecycle(chk)
    own_state(chk)
    dom_allowed_check(chk)
    atom_terminal_guard(chk)
    terminal_hooks_cannot_fail_on_futures(chk)
    # closing the process is part of the terminal transition: what a cleanup raises must not escape it, else the transition "fails" and FINISHED / KILLED is
    # left for EXCEPTED through the bypass (obligations shared with C02)
    from .c02 import close_once
    close_once(chk)
    # announcing the new state is part of entering it: a communicator failure that is not tolerated there fails the transition AFTER the terminal state object was
    # installed, and the process leaves FINISHED / KILLED for EXCEPTED (obligation shared with C16)
    from .c16 import tolerated_broadcast_failures
    tolerated_broadcast_failures(chk, 'ESC-terminal-entry')
    # "no late scheduled callback changes a terminal state": a failing callback fails the process through the guarded fail() event in the same loop callback in
    # which the process was found alive (shared with C03)
    from .c03 import callback_failure_fails_process
    callback_failure_fails_process(chk, 'ATOM-terminal-guard')


def terminal_hooks_cannot_fail_on_futures(chk: Check) -> None:
    """The hooks that run AFTER a terminal state object has been installed (entered / terminated hooks of the base classes) run
    inside transition_to's try: an exception there is routed to EXCEPTED with the ALLOWED test bypassed -- FINISHED -> EXCEPTED.
    The one kind of exception these hooks can produce by themselves is InvalidStateError from resolving a future that is
    already done / cancelled, so every future write in them must be provably on a pending (or fresh) future."""
    import ast as _ast
    from ..fut import WRITERS, WriterSite, classify
    prog = chk.prog
    proc = prog.cls('processes.Process')
    n = 0
    for name in ('on_entered', 'on_terminated', 'on_finished', 'on_excepted', 'on_killed'):
        f = prog.view(proc.vmethods.get(name))
        if f is None:
            continue
        ff = chk.ctx.facts.analyse(f)
        for c in calls_in_func(f):
            if isinstance(c.func, _ast.Attribute) and c.func.attr in WRITERS and c.func.attr != 'cancel':
                n += 1
                s_ = classify(chk.ctx, WriterSite(f, c, ff.canon.key(c.func.value), c.func.attr))
                chk.ob('FUT-terminal-hooks', f, s_.guard in ('guarded', 'fresh'), f'{c.func.attr} on {s_.loc} in a hook that runs once the terminal state is installed is {s_.guard}: '
                       + ('cannot raise InvalidStateError' if s_.guard in ('guarded', 'fresh') else 'if that future was already resolved or cancelled (a superseded kill / pause action is) the hook raises, '
                          'and the failed-transition path enters EXCEPTED from the terminal state') + f'; {s_.detail}', node=c, kind='future-write-in-terminal-hook')
    chk.units['future_writes_in_terminal_hooks'] = n
    chk.ob('FUT-terminal-hooks', proc.qualname, True, f'{n} future write(s) in the entered/terminated hooks of Process examined', kind='scan', expr='terminal hooks')


# ---------------------------------------------------------------------- 1. TAB-lifecycle
def tab_lifecycle(chk: Check) -> None:
    prog = chk.prog
    members = common.process_state_enum(prog)
    chk.ob('TAB-lifecycle', 'process_states.ProcessState', set(members) == set(common.STATE_MEMBERS),
           f'ProcessState members {sorted(members)} vs the six states of the property', kind='enum-members')
    by_label = common.labelled_states(prog)
    n = 0
    for lbl in common.STATE_MEMBERS:
        classes = by_label.get(lbl, [])
        chk.ob('TAB-lifecycle', f'state classes labelled {lbl}', bool(classes),
               f'{len(classes)} state class(es) carry LABEL {lbl}', kind='label-present')
        for c in classes:
            n += 1
            allowed = common.allowed_of(prog, c)
            if allowed is UNKNOWN:
                raise AnalysisError(f'cannot fold ALLOWED of {c.qualname}')
            extra = allowed - common.GRAPH[lbl]
            chk.ob('TAB-lifecycle', c.qualname, not extra,
                   f'ALLOWED of {lbl} = {sorted(allowed)}; edges outside the lifecycle graph: {sorted(extra) or "none"}',
                   node=None, kind='allowed-subset-of-graph', expr=f'ALLOWED[{lbl}]')
            if lbl in common.TERMINAL:
                chk.ob('TAB-lifecycle', c.qualname, not allowed, f'terminal state {lbl} must allow no successor, has {sorted(allowed)}',
                       kind='terminal-allows-nothing', expr=f'ALLOWED[{lbl}]')
    chk.floor('TAB-lifecycle', n, 7)

    # is_terminal() must mean "ALLOWED is empty": every has_terminated() guard leans on it
    it = prog.func('base.state_machine.State.is_terminal')
    rets = [s for s in ast.walk(it.node) if isinstance(s, ast.Return)]
    ok = len(rets) == 1 and rets[0].value is not None and norm(rets[0].value) in (
        'not cls.ALLOWED', 'not self.ALLOWED', 'len(cls.ALLOWED) == 0', 'cls.ALLOWED == set()', 'not bool(cls.ALLOWED)')
    chk.ob('TAB-lifecycle', it, ok, 'is_terminal() returns "ALLOWED is empty" (the meaning every terminal guard relies on)',
           node=rets[0] if rets else it.node, kind='is-terminal-definition')
    for sc in common.state_classes(prog):
        if 'is_terminal' in sc.methods:
            chk.ob('TAB-lifecycle', prog.view(sc.vmethods['is_terminal']), False, 'a state class overrides is_terminal()',
                   kind='is-terminal-override')
    ht = prog.func('processes.Process.has_terminated')
    rets = [s for s in ast.walk(ht.node) if isinstance(s, ast.Return)]
    chk.ob('TAB-lifecycle', ht, len(rets) == 1 and norm(rets[0].value) == 'self._state.is_terminal()',
           'has_terminated() is the current state\'s is_terminal()', node=rets[0] if rets else ht.node,
           kind='has-terminated-definition')

    # label -> class maps: each label maps to a class carrying that label
    for qual in ('processes.Process.get_state_classes', 'workchains.WorkChain.get_state_classes'):
        f = prog.func(qual)
        entries = common.states_map_entries(prog, f)
        chk.need(bool(entries), f'no label->class entries found in {qual}')
        for lbl, cls, node in entries:
            got = common.label_of(prog, cls) if cls is not None else None
            chk.ob('TAB-lifecycle', f, got == lbl, f'state map entry {lbl} -> {unparse(node)} whose LABEL is {got}',
                   node=node, kind='state-map-entry', expr=f'{lbl}: {unparse(node)}')
    base_entries = {l for l, _, _ in common.states_map_entries(prog, prog.func('processes.Process.get_state_classes'))}
    chk.ob('TAB-lifecycle', prog.func('processes.Process.get_state_classes'), base_entries == set(common.STATE_MEMBERS),
           f'state map covers {sorted(base_entries)}', kind='state-map-complete')

    from .common import state_tables_built_per_class
    state_tables_built_per_class(chk, 'TAB-lifecycle')
    # initial state: get_states() puts the CREATED class first; create_initial_state builds CREATED
    gs = prog.func('processes.Process.get_states')
    rets = [s for s in ast.walk(gs.node) if isinstance(s, ast.Return)]
    first_ok = False
    from ..rules import built_sequence
    seq = built_sequence(gs)
    if seq is not None and seq.initial:
        first = seq.initial[0]
        if isinstance(first, ast.Subscript):
            v = prog.fold(gs.module, first.slice, gs.owner_class)
            first_ok = repr(v) == 'ProcessState.CREATED'
    chk.ob('TAB-lifecycle', gs, first_ok, 'get_states() lists the CREATED class first (StateMachine takes STATES[0] as initial)',
           node=rets[0] if rets else gs.node, kind='initial-state-first')
    cis = prog.func('processes.Process.create_initial_state')
    labels = [chk.ctx.calls.state_ctor_label(cis, c) for c in calls_in_func(cis)]
    labels = [l for l in labels if l is not None]
    chk.ob('TAB-lifecycle', cis, [repr(l) for l in labels] == ['ProcessState.CREATED'],
           f'create_initial_state builds {labels}', kind='initial-state-created')


# ---------------------------------------------------------------------- 3. OWN-state
def own_state(chk: Check) -> None:
    prog = chk.prog
    writers = __import__('plumpy_sa.rules', fromlist=['effective_writers']).effective_writers(prog, '_state')
    chk.floor('OWN-state', len(writers), 2)
    sm = prog.cls('base.state_machine.StateMachine')
    for f, node in writers:
        oc = f.owner_class
        inside_sm = oc is sm
        load = f.qualname == 'processes.Process.load_instance_state'
        chk.ob('OWN-state', f, inside_sm or load,
               'the current-state attribute is written only inside class StateMachine and by Process.load_instance_state',
               node=node, kind='state-writer', expr='_state store')
    # the failed-transition bypass flag is raised only by transition_to itself
    for f, node in __import__('plumpy_sa.rules', fromlist=['effective_writers']).effective_writers(prog, '_transition_failing'):
        chk.ob('OWN-state', f, f.owner_class is sm, '_transition_failing (exit-check bypass) written only in StateMachine',
               node=node, kind='bypass-flag-writer', expr='_transition_failing store')


# ---------------------------------------------------------------------- 4. DOM-allowed-check
def dom_allowed_check(chk: Check) -> None:
    prog = chk.prog
    ex = prog.func('base.state_machine.StateMachine._exit_current_state')
    cfg = cfg_of(ex)
    tests = [n for n in cfg.nodes if n.kind == 'test' and 'ALLOWED' in unparse(n.ast.test)]
    if not tests:
        chk.ob('DOM-allowed-check', ex, False, 'no test of the next label against the current state\'s ALLOWED set is left in '
               '_exit_current_state: any transition is accepted', kind='allowed-test-missing')
    good = []
    for t in tests:
        test = t.ast.test
        negated = isinstance(test, ast.Compare) and isinstance(test.ops[0], ast.NotIn)
        positive = isinstance(test, ast.Compare) and isinstance(test.ops[0], ast.In)
        if isinstance(test, ast.UnaryOp) and isinstance(test.op, ast.Not) and isinstance(test.operand, ast.Compare) \
                and isinstance(test.operand.ops[0], ast.In):
            negated, test = True, test.operand
        if not (negated or positive):
            continue
        cmp = test
        left, right = norm(cmp.left), norm(cmp.comparators[0])
        subject_ok = right in ('self._state.ALLOWED',) and ('LABEL' in left or 'label' in left)
        bad_label = 'true' if negated else 'false'
        refuses = not branch_reaches_exit(cfg, t, bad_label)
        chk.ob('DOM-allowed-check', ex, subject_ok and refuses,
               f'test "{norm(t.ast.test)}": compares the next label with the current state\'s ALLOWED={subject_ok}; '
               f'the not-allowed branch cannot complete normally={refuses}', node=t.ast, kind='allowed-test-refuses',
               expr='ALLOWED membership test')
        if subject_ok and refuses:
            good.append(t)
    # every normal completion of _exit_current_state passes the test, or the "no current state" branch
    ffx = chk.ctx.facts.analyse(ex)
    none_tests = []
    for n in cfg.nodes:
        if n.kind != 'test':
            continue
        if ('none', 'self._state') in ffx.cond_atoms(n.ast.test, True):
            none_tests.append((n, 'true'))
        elif ('none', 'self._state') in ffx.cond_atoms(n.ast.test, False):
            none_tests.append((n, 'false'))
    through_ids = {t.id for t in good} | {t.id for t, _ in none_tests}
    ok = bool(good) and cfg.must_pass(cfg.entry, [cfg.exit], lambda n: n.id in through_ids)
    # and the path through a "current state exists" branch must pass the ALLOWED test itself
    for t, none_label in none_tests:
        other = 'false' if none_label == 'true' else 'true'
        for s2, l in t.succ:
            if l == other:
                ok = ok and cfg.must_pass(s2, [cfg.exit], lambda n: n.id in {g.id for g in good})
    chk.ob('DOM-allowed-check', ex, ok, 'every path to a normal return of _exit_current_state passes the ALLOWED test '
           '(or the construction branch where no state exists yet)', kind='allowed-test-dominates-exit')
    for t, none_label in none_tests:
        # construction branch: only the initial state may be entered
        side = cfg.reachable([s2 for s2, l in t.succ if l == none_label], include_src=True)
        sub = [n for n in cfg.nodes if n.kind == 'test' and 'initial_state_label' in unparse(n.ast.test) and n.id in side]
        ok2 = any(not branch_reaches_exit(cfg, s2, 'true') or not branch_reaches_exit(cfg, s2, 'false') for s2 in sub)
        chk.ob('DOM-allowed-check', ex, ok2, 'with no current state only the initial state label is accepted', node=t.ast,
               kind='initial-only')

    # transition_to: every _enter_next_state is preceded by _exit_current_state or runs under the failing flag
    tt = prog.func('base.state_machine.StateMachine.transition_to')
    tff = chk.ctx.facts.analyse(tt)
    tcfg = tff.cfg
    enters = [n for n in tcfg.nodes if node_has_call(n, '_enter_next_state')]
    chk.floor('DOM-allowed-check:enter-sites', len(enters), 1)

    def through(n) -> bool:
        if node_has_call(n, '_exit_current_state'):
            return True
        # (the bypass test, written on the flag itself or on a local that stands for it: ``leave_current = not self._transition_failing``)
        return n.kind == 'test' and '_transition_failing' in unparse(tff.subst_flags(n.ast.test, tff.at(n)))

    for e in enters:
        # restart the requirement at every reassignment of the state variable that is entered
        call = [c for c in walk_shallow(e.expr()) if isinstance(c, ast.Call) and last_name(c) == '_enter_next_state'][0]
        var = norm(call.args[0]) if call.args else ''
        starts = [tcfg.entry] + [n for n in tcfg.nodes if n.kind == 'stmt' and isinstance(n.ast, ast.Assign)
                                 and any(norm(t) == var for t in n.ast.targets)]
        ok = all(tcfg.must_pass(s, [e], through) for s in starts if e.id in tcfg.reachable([s]))
        chk.ob('DOM-allowed-check', tt, ok, 'every path reaching this state entry passes the exit check for that state '
               '(or the failed-transition bypass)', node=e.ast, kind='exit-check-before-enter')
    # the bypass of the exit check exists only while a failed transition is being routed to EXCEPTED:
    # raised in the catch-all handler of transition_to, lowered in the finally of the same try
    from ..report import structural_path
    raised = [n for n in ast.walk(tt.node) if isinstance(n, (ast.Assign, ast.AugAssign, ast.AnnAssign)) and norm(n.targets[0] if isinstance(n, ast.Assign) else n.target) == 'self._transition_failing'
              and not (getattr(n, 'value', None) is not None and norm(n.value) == 'False')]
    ok = bool(raised) and all('except ' in structural_path(tt, n) for n in raised)
    chk.ob('DOM-allowed-check', tt, ok, 'the exit-check bypass is raised only inside the handler of a failed transition', kind='bypass-raised-in-handler')
    lowered = any(isinstance(t, ast.Try) and any(isinstance(x, ast.Assign) and norm(x.targets[0]) == 'self._transition_failing' and norm(x.value) == 'False' for x in t.finalbody)
                  and all(any(r is y for y in ast.walk(t)) for r in raised) for t in ast.walk(tt.node))
    chk.ob('DOM-allowed-check', tt, lowered, 'and lowered in the finally of that same try: the bypass never outlives the failed transition (otherwise every later '
           'transition would skip the ALLOWED test)', kind='bypass-lowered-in-finally')
    for f2, node in __import__('plumpy_sa.rules', fromlist=['effective_writers']).effective_writers(prog, '_transition_failing'):
        if f2 is not tt and not (isinstance(node, ast.Attribute) and False):
            val = None
            for a in ast.walk(f2.node):
                if isinstance(a, ast.Assign) and any(t is node for t in a.targets):
                    val = norm(a.value)
            chk.ob('DOM-allowed-check', f2, val == 'False', f'outside transition_to the bypass flag is only ever lowered (assigned {val})', node=node, kind='bypass-other-writer',
                   expr='_transition_failing store')
    # the write of _state happens in _enter_next_state only after the ENTERING hook and do_enter
    en = prog.func('base.state_machine.StateMachine._enter_next_state')
    chk.ob('DOM-allowed-check', en, any(f.qualname == en.qualname for f, _ in __import__('plumpy_sa.rules', fromlist=['effective_writers']).effective_writers(prog, '_state')),
           '_enter_next_state is where the current state is replaced', kind='enter-writes-state')
    callers = [f for f, c in call_sites(prog, '_enter_next_state')]
    chk.ob('DOM-allowed-check', en, all(f is tt for f in callers), f'_enter_next_state called only from transition_to '
           f'(callers: {sorted({f.short for f in callers})})', kind='enter-callers')


# ---------------------------------------------------------------------- 5. ATOM-terminal-guard
def atom_terminal_guard(chk: Check) -> None:
    prog = chk.prog
    cx = Contexts(chk.ctx)
    sites = call_sites(prog, 'transition_to')
    chk.floor('ATOM-terminal-guard', len(sites), 6)
    n_eval = 0
    for f, c in sites:
        if f.qualname == 'base.state_machine.StateMachineMeta.__call__':
            chk.info('ATOM-terminal-guard', f'{f.where(c)}: exempt -- enters the initial state of a new machine')
            continue
        if f.name == 'transition_failed':
            chk.info('ATOM-terminal-guard', f'{f.where(c)}: exempt -- recursive entry of EXCEPTED for a transition that '
                     'was itself guarded (bypass flag raised only by transition_to)')
            continue
        n_eval += 1
        guard_obligations(chk, cx, 'ATOM-terminal-guard', f, c, not_terminated,
                          'process known not to be terminated, in the same interleaving-free region as this transition')
    chk.floor('ATOM-terminal-guard:evaluated', n_eval, 5)
    # sites that run a deferred interrupt action are transition sites too
    for g, c in cx.action_runner_sites():
        guard_obligations(chk, cx, 'ATOM-terminal-guard', g, c, not_terminated,
                          'process known not to be terminated when the pending interrupt action (kill / pause) is run')
    chk.floor('ATOM-terminal-guard:runner-sites', len(cx.action_runner_sites()), 1)
    chk.assumptions.append('lifecycle hooks do not raise (property quantifier); the failed-transition bypass is by design')
