"""C04 -- a kill request is never lost and no live process is unkillable."""
from __future__ import annotations

import ast
from typing import FrozenSet, List, Optional

from ..cfg import cfg_of, no_exc
from ..facts import Atom, falsy, is_none, not_none, not_terminated, pending, state_not, truthy
from ..fut import classify, writer_sites
from ..model import AnalysisError, EnumMember, is_self_attr, norm, strip_cast, unparse, walk_shallow
from ..report import Check
from ..rules import (Contexts, attr_writers, call_sites, calls_in_func, fmt_atom, guard_obligations, last_name, node_has_call,
                     branch_reaches_exit)
from . import common
from .c06 import waiting_future_writers

IA = 'self._interrupt_action'
KILLING = 'self._killing'
STEPPING = 'self._stepping'


def run(chk: Check) -> None:
    kill_ladder(chk)
    deferred_kill_wiring(chk)
    end_of_step_dispatch(chk)
    int_alias_discipline(chk)
    interrupt_delivery(chk)
    cancel_hook(chk)
    # "from a listener callback": the listeners are notified over a snapshot, inside the per-listener try -- a listener that kills the process (whose cleanup removes
    # listeners) does not break the notification loop of the transition in progress (shared with C02)
    from .c02 import listener_loop
    listener_loop(chk, 'ESC-listener-loop')
    # the lifecycle tables must keep KILLED reachable from every live state
    prog = chk.prog
    for lbl in common.LIVE:
        for c in common.labelled_states(prog).get(lbl, []):
            allowed = common.allowed_of(prog, c)
            chk.ob('TAB-killable', c.qualname, 'KILLED' in allowed and 'EXCEPTED' in allowed,
                   f'{lbl} may be left for KILLED and EXCEPTED (ALLOWED={sorted(allowed)})', kind='killed-allowed', expr=f'ALLOWED[{lbl}]')


# ---------------------------------------------------------------------- 1. guard ladder of kill()
def kill_ladder(chk: Check) -> None:
    prog = chk.prog
    kill = prog.func('processes.Process.kill')
    ff = chk.ctx.facts.analyse(kill)
    direct = calls_in_func(kill, 'transition_to')
    chk.need(len(direct) >= 1, 'kill() no longer transitions directly: mechanism moved')
    for c in direct:
        for n, fs in ff.site_facts(c):
            chk.ob('GUARD-kill-ladder', kill, state_not(fs, 'KILLED') and not_terminated(fs), 'direct kill runs only on a live process',
                   node=c, kind='direct:not-terminated')
            chk.ob('GUARD-kill-ladder', kill, falsy(fs, KILLING), 'direct kill runs only when no kill is already pending',
                   node=c, kind='direct:no-pending-kill')
            chk.ob('GUARD-kill-ladder', kill, falsy(fs, STEPPING), 'direct kill runs only when no step is in flight (a transition in '
                   'the middle of a step would be overtaken by the step\'s own end-of-step transition)', node=c, kind='direct:not-stepping')
        # the state entered: constant label KILLED carrying MessageBuilder.kill(<kill text>)
        arg = c.args[0] if c.args else None
        built = _reaching_ctor(chk, kill, arg)
        lbl = chk.ctx.calls.state_ctor_label(kill, built) if built is not None else None
        chk.ob('PROV-kill-state', kill, repr(lbl) == 'ProcessState.KILLED', f'direct kill enters a state with constant label KILLED (got {lbl!r})',
               node=c, kind='direct:label-killed')
        msg_ok = False
        if built is not None:
            for kw in built.keywords:
                if kw.arg == 'msg':
                    src = _reaching_value(kill, kw.value)
                    msg_ok = (isinstance(src, ast.Call) and norm(src.func) == 'MessageBuilder.kill'
                              and [norm(a) for a in src.args] + [norm(k.value) for k in src.keywords if k.arg == 'text'] == [kill.params[1]])
        chk.ob('FWD-kill-text', kill, msg_ok, 'the kill text given to kill() reaches the KILLED state as MessageBuilder.kill(text)',
               node=built or c, kind='direct:kill-text')
    deferred = calls_in_func(kill, '_set_interrupt_action_from_exception') + calls_in_func(kill, '_set_interrupt_action')
    chk.need(len(deferred) >= 1, 'kill() has no deferred branch: mechanism moved')
    for c in deferred:
        for n, fs in ff.site_facts(c):
            chk.ob('GUARD-kill-ladder', kill, state_not(fs, 'KILLED') and not_terminated(fs) and falsy(fs, KILLING) and truthy(fs, STEPPING),
                   'a kill is deferred only for a live process with a step in flight and no kill already pending', node=c,
                   kind='deferred:ladder')
    # outcomes of the early returns: already KILLED -> True; terminated otherwise -> False; pending kill -> that same object
    cfg = ff.cfg
    rets = [n for n in cfg.nodes if n.kind == 'return']
    class _Shapes(list):   # every return with the facts that hold there (several returns may hand back the same expression)
        def items(self):
            return list(self)
    shapes = _Shapes()
    for r in rets:
        fs = ff.at(r)
        v_ = r.ast.value
        txt_ = norm(v_)
        if isinstance(v_, ast.Name):   # a local that stands for the pending action (``pending = self._killing`` ; ``if pending: return pending``)
            txt_ = ff.canon.key(v_)
        shapes.append((txt_, fs))
    ok_true = any(('eq', 'self._state.LABEL', 'ProcessState.KILLED') in fs for v, fs in shapes.items() if v == 'True')
    chk.ob('GUARD-kill-ladder', kill, ok_true, 'kill() on an already KILLED process returns True', kind='return:already-killed')
    ok_false = any(('T', 'self._state.is_terminal()') in fs for v, fs in shapes.items() if v == 'False')
    chk.ob('GUARD-kill-ladder', kill, ok_false, 'kill() on a FINISHED/EXCEPTED process returns False', kind='return:terminated')
    # (the slot holds None or an action object: "is not None" and truthiness say the same)
    ok_pending = any(not_none(fs, KILLING) for v, fs in shapes.items() if v == KILLING)
    chk.ob('GUARD-kill-ladder', kill, ok_pending, 'kill() while a kill is pending returns the pending action', kind='return:pending')
    # no statement of kill() before the transition may raise other than through the calls analysed: nothing to do


def _reaching_value(func, e: Optional[ast.expr]) -> Optional[ast.expr]:
    """Value of a local name assigned exactly once in ``func`` (else the expression itself)."""
    e = strip_cast(e) if e is not None else None
    if isinstance(e, ast.Name):
        vals = [n.value for n in ast.walk(func.node) if isinstance(n, ast.Assign)
                and any(isinstance(t, ast.Name) and t.id == e.id for t in n.targets)]
        if len(vals) == 1:
            return strip_cast(vals[0])
        return None
    return e


def _reaching_ctor(chk: Check, func, e: Optional[ast.expr]) -> Optional[ast.Call]:
    v = _reaching_value(func, e)
    if isinstance(v, ast.Call) and chk.ctx.calls.state_ctor_label(func, v) is not None:
        return v
    return None


# ---------------------------------------------------------------------- 2. deferred kill wiring
def deferred_kill_wiring(chk: Check) -> None:
    prog = chk.prog
    kill = prog.func('processes.Process.kill')
    cfg = cfg_of(kill)
    # in the stepping branch: interrupt exception built from the text, action installed, _killing aliases it, state interrupted, same object returned
    setc = calls_in_func(kill, '_set_interrupt_action_from_exception')
    chk.need(len(setc) == 1, 'expected one _set_interrupt_action_from_exception call in kill()')
    exc_var = norm(setc[0].args[0]) if setc[0].args else ''
    exc_val = _reaching_value(kill, setc[0].args[0]) if setc[0].args else None
    is_kill_int = isinstance(exc_val, ast.Call) and norm(exc_val.func).split('.')[-1] == 'KillInterruption' \
        and [norm(a) for a in exc_val.args] == [kill.params[1]]
    chk.ob('PROV-deferred-kill', kill, is_kill_int, 'the pending kill is built from KillInterruption(<kill text>)', node=setc[0],
           kind='kill-interruption-from-text')
    set_node = cfg.nodes_containing(setc[0])[0]
    from ..rules import setter_returns_installed_action
    via_return = setter_returns_installed_action(prog)   # ``self._killing = self._set_interrupt_action_from_exception(e)`` where the setter returns what it installed
    alias = [n for n in cfg.nodes if n.kind == 'stmt' and isinstance(n.ast, ast.Assign) and norm(n.ast.targets[0]) == KILLING
             and (norm(strip_cast(n.ast.value)) == IA or (via_return and strip_cast(n.ast.value) is setc[0]))]
    ok_alias = bool(alias) and all(cfg.must_pass(set_node, [cfg.exit], lambda n: n in alias, edge_ok=no_exc) for _ in [0])
    chk.ob('PROV-deferred-kill', kill, ok_alias, 'after installing the kill action, _killing is set to that same object on every path',
           node=alias[0].ast if alias else setc[0], kind='killing-aliases-action')
    # nothing may come between installing the action and recording it in _killing that could interleave
    if alias:
        ff = chk.ctx.facts.analyse(kill)
        between_ok = any(a[0] == 'T' and a[1] == STEPPING for a in ff.at(alias[0]))
        chk.ob('PROV-deferred-kill', kill, between_ok, 'no interleaving point between installing the action and recording it in _killing',
               node=alias[0].ast, kind='alias-same-region')
    inter = [c for c in calls_in_func(kill, 'interrupt') if norm(c.func) == 'self._state.interrupt']
    ok_int = len(inter) == 1 and [norm(a) for a in inter[0].args] == [exc_var]
    chk.ob('PROV-deferred-kill', kill, ok_int, 'the running state is interrupted with the interruption whose cookie the action carries',
           node=inter[0] if inter else setc[0], kind='state-interrupted-with-cookie')
    if inter and alias:
        inode = cfg.nodes_containing(inter[0])[0]
        chk.ob('PROV-deferred-kill', kill, cfg.must_pass(cfg.entry, [inode], lambda n: n in alias, edge_ok=no_exc),
               'the interruption is delivered only after the action is installed and recorded (the waiting step may react at once)',
               node=inter[0], kind='interrupt-after-install')
    rets = [n for n in cfg.nodes if n.kind == 'return' and set_node.id != n.id and n.id in cfg.reachable([set_node], edge_ok=no_exc)]
    ok_ret = bool(rets) and all(norm(strip_cast(r.ast.value)) in (IA, KILLING) for r in rets)
    chk.ob('PROV-deferred-kill', kill, ok_ret, 'the deferred branch returns the installed action itself', node=rets[0].ast if rets else setc[0],
           kind='returns-action')

    from ..rules import dispatch_sites, resolve_callable_ref
    cia = prog.func('processes.Process._create_interrupt_action')
    exc_param = cia.params[1] if len(cia.params) > 1 else 'exception'
    ffc = chk.ctx.facts.analyse(cia)
    from ..rules import action_built_for
    built = action_built_for(chk.ctx, cia, 'KillInterruption')
    act = built[0][0] if built and all(b[0] is not None for b in built) else None
    tsets = [resolve_callable_ref(chk.ctx, cia, b[1]) if b[1] is not None else [] for b in built]
    targets = tsets[0] if tsets and all(len(t_) == 1 and t_[0][0] is tsets[0][0][0] for t_ in tsets) else []
    ok_act = act is not None and len(targets) == 1 and all(b[2] == exc_param for b in built)
    chk.ob('PROV-deferred-kill', cia, ok_act, 'a KillInterruption yields CancellableAction(<kill action>, cookie=<that interruption>)',
           node=act or cia.node, kind='action-for-kill-interruption')
    chk.need(len(targets) == 1, 'the action run for a KillInterruption could not be resolved to one function')
    dk, bound = targets[0]
    dk = prog.view(dk)
    # how the action names the interruption: the closure variable itself, or the parameter partial() bound it to
    int_names = {exc_param} if dk.parent is not None else set()
    dk_params = dk.params[1:] if dk.cls is not None else dk.params
    for p_, a_ in zip(dk_params, bound):
        if norm(a_) == exc_param:
            int_names.add(p_)
    # do_kill: KILLED with msg=exception.msg, returns True, resets _killing in finally
    built = [c for c in calls_in_func(dk) if chk.ctx.calls.state_ctor_label(dk, c) is not None]
    lbl_ok = len(built) == 1 and repr(chk.ctx.calls.state_ctor_label(dk, built[0])) == 'ProcessState.KILLED'
    chk.ob('PROV-deferred-kill', dk, lbl_ok, 'the deferred kill enters a state with constant label KILLED', node=built[0] if built else dk.node,
           kind='do-kill:label-killed')
    msg_ok = lbl_ok and any(k.arg == 'msg' and norm(k.value) in {f'{n_}.msg' for n_ in int_names} for k in built[0].keywords)
    chk.ob('FWD-kill-text', dk, msg_ok, 'the deferred kill carries the message of the KillInterruption', node=built[0] if built else dk.node,
           kind='do-kill:msg')
    tr = calls_in_func(dk, 'transition_to')
    var_ok = len(tr) == 1 and built and _reaching_value(dk, tr[0].args[0]) is built[0]
    chk.ob('PROV-deferred-kill', dk, bool(var_ok), 'the state built is the state entered', node=tr[0] if tr else dk.node, kind='do-kill:enters-built-state')
    dcfg = cfg_of(dk)
    rets = [n for n in dcfg.nodes if n.kind == 'return']
    chk.ob('PROV-deferred-kill', dk, bool(rets) and all(norm(r.ast.value) == 'True' for r in rets), 'the deferred kill reports True',
           kind='do-kill:returns-true')
    fin = [t for t in ast.walk(dk.node) if isinstance(t, ast.Try) and any(
        isinstance(s, ast.Assign) and norm(s.targets[0]) == KILLING and norm(s.value) == 'None' for s in t.finalbody)]
    chk.ob('PAIR-killing-reset', dk, bool(fin), '_killing is reset in a finally on every exit of the deferred kill', kind='do-kill:finally-reset')
    ki = prog.func('process_states.KillInterruption.__init__')
    mk = [c for c in calls_in_func(ki) if norm(c.func) == 'MessageBuilder.kill']
    ok = len(mk) == 1 and ([norm(a) for a in mk[0].args] + [norm(k.value) for k in mk[0].keywords if k.arg == 'text']) == [ki.params[1]]
    stored = any(isinstance(n, ast.Assign) or isinstance(n, ast.AnnAssign) for n in ast.walk(ki.node)
                 if isinstance(n, (ast.Assign, ast.AnnAssign)) and any(is_self_attr(t, 'msg') for t in (n.targets if isinstance(n, ast.Assign) else [n.target])))
    chk.ob('FWD-kill-text', ki, ok and stored, 'KillInterruption keeps MessageBuilder.kill(text=<kill text>) as its msg', node=mk[0] if mk else ki.node,
           kind='interruption-msg')
    # on_kill records the text as status
    ok_fn = prog.func('processes.Process.on_kill')
    st = [c for c in calls_in_func(ok_fn, 'set_status')]
    chk.ob('FWD-kill-text', ok_fn, len(st) >= 1, 'the kill text is recorded as the status on entering KILLED', kind='status-recorded')


# ---------------------------------------------------------------------- 3. end-of-step dispatch
def end_of_step_dispatch(chk: Check) -> None:
    prog = chk.prog
    step = prog.func('processes.Process.step')
    cfg = cfg_of(step)
    ff = chk.ctx.facts.analyse(step)
    runs = [n for n in cfg.nodes if any(norm(c.func) == f'{IA}.run' for c in _calls(n))]
    trans = [n for n in cfg.nodes if node_has_call(n, 'transition_to')]
    chk.ob('DOM-end-of-step', step, bool(runs), 'step() runs the pending interrupt action at the end of the step', kind='action-run-site-present')
    chk.ob('DOM-end-of-step', step, bool(trans), 'step() performs the plain transition at the end of the step', kind='transition-site-present')
    execs = [n for n in cfg.nodes if n.expr() is not None and any(isinstance(x, ast.Await) and '_state.execute' in norm(x) for x in walk_shallow(n.expr()))]
    chk.need(len(execs) >= 1, 'the await of the state\'s execute was not found in Process.step')
    ex = execs[0]
    for r in runs:
        fs = ff.at(r)
        chk.ob('DOM-end-of-step', step, not_none(fs, IA), 'the interrupt action is run only when one is set', node=r.ast, kind='run-iff-set')
        call = [c for c in _calls(r) if norm(c.func) == f'{IA}.run'][0]
        # (the variable that received what the state's execute returned, whatever it is called)
        nvars = {norm(ex.ast.targets[0])} if isinstance(ex.ast, ast.Assign) and len(ex.ast.targets) == 1 and isinstance(ex.ast.targets[0], ast.Name) else {'next_state'}
        chk.ob('DOM-end-of-step', step, len(call.args) == 1 and norm(call.args[0]) in nvars, 'the action receives the step\'s next state '
               '(a pause must not lose the step)', node=r.ast, kind='run-gets-next-state')
    for t in trans:
        fs = ff.at(t)
        chk.ob('DOM-end-of-step', step, falsy(fs, IA), 'the plain transition happens only when no interrupt action is set', node=t.ast,
               kind='transition-iff-unset')

    def dispatch(n) -> bool:
        return n in runs or n in trans

    def terminated_return(n) -> bool:
        return n.kind == 'return' and ('T', 'self._state.is_terminal()') in ff.at(n)

    # (the "terminated meanwhile" way out: a return, or the empty branch an inlined helper's early return becomes -- any node that knows the process is terminal)
    ok = cfg.must_pass(ex, [cfg.exit], lambda n: dispatch(n) or terminated_return(n) or ('T', 'self._state.is_terminal()') in ff.at(n), edge_ok=no_exc)
    if not ok:
        # the same path by path: the dispatch, or a branch taken BECAUSE the process is terminal (``if not terminated: <dispatch>`` with nothing in the else)
        from ..decisions import paths_under as _pu_d
        try:
            ok = True
            n_p = 0
            for path in _pu_d(ff, {}, start=ex):
                if path[-1] is not cfg.exit:
                    continue
                n_p += 1
                good = any(dispatch(m) or terminated_return(m) for m in path)
                for i, m in enumerate(path[:-1]):
                    if m.kind == 'test':
                        lbl = next((l for t_, l in m.succ if t_ is path[i + 1] and l in ('true', 'false')), None)
                        if lbl is not None and ('T', 'self._state.is_terminal()') in ff.cond_atoms(ff.subst_flags(m.ast.test, ff.at(m)), lbl == 'true'):
                            good = True
                ok = ok and good
            ok = ok and n_p > 0
        except RuntimeError:
            ok = False
    chk.ob('DOM-end-of-step', step, ok, 'every non-raising path from the step to the end of step() performs the dispatch '
           '(or returns because the process terminated meanwhile)', kind='dispatch-on-all-paths')
    # at most one dispatch per path: from a dispatch node no other dispatch node is reachable
    multi = False
    for d in runs + trans:
        reach = cfg.reachable([d], edge_ok=no_exc)
        multi |= any(o.id in reach for o in runs + trans if o.ast is not d.ast)
    chk.ob('DOM-end-of-step', step, not multi, 'no path performs two dispatches', kind='dispatch-at-most-once')
    # OWN: CancellableAction.run is called nowhere else
    cx = Contexts(chk.ctx)
    sites = cx.action_runner_sites()
    chk.ob('OWN-action-run', 'futures.CancellableAction.run', all(f is step for f, _ in sites) and len(sites) >= 1,
           f'interrupt actions are run only by Process.step (sites: {[f.short for f, _ in sites]})', kind='run-callers')
    # _stepping brackets the step: set before the execute, reset in the finally
    sets = [n for n in cfg.nodes if n.kind == 'stmt' and isinstance(n.ast, ast.Assign) and norm(n.ast.targets[0]) == STEPPING]
    set_true = [n for n in sets if norm(n.ast.value) == 'True']
    ok_set = bool(set_true) and cfg.must_pass(cfg.entry, [ex], lambda n: n in set_true, edge_ok=no_exc)
    chk.ob('PAIR-stepping', step, ok_set, '_stepping is raised before the state is executed (kill()/pause() defer on it)', kind='stepping-set')
    fin = [t for t in ast.walk(step.node) if isinstance(t, ast.Try) and any(
        isinstance(s, ast.Assign) and norm(s.targets[0]) == STEPPING and norm(s.value) == 'False' for s in t.finalbody)]
    from ..rules import flag_lowered_on_every_exit
    low_ok, _n_up = flag_lowered_on_every_exit(step, STEPPING, 'True', 'False')
    chk.ob('PAIR-stepping', step, bool(fin) and bool(set_true) and low_ok,
           '_stepping is lowered in the finally of the try that raises it', kind='stepping-reset')


def _calls(n) -> List[ast.Call]:
    e = n.expr()
    return [x for x in walk_shallow(e) if isinstance(x, ast.Call)] if e is not None else []


# ---------------------------------------------------------------------- 4. INT alias discipline
def int_alias_discipline(chk: Check) -> None:
    prog = chk.prog
    proc = prog.cls('processes.Process')
    # OWN: _interrupt_action is assigned only in _set_interrupt_action
    for f, node in __import__('plumpy_sa.rules', fromlist=['effective_writers']).effective_writers(prog, '_interrupt_action'):
        chk.ob('OWN-interrupt-action', f, f.qualname == 'processes.Process._set_interrupt_action',
               '_interrupt_action is replaced only through _set_interrupt_action (which cancels the previous action)', node=node,
               kind='writer', expr='_interrupt_action store')
    # who may FORGET a requested pause: while a deferred kill is pending, the only thing that keeps a further pause() from installing its action over the kill is
    # that an earlier, since superseded, pause request is still remembered in _pausing (pause() then returns early).  The marker is dropped by the pause protocol
    # alone -- play() withdrawing the pause, _do_pause completing it, on_pausing / on_paused taking effect, a fresh or reloaded object -- never as a side effect of
    # installing another action (a who-may-write table, confirmed by reading; the hazard it fences in is the known finding G5, which a further reset would widen)
    from ..rules import effective_funcs as _ef
    FORGET_OK = ('processes.Process.play', 'processes.Process._do_pause', 'processes.Process.on_pausing', 'processes.Process.on_paused', 'processes.Process.__init__',
                 'processes.Process.init', 'processes.Process.load_instance_state')
    n_forget = 0
    for f in _ef(prog):
        if isinstance(f.node, ast.Lambda):
            continue
        for st in (x for b in f.node.body for x in walk_shallow(b) if isinstance(x, ast.Assign)):
            if any(is_self_attr(t, '_pausing') for t in st.targets) and isinstance(st.value, ast.Constant) and st.value.value is None:
                n_forget += 1
                chk.ob('INT-alias', f, f.qualname in FORGET_OK, f'{f.short} forgets the requested pause (_pausing = None): only the pause protocol does that (play withdraws it, _do_pause completes it)'
                       + ('' if f.qualname in FORGET_OK else ' -- here it is forgotten as a side effect: with a kill pending, the next pause() no longer returns early and installs its action OVER the kill '
                          '(pause, kill, pause loses the kill)'), node=st, kind='pause-forgotten-only-by-pause-protocol', expr=f'{f.short}: _pausing = None')
    chk.floor('INT-alias:pause-forgotten-sites', n_forget, 2)
    sia = prog.func('processes.Process._set_interrupt_action')
    cancels = [c for c in calls_in_func(sia, 'cancel')]
    chk.info('INT-alias', f'_set_interrupt_action cancels the previous action: {bool(cancels)}')
    # ... and installs what it is given, on every path (a kill requested during a step exists only as this attribute until the step ends)
    scfg = cfg_of(sia)
    ap = sia.params[1] if len(sia.params) > 1 else 'new_action'
    inst = [n for n in scfg.nodes if n.kind == 'stmt' and isinstance(n.ast, ast.Assign) and norm(n.ast.targets[0]) == IA and norm(n.ast.value) == ap]
    chk.ob('OWN-interrupt-action', sia, bool(inst) and scfg.must_pass(scfg.entry, [scfg.exit], lambda m: m in inst, edge_ok=no_exc),
           '_set_interrupt_action installs the action it is given on every path', kind='installs-argument')
    sfe = prog.func('processes.Process._set_interrupt_action_from_exception')
    mk = [c for c in calls_in_func(sfe, '_create_interrupt_action')]
    st_ = [c for c in calls_in_func(sfe, '_set_interrupt_action')]
    from ..rules import Resolver as _Rs
    ok = len(mk) == 1 and len(st_) == 1 and [norm(a) for a in mk[0].args] == [sfe.params[1]] and _Rs(sfe).text(st_[0].args[0]) == norm(mk[0])
    if not ok and 'processes.Process._create_interrupt_action' in prog.folded and len(st_) == 1 and isinstance(st_[0].args[0], ast.Name):
        # the factory folded into this function: what is installed is, on every path, a CancellableAction built here with the interruption as its cookie
        from ..rules import conditional_values as _cv
        vals_ = [v for _, v in _cv(chk.ctx.facts.analyse(sfe), st_[0].args[0].id)]
        ok = bool(vals_) and all(isinstance(v, ast.Call) and last_name(v) == 'CancellableAction' and [norm(k.value) for k in v.keywords if k.arg == 'cookie'] == [sfe.params[1]] for v in vals_)
    chk.ob('OWN-interrupt-action', sfe, ok, '_set_interrupt_action_from_exception installs the action created for that very interruption', kind='installs-created-action')
    sites = []
    for name in ('_set_interrupt_action', '_set_interrupt_action_from_exception'):
        for f, c in call_sites(prog, name):
            if f.qualname == 'processes.Process._set_interrupt_action_from_exception':
                continue
            sites.append((f, c))
    chk.floor('INT-alias', len(sites), 3)
    for f, c in sites:
        ff = chk.ctx.facts.analyse(f)
        cfg = ff.cfg
        verdicts = []
        for n, fs in ff.site_facts(c):
            reason = None
            if is_none(fs, IA) or falsy(fs, IA):
                reason = 'no action is set here: nothing is cancelled'
            elif falsy(fs, KILLING):
                reason = 'no kill is pending here'
            elif _alias_reestablished(cfg, n):
                reason = 'this is the kill path: _killing is set to the new action right after'
            elif _followed_by_terminal_transition(chk, f, cfg, ff, n, c):
                reason = 'the step failed: the process is taken to EXCEPTED right after (allowed by the property)'
            verdicts.append(reason)
        ok = all(v is not None for v in verdicts)
        held = sorted({a for _, fs in ff.site_facts(c) for a in fs})
        why = (verdicts[0] if ok else
               'replaces / cancels the interrupt action while a kill may be pending (_killing aliases that action): the kill\'s '
               'action is cancelled, the process carries on, and since _killing is never cleared every later kill() returns the '
               'cancelled action -- the process is unkillable') + '; facts at the site: ' + (', '.join(fmt_atom(a) for a in held) or 'none')
        # what the site does know: part of the kind, so that a listed finding names the guard it was triaged under
        union = frozenset().union(*[fs for _, fs in ff.site_facts(c)]) if ff.site_facts(c) else frozenset()
        common_facts = frozenset.intersection(*[fs for _, fs in ff.site_facts(c)]) if ff.site_facts(c) else frozenset()
        from ..rules import dominating_conditions
        guards = set(common_facts)
        for n_, _ in ff.site_facts(c):
            guards |= dominating_conditions(ff, n_, possible=True)
        tags = []
        if not_none_any(guards, 'self._pausing'):
            tags.append('a-pause-is-pending')
        if truthy(guards, STEPPING):
            tags.append('stepping')
        if any(a[0] == 'differ' and ('cookie' in a[1] or 'cookie' in a[2]) for a in guards):
            tags.append('cookie-mismatch')
        chk.ob('INT-alias', f, ok, why, node=c, kind=('replace-may-cancel-pending-kill[' + ','.join(tags) + ']') if not ok else 'replace-safe')


def not_none_any(fs, key: str) -> bool:
    return ('notnone', key) in fs or ('T', key) in fs


def _alias_reestablished(cfg, n) -> bool:
    alias = [m for m in cfg.nodes if m.kind == 'stmt' and isinstance(m.ast, ast.Assign) and norm(m.ast.targets[0]) == KILLING
             and norm(strip_cast(m.ast.value)) == IA]
    if not alias:
        return False
    return cfg.must_pass(n, [cfg.exit], lambda m: m in alias, edge_ok=no_exc) and all(
        s is alias[0] or True for s in alias) and _next_stmt_is(cfg, n, alias)


def _next_stmt_is(cfg, n, targets) -> bool:
    nxt = [t for t, l in n.succ if l is None]
    return bool(nxt) and all(t in targets for t in nxt)


def _followed_by_terminal_transition(chk, f, cfg, ff, n, call) -> bool:
    """``_set_interrupt_action(None)`` right after ``next_state = <state with a constant terminal label>`` and every
    normal continuation enters that state (or returns because the process already terminated)."""
    if not (call.args and norm(call.args[0]) == 'None'):
        return False
    preds = [p for p, l in n.pred]
    if len(preds) != 1 or not (preds[0].kind == 'stmt' and isinstance(preds[0].ast, ast.Assign)):
        return False
    asg = preds[0].ast
    if not isinstance(asg.value, ast.Call):
        return False
    lbl = chk.ctx.calls.state_ctor_label(f, asg.value)
    if not (isinstance(lbl, EnumMember) and lbl.member in common.TERMINAL):
        return False
    var = norm(asg.targets[0])

    def enters(m) -> bool:
        # transition_to(<that state>), or the interrupt action run with it (kill -> KILLED, pause -> enters it first)
        return any((last_name(c) == 'transition_to' or norm(c.func) == f'{IA}.run') and c.args and norm(c.args[0]) == var
                   for c in _calls(m))

    def terminated_return(m) -> bool:
        # (a return, or the empty branch an inlined helper's early return becomes: a node that knows the process is terminal)
        return ('T', 'self._state.is_terminal()') in ff.at(m)

    if cfg.must_pass(n, [cfg.exit], lambda m: enters(m) or terminated_return(m), edge_ok=no_exc):
        return True
    # the same along every path, with the locals the state travels through spelled out (``excepted = <state>`` ; ``successor = excepted`` ; ``transition_to(successor)``)
    from ..decisions import paths_under as _pu, value_on_path as _vop
    want = norm(asg.value)
    try:
        paths = _pu(ff, {}, start=preds[0])
    except RuntimeError:
        return False
    seen = 0
    for path in paths:
        if path[-1] is not cfg.exit:
            continue
        seen += 1
        ok_path = False
        for i, m in enumerate(path):
            if i and terminated_return(m):
                ok_path = True
                break
            if i and m.kind == 'test' and i + 1 < len(path):
                lbl_ = next((l for t_, l in m.succ if t_ is path[i + 1] and l in ('true', 'false')), None)
                if lbl_ is not None and ('T', 'self._state.is_terminal()') in ff.cond_atoms(ff.subst_flags(m.ast.test, ff.at(m)), lbl_ == 'true'):
                    ok_path = True
                    break
            hit = [c for c in _calls(m) if (last_name(c) == 'transition_to' or norm(c.func) == f'{IA}.run') and c.args]
            if i and hit:
                ok_path = norm(_vop(path, i, hit[0].args[0])) == want
                break
        if not ok_path:
            return False
    return seen > 0


# ---------------------------------------------------------------------- 5. interrupt delivery
def interrupt_delivery(chk: Check) -> None:
    prog = chk.prog
    wi = prog.func('process_states.Waiting.interrupt')
    sites = [s for s in waiting_future_writers(chk) if s.func is wi]
    rparam = wi.params[1] if len(wi.params) > 1 else ''
    ok = len(sites) == 1 and sites[0].op == 'set_exception' and [norm(a) for a in sites[0].call.args] == [rparam]
    chk.ob('FWD-interrupt', wi, ok, 'interrupting a waiting step fails its waiting future with the given interruption',
           node=sites[0].call if sites else wi.node, kind='reason-delivered')
    # ... on EVERY way through interrupt() on which the waiting future is still pending (decision table over ``<future>.done()`` = False, any
    # other test explored both ways): a guard on something else -- "an interruption was delivered before" -- makes later interruptions of a
    # re-executed waiting state vanish, the kill / pause request is installed but the step never wakes up
    from ..decisions import paths_under as _pu
    from .common import waiting_future_key as _wfk
    ffw = chk.ctx.facts.analyse(wi)
    wn = {m.id for s_ in sites for m in ffw.cfg.nodes_containing(s_.call)}
    lost = None
    try:
        for path in _pu(ffw, {f'{_wfk(prog)}.done()': False}):
            if path[-1] is ffw.cfg.exit and not any(m.id in wn for m in path):
                lost = path
                break
    except RuntimeError:
        lost = []
    tests_ = [m for m in (lost or []) if m.kind == 'test']
    chk.ob('FWD-interrupt', wi, bool(sites) and lost is None, 'while the waiting future is pending every way through interrupt(reason) fails it with that reason (an interruption that is '
           'dropped leaves the request installed and the step asleep)', node=tests_[-1].ast if tests_ else None, kind='interruption-reaches-future')
    for s in sites:
        chk.ob('FUT-multi-writer', s.func, s.guard in ('guarded', 'fresh'),
               f'{s.op} on the waiting future is {s.guard}: a second interruption (kill after pause, pause after kill) or a '
               f'wake-up in the same loop iteration finds the future already resolved and the control call raises; {s.detail}',
               node=s.call, kind=s.guard)
    # Waiting.execute lets the interruption reach step() (re-raise after re-arming)
    we = prog.func('process_states.Waiting.execute')
    rer = False
    for t in [n for n in ast.walk(we.node) if isinstance(n, ast.Try)]:
        for h in t.handlers:
            if h.type is not None and unparse(h.type).split('.')[-1] == 'Interruption':
                rer = any(isinstance(s, ast.Raise) and s.exc is None for s in h.body)
    chk.ob('FWD-interrupt', we, rer, 'the waiting step re-raises the interruption to step()', kind='reraise')
    re = prog.func('process_states.Running.execute')
    ok_r = False
    for t in [n for n in ast.walk(re.node) if isinstance(n, ast.Try)]:
        names = [unparse(h.type).split('.')[-1] if h.type is not None else '<bare>' for h in t.handlers]
        if 'Interruption' in names:
            i = names.index('Interruption')
            catch_all = [j for j, nm in enumerate(names) if nm in ('Exception', 'BaseException', '<bare>')]
            h = t.handlers[i]
            ok_r = any(isinstance(s, ast.Raise) and s.exc is None for s in h.body) and (not catch_all or i < min(catch_all))
    chk.ob('FWD-interrupt', re, ok_r, 'a running step lets an Interruption bubble up (its handler precedes the catch-all)',
           kind='interruption-before-catch-all')
    # step(): Interruption handler precedes the catch-all
    st = prog.func('processes.Process.step')
    ok_s = False
    for t in [n for n in ast.walk(st.node) if isinstance(n, ast.Try)]:
        names = [unparse(h.type).split('.')[-1] if h.type is not None else '<bare>' for h in t.handlers]
        if 'Interruption' in names:
            i = names.index('Interruption')
            catch_all = [j for j, nm in enumerate(names) if nm in ('Exception', 'BaseException', '<bare>')]
            ok_s = not catch_all or i < min(catch_all)
    chk.ob('FWD-interrupt', st, ok_s, 'step() handles an Interruption before its catch-all', kind='step-handler-order')


# ---------------------------------------------------------------------- 6. cancel hook
def cancel_hook(chk: Check) -> None:
    """Cancelling the process future kills the process -- for a freshly constructed process AND for a loaded one.

    A *kill-on-cancel callback* is any function that calls ``self.kill(...)`` under the fact ``<its argument>.cancelled()``.
    It must be registered (``add_done_callback``) on the object that ends up being ``self._future``:
      fresh   in init() (runs after construction), or in __init__ on the value assigned to ``_future``
      loaded  in init() (runs after load), or in load_instance_state AFTER the base class restored the auto-persisted
              members (``_future`` is one of them: a registration made before that is on a throw-away object)"""
    from ..rules import resolve_callable_ref
    prog = chk.prog
    proc = prog.cls('processes.Process')

    def kill_on_cancel(g) -> bool:
        if g is None or isinstance(g.node, ast.Lambda):
            return False
        params = g.params[1:] if g.cls is not None else g.params
        if not params:
            return False
        ffg = chk.ctx.facts.analyse(g)
        kills = [c for c in calls_in_func(g, 'kill') if norm(c.func) == 'self.kill']
        return len(kills) >= 1 and all(('T', f'{params[0]}.cancelled()') in fs for c in kills for _, fs in ffg.site_facts(c))

    def registrations(f):
        """(node, registered-object text) of kill-on-cancel registrations in the analysis view of f."""
        out = []
        ffv = chk.ctx.facts.analyse(f)
        for c in calls_in_func(f, 'add_done_callback'):
            if not c.args:
                continue
            targets = resolve_callable_ref(chk.ctx, f, c.args[0])
            if targets and all(kill_on_cancel(prog.view(g)) for g, _ in targets):
                for n in ffv.cfg.nodes_containing(c):
                    out.append((n, ffv.canon.key(c.func.value), c, ffv))
        return out

    init = prog.func('processes.Process.init')
    ctor = prog.func('processes.Process.__init__')
    load = prog.func('processes.Process.load_instance_state')
    reg_init = [r for r in registrations(init) if r[1] == 'self._future']
    reg_ctor = registrations(ctor)
    reg_load = registrations(load)
    # fresh processes
    fresh_ok = bool(reg_init)
    if not fresh_ok:
        for n, key, c, ffv in reg_ctor:
            # registered on the very object assigned to self._future
            asg = [m for m in ffv.cfg.nodes if m.kind == 'stmt' and isinstance(m.ast, ast.Assign) and norm(m.ast.targets[0]) == 'self._future']
            fresh_ok |= key == 'self._future' or any(norm(m.ast.value) == key or key in norm(m.ast.value) for m in asg)
    chk.ob('PAIR-cancel-hook', ctor if not reg_init else init, fresh_ok, 'a newly constructed process kills itself when its future is cancelled (kill-on-cancel callback registered on the process future)',
           kind='registered')
    # loaded processes
    loaded_ok = bool(reg_init)
    if not loaded_ok and reg_load:
        lcfg = reg_load[0][3].cfg
        sup = [m for m in lcfg.nodes if m.expr() is not None and any(isinstance(x, ast.Call) and isinstance(x.func, ast.Attribute) and x.func.attr == 'load_instance_state'
                                                                      and isinstance(x.func.value, ast.Call) and unparse(x.func.value.func) == 'super' for x in walk_shallow(m.expr()))]
        loaded_ok = bool(sup) and all(key == 'self._future' and lcfg.must_pass(lcfg.entry, [n], lambda m: m in sup, edge_ok=no_exc) for n, key, c, ffv in reg_load)
    chk.ob('PAIR-cancel-hook', load if not reg_init else init, loaded_ok, 'a process recreated from a checkpoint does too: the callback is registered on the RESTORED future '
           '(in init(), or in load_instance_state after the auto-persisted members -- _future among them -- were restored)', kind='registered-after-restore')
    # the registration in init() depends only on the future still being pending
    if reg_init:
        n, key, c, ffv = reg_init[0]
        from ..report import structural_path
        sp = structural_path(init, c)
        extra = [part for part in sp.split('>') if part and part not in ('if not self._future.done()', 'if not self.future().done()')]
        chk.ob('PAIR-cancel-hook', init, not extra, f'the registration is conditional on nothing but the future being pending ({sp or "unconditional"})', node=c, kind='registration-unconditional')
    # recreate_from -> init too (loaded processes)
    rf = prog.func('processes.Process.recreate_from')
    chk.ob('PAIR-cancel-hook', rf, any('init' in norm(c) for c in calls_in_func(rf, 'call_with_super_check')),
           'loaded processes run init() too', kind='init-on-load')
    # external canceller: the code that reacts to a cancelled future must not then resolve it unconditionally
    ok_fn = prog.func('processes.Process.on_kill')
    for s in writer_sites(chk.ctx, ok_fn, ['self._future']):
        classify(chk.ctx, s)
        chk.ob('FUT-external-canceller', ok_fn, s.guard in ('guarded', 'fresh'),
               f'{s.op} on the process future is {s.guard}: init() reacts to a *cancelled* process future by calling kill(), '
               f'whose transition runs on_kill, which then resolves that same already-cancelled future -> InvalidStateError, '
               f'the process ends EXCEPTED instead of KILLED; {s.detail}', node=s.call, kind=s.guard)
