"""C16 -- remote control equals direct control; each transition announced once, in order."""
from __future__ import annotations

import ast
import re
from typing import Dict, List, Optional, Tuple

from ..cfg import cfg_of, no_exc
from ..model import AnalysisError, UNKNOWN, FuncInfo, norm, strip_cast, unparse, walk_shallow
from ..report import Check
from ..rules import Resolver, branch_reaches_exit, calls_in_func, last_name

INTENTS = ('PLAY', 'PAUSE', 'KILL', 'STATUS')
CONTROL = {'PLAY': ('self.play', []), 'PAUSE': ('self.pause', ['msg_text']), 'KILL': ('self.kill', ['msg_text'])}


def _calls(n) -> List[ast.Call]:
    e = n.expr()
    return [x for x in walk_shallow(e) if isinstance(x, ast.Call)] if e is not None else []


def intent_ladder(prog, f: FuncInfo, subject: str) -> Dict[str, List[ast.stmt]]:
    out: Dict[str, List[ast.stmt]] = {}
    for s in f.node.body:
        if isinstance(s, ast.If) and isinstance(s.test, ast.Compare) and norm(s.test.left) == subject:
            v = prog.fold(f.module, s.test.comparators[0], f.owner_class)
            c = prog.cls('process_comms.Intent')
            for member, val in c.attrs.items():
                if prog.fold(c.module, val, c) == v:
                    out[member] = s.body
    return out


def run(chk: Check) -> None:
    prog = chk.prog
    dispatch(chk)
    # a process continued by a launcher listens and announces on the communicator the launcher was configured with (shared with C17)
    from .c17 import continued_with_launcher_context
    continued_with_launcher_context(chk, 'PAIR-subscription')
    rpc_reply(chk)
    announcement(chk)
    subscriptions(chk)
    loop_communicator(chk)


def dispatch_tables(chk: Check, tab_rule: str = 'TAB-dispatch', sib_rule: str = 'SIB-dispatch') -> None:
    """Decision tables of the two message handlers over the intent: every control intent is handed, with the direct caller's arguments, to the ONE scheduling routine
    (_schedule_rpc), so requests that arrive as messages are carried out in the order they arrive and exactly as a direct call would be."""
    prog = chk.prog
    mr = prog.func('processes.Process.message_receive')
    mparam = mr.params[2]
    subj = None
    for n in ast.walk(mr.node):
        if isinstance(n, ast.Assign) and isinstance(n.value, ast.Subscript) and norm(n.value.value) == mparam and prog.fold(mr.module, n.value.slice) == 'intent':
            subj = norm(n.targets[0])
    chk.ob(tab_rule, mr, subj is not None, 'the RPC handler dispatches on the intent stored under INTENT_KEY of the message', kind='rpc-subject')
    from ..decisions import paths_under, value_on_path
    ic = prog.cls('process_comms.Intent')
    consts = {m: prog.fold(ic.module, v, ic) for m, v in ic.attrs.items()}

    def effective(path, idx, call):
        """(callee text, {keyword: text}) of a call with locals replaced by the values they hold on this path and ``**{...}`` spelled out."""
        c2 = value_on_path(path, idx, call)
        kws = {}
        for k in c2.keywords:
            if k.arg is None and isinstance(k.value, ast.Dict) and all(isinstance(x, ast.Constant) for x in k.value.keys):
                for kk, vv in zip(k.value.keys, k.value.values):
                    kws[kk.value] = norm(vv)
            else:
                kws[k.arg or '**'] = norm(k.value)
        return [norm(x) for x in c2.args], kws

    def table(f, subject):
        """intent member (or None for 'none of them') -> list of outcomes, one per path: ('call', args, kws) / ('return', text) / ('raise',)"""
        fff = chk.ctx.facts.analyse(f)
        out = {}
        for member in list(consts) + [None]:
            val = {f'{subject} == {consts[m]!r}': (m == member) for m in consts}
            res = []
            for path in paths_under(fff, val, frozen=[subject]):
                sched = [(i, c) for i, m_ in enumerate(path) for c in _calls(m_) if last_name(c) == '_schedule_rpc']
                if path[-1] is fff.cfg.raise_exit:
                    res.append(('raise',))
                elif sched:
                    i, c = sched[-1]
                    ret_ok = path[i].kind == 'return' and path[i].ast.value is c
                    if not ret_ok:
                        rets_ = [(j, m_) for j, m_ in enumerate(path) if m_.kind == 'return' and m_.ast.value is not None and j > i]
                        ret_ok = bool(rets_) and norm(value_on_path(path, rets_[-1][0], rets_[-1][1].ast.value)) == norm(value_on_path(path, i, c))
                    args_, kws_ = effective(path, i, c)
                    res.append(('call', tuple(args_), tuple(sorted(kws_.items())), ret_ok, c))
                else:
                    rets = [(j, m_) for j, m_ in enumerate(path) if m_.kind == 'return']
                    status = [c for m_ in path for c in _calls(m_) if norm(c.func) == 'self.get_status_info']

                    def name_chain(nm, upto):
                        # follow plain ``a = b`` re-bindings back to the variable that was first bound to the object
                        for j in range(upto - 1, -1, -1):
                            a_ = path[j].ast
                            if path[j].kind == 'stmt' and isinstance(a_, (ast.Assign, ast.AnnAssign)) and a_.value is not None:
                                t_ = (a_.targets[0] if isinstance(a_, ast.Assign) else a_.target)
                                if isinstance(t_, ast.Name) and t_.id == nm:
                                    return name_chain(a_.value.id, j) if isinstance(a_.value, ast.Name) else nm
                        return nm
                    if status:
                        rj, rm = rets[-1] if rets else (len(path), None)
                        rname = name_chain(rm.ast.value.id, rj) if rm is not None and isinstance(rm.ast.value, ast.Name) else (norm(rm.ast.value) if rm is not None and rm.ast.value is not None else 'None')
                        aname = norm(status[0].args[0]) if status[0].args else None
                        res.append(('status', rname, aname))
                    else:
                        rv_ = value_on_path(path, rets[-1][0], rets[-1][1].ast.value) if rets and rets[-1][1].ast.value is not None else None
                        res.append(('return', norm(rv_) if rv_ is not None else 'None'))
            out[member] = res
        return out

    subj = subj or 'intent'
    mtab = table(mr, subj)
    br = prog.func('processes.Process.broadcast_receive')
    btab = table(br, br.params[4])  # subject

    def text_expr(msgvar):
        return f"{msgvar}.get('message', None)"

    def control_ok(f, outcomes, target, args, msgvar):
        if not outcomes or any(o[0] != 'call' for o in outcomes):
            return False, None
        ok = True
        for o in outcomes:
            _, a_, k_, ret_ok, c = o
            k_ = dict(k_)
            ok &= ret_ok and list(a_) == [target]
            if args:
                v = k_.get('msg_text', '')
                folded = v.replace('process_comms.MESSAGE_TEXT_KEY', "'message'").replace('MESSAGE_TEXT_KEY', "'message'")
                # (``d.get(k)`` is ``d.get(k, None)``)
                ok &= set(k_) == {'msg_text'} and folded in (text_expr(msgvar), f"{msgvar}.get('message')")
            else:
                ok &= not k_
        return bool(ok), outcomes[0][4]

    rpc_shape = {}
    for intent, (target, args) in CONTROL.items():
        ok, c = control_ok(mr, mtab.get(intent), target, args, mparam)
        rpc_shape[intent] = [(o[1], o[2]) for o in mtab.get(intent, []) if o[0] == 'call']
        chk.ob(tab_rule, mr, ok, f'RPC intent {intent} schedules {target}({", ".join(a + "=<message text>" for a in args)}) -- the same call a direct caller makes (decision table over the '
               f'intent: {len(mtab.get(intent, []))} path(s))', node=c, kind=f'rpc:{intent}', expr=None if c is not None else intent)
    st = mtab.get('STATUS', [])
    chk.ob(tab_rule, mr, bool(st) and all(o[0] == 'status' and o[1] == o[2] for o in st), 'RPC intent STATUS replies with get_status_info', kind='rpc:STATUS', expr='STATUS')
    none = mtab.get(None, [])
    chk.ob(tab_rule, mr, bool(none) and all(o[0] == 'raise' for o in none), 'an unknown intent raises (is not executed as something else)', kind='rpc-unknown-raises')
    for intent, (target, args) in CONTROL.items():
        ok, c = control_ok(br, btab.get(intent), target, args, br.params[2])
        chk.ob(tab_rule, br, ok, f'broadcast subject {intent} schedules {target} with the same arguments as the RPC variant', node=c, kind=f'broadcast:{intent}', expr=None if c is not None else intent)
        # sibling agreement: for each control intent the two handlers schedule the same call
        def shape(sh):   # (``d.get(k)`` is ``d.get(k, None)``)
            return {(a_, tuple((k, v.replace(', None)', ')')) for k, v in kv)) for a_, kv in sh}
        b_shape = [(o[1], tuple((k, v.replace(br.params[2], mparam)) for k, v in o[2])) for o in btab.get(intent, []) if o[0] == 'call']
        chk.ob(sib_rule, br, bool(b_shape) and shape(b_shape) == shape(rpc_shape.get(intent, [])), f'RPC and broadcast handlers agree for {intent}', kind=f'agree:{intent}', expr=intent)
    bn = btab.get(None, []) + btab.get('STATUS', [])
    chk.ob(tab_rule, br, bool(bn) and all(o[0] == 'return' and o[1] == 'None' for o in bn), 'any other broadcast subject is ignored (nothing is scheduled)', kind='broadcast-other-ignored')


def dispatch(chk: Check) -> None:
    prog = chk.prog
    dispatch_tables(chk)
    # MessageBuilder
    mb = prog.cls('process_comms.MessageBuilder')
    for name in ('play', 'pause', 'kill', 'status'):
        f = prog.view(mb.vmethods.get(name))
        chk.need(f is not None, f'MessageBuilder.{name} missing')
        from ..rules import Resolver
        rets = [r for r in ast.walk(f.node) if isinstance(r, ast.Return)]
        rv = Resolver(f).expand(rets[0].value) if len(rets) == 1 else None
        ok = isinstance(rv, ast.Dict)
        got = {}
        if ok:
            for k, v in zip(rv.keys, rv.values):
                got[prog.fold(f.module, k)] = v
            intent_v = prog.fold(f.module, got.get('intent')) if 'intent' in got else None
            want = prog.fold(prog.module('process_comms'), prog.cls('process_comms.Intent').attrs[name.upper()])
            ok = intent_v == want and 'message' in got and norm(got['message']) == f.params[1]
        chk.ob('TAB-message-builder', f, ok, f'MessageBuilder.{name} puts Intent.{name.upper()} under INTENT_KEY and the text under MESSAGE_TEXT_KEY', kind='message-shape')
    intents = {m: prog.fold(prog.module('process_comms'), v) for m, v in prog.cls('process_comms.Intent').attrs.items()}
    chk.ob('TAB-message-builder', 'process_comms.Intent', len(set(intents.values())) == len(intents) and set(INTENTS) <= set(intents), f'the intent constants are distinct ({intents})', kind='intents-distinct')
    # controllers
    for cq in ('process_comms.RemoteProcessController', 'process_comms.RemoteProcessThreadController'):
        c = prog.cls(cq)
        for meth, builder in (('pause_process', 'pause'), ('play_process', 'play'), ('kill_process', 'kill'), ('get_status', 'status')):
            f = prog.view(c.vmethods.get(meth))
            chk.need(f is not None, f'{cq}.{meth} missing')
            sends = [x for x in calls_in_func(f, 'rpc_send')]
            ok = len(sends) == 1 and norm(sends[0].args[0]) == f.params[1]
            if ok:
                m = sends[0].args[1]
                if isinstance(m, ast.Name):
                    vals = [n.value for n in ast.walk(f.node) if isinstance(n, ast.Assign) and norm(n.targets[0]) == m.id]
                    m = vals[0] if len(vals) == 1 else None
                ok = isinstance(m, ast.Call) and norm(m.func) == f'MessageBuilder.{builder}'
                if ok and builder in ('pause', 'kill'):
                    got = [norm(a) for a in m.args] + [norm(k.value) for k in m.keywords if k.arg == 'text']
                    ok = got == [f.params[2]]
            chk.ob('TAB-controllers', f, ok, f'{c.name}.{meth} sends MessageBuilder.{builder}(text) by rpc_send(pid, ...)', kind='rpc-send')
    tc = prog.cls('process_comms.RemoteProcessThreadController')
    for meth, intent, builder in (('pause_all', 'PAUSE', 'pause'), ('play_all', 'PLAY', None), ('kill_all', 'KILL', 'kill')):
        f = prog.view(tc.vmethods.get(meth))
        sends = [x for x in calls_in_func(f, 'broadcast_send')]
        ok = len(sends) == 1 and any(k.arg == 'subject' and norm(k.value) == f'Intent.{intent}' for k in sends[0].keywords)
        chk.ob('TAB-controllers', f, ok, f'{meth} broadcasts with subject Intent.{intent}', kind='broadcast-subject')


def rpc_reply(chk: Check) -> None:
    """The reply to a control message is what the SAME call returns to a direct caller: on every path of the scheduled
    callback the control method is called (exactly once, unconditionally) before the reply future is resolved, and the
    value it is resolved with is that call's result (after awaiting nested futures)."""
    from ..decisions import paths_under, value_on_path
    prog = chk.prog
    rc = prog.func('processes.Process._schedule_rpc.run_callback')
    outer = prog.func('processes.Process._schedule_rpc')
    ff = chk.ctx.facts.analyse(rc)
    cfg = ff.cfg
    cbname = outer.params[1]
    cb_calls = [c for c in calls_in_func(rc) if isinstance(c.func, ast.Name) and c.func.id == cbname]
    cb_nodes = [m for c in cb_calls for m in cfg.nodes_containing(c)]
    sr = [n for n in cfg.nodes if any(last_name(c) == 'set_result' and norm(c.func.value) == 'kiwi_future' for c in _calls(n))]
    chk.ob('FWD-rpc-reply', rc, len(cb_calls) == 1 and bool(sr), 'the scheduled callback calls the control method at one site and replies through the kiwi future', kind='sites')
    if len(cb_calls) != 1 or not sr:
        return
    ok = all(cfg.must_pass(cfg.entry, [n], lambda m: m in cb_nodes, edge_ok=no_exc) for n in sr)
    chk.ob('FWD-rpc-reply', rc, ok, 'no reply is sent without the control method having been called (whatever the state of the process: a direct caller\'s call is not skipped either)',
           kind='called-before-every-reply')
    # the value replied
    asg = [n for n in cfg.nodes if n.kind == 'stmt' and isinstance(n.ast, ast.Assign) and n.ast.value is cb_calls[0]]
    var = norm(asg[0].ast.targets[0]) if asg else None
    good = var is not None
    for n in sr:
        call = [c for c in _calls(n) if last_name(c) == 'set_result'][0]
        good &= len(call.args) == 1 and norm(call.args[0]) == var
    # between the call and the reply the variable is only ever re-bound to its own awaited value
    rebinds = [n for n in cfg.nodes if n.kind == 'stmt' and isinstance(n.ast, ast.Assign) and var is not None and norm(n.ast.targets[0]) == var and n not in asg]
    good &= all(isinstance(n.ast.value, ast.Await) and norm(n.ast.value.value) == var for n in rebinds)
    chk.ob('FWD-rpc-reply', rc, good, 'the reply is the value the control method returned (nested futures awaited), nothing else', kind='reply-is-call-result')
    from .common import cancellation_delivered
    cancellation_delivered(chk, 'FWD-rpc-reply', 'processes.Process._schedule_rpc.run_callback', 'kiwi_future', 'the reply to a remote control request')
    # every message is actioned: each call of _schedule_rpc schedules its own callback and answers through its own new future
    off = chk.ctx.facts.analyse(outer)
    ocfg = off.cfg
    sched = [n for n in ocfg.nodes if any(any(isinstance(a, ast.Call) and isinstance(a.func, ast.Name) and a.func.id == rc.name for a in c.args) for c in _calls(n))]
    ok = len(sched) == 1 and ocfg.must_pass(ocfg.entry, [ocfg.exit], lambda m: m in sched, edge_ok=no_exc)
    chk.ob('FWD-rpc-reply', outer, ok, 'every way through _schedule_rpc schedules the callback (a request answered with the future of an earlier identical one is a message that is '
           'never actioned: X, Y, X is not X, Y)', kind='every-message-scheduled')
    rets = [n for n in ocfg.nodes if n.kind == 'return' and n.ast.value is not None]
    fresh = [n for n in ocfg.nodes if n.kind == 'stmt' and isinstance(n.ast, ast.Assign) and isinstance(n.ast.value, ast.Call) and norm(n.ast.value.func) in ('kiwipy.Future', 'Future')
             and isinstance(n.ast.targets[0], ast.Name)]
    ok = len(fresh) == 1 and bool(rets) and all(norm(r.ast.value) == fresh[0].ast.targets[0].id and ocfg.must_pass(ocfg.entry, [r], lambda m: m in fresh, edge_ok=no_exc) for r in rets)
    chk.ob('FWD-rpc-reply', outer, ok, 'the future handed back is the one created for THIS request', kind='own-reply-future')


def announcement(chk: Check) -> None:
    prog = chk.prog
    oe = prog.func('processes.Process.on_entered')
    cfg = cfg_of(oe)
    ff = chk.ctx.facts.analyse(oe)
    sends = [n for n in cfg.nodes if any(norm(c.func) == 'self._communicator.broadcast_send' for c in _calls(n))]
    chk.ob('DOM-announcement', oe, len(sends) == 1, 'one broadcast site', kind='single-site')
    if not sends:
        return
    s = sends[0]
    from ..decisions import paths_under, valuations
    E = 'isinstance(self._state.LABEL, enum.Enum)'
    dev = []
    n_paths = 0
    for c_on in (False, True):
        for e_on in (False, True):
            val = {'self._communicator': c_on, 'self._communicator is None': not c_on, E: e_on, 'isinstance(self.state, enum.Enum)': e_on}
            for path in paths_under(ff, val):
                if path[-1] is not cfg.exit:
                    continue
                n_paths += 1
                sent = sum(1 for m in path if m is s)
                if sent != (1 if (c_on and e_on) else 0):
                    dev.append((c_on, e_on, sent))
    loops = [l for l in ast.walk(oe.node) if isinstance(l, (ast.For, ast.While)) and any(x is s.ast for x in ast.walk(l))]
    chk.ob('DOM-announcement', oe, not dev and not loops and n_paths >= 4, 'decision table over (a communicator is set, the state label is an enum): each completed transition is announced '
           'exactly once when both hold -- whatever else is true of the process -- and never otherwise' + (f'; deviations {dev[:3]}' if dev else ''), kind='exactly-once')
    call = [c for c in _calls(s) if last_name(c) == 'broadcast_send'][0]
    kws = {k.arg: k.value for k in call.keywords}
    chk.ob('DOM-announcement', oe, 'sender' in kws and norm(kws['sender']) in ('self.pid', 'self._pid'), 'the sender is the process id', node=call, kind='sender-pid')
    # ... and the id is KNOWN when the first announcement (None -> CREATED) goes out: a process that chooses its own pid does so on the way INTO its first state -- in the
    # constructor, in what the entering hook runs (on_create), or when it is rebuilt -- not in init(), which the metaclass runs after the initial state was entered
    from ..rules import effective_funcs as _ef
    before = {}
    stack = [g for g in (prog.try_func('processes.Process.on_entering'), prog.try_func('processes.Process.__init__')) if g is not None]
    while stack:
        g = stack.pop()
        if id(g.node) in before:
            continue
        before[id(g.node)] = g
        stack += [h for h in chk.ctx.calls.summary(g).callees if not h.is_async]
    early = {g.qualname for g in before.values()} | {'processes.Process.load_instance_state'}   # (a rebuilt process has the id it was saved with)
    n_pid = 0
    for g in _ef(prog):
        if isinstance(g.node, ast.Lambda) or g.owner_class is None or not g.owner_class.is_subclass_of(prog.cls('processes.Process')) and g.owner_class is not prog.cls('processes.Process'):
            continue
        for st in (x for b in g.node.body for x in walk_shallow(b) if isinstance(x, (ast.Assign, ast.AnnAssign))):
            tg = st.targets if isinstance(st, ast.Assign) else [st.target]
            if any(norm(t) == 'self._pid' for t in tg) and st.value is not None:
                n_pid += 1
                okp = (getattr(g, 'origin', None) or g).qualname in early or g.qualname in early
                chk.ob('DOM-announcement', g, okp, f'{g.short} gives the process its id' + (' before the first state is entered' if okp else
                       ': that runs AFTER the initial state was entered and announced -- the creation broadcast of a process that chooses its own pid is sent by None'),
                       node=st, kind='pid-known-at-first-announcement', expr=f'{g.short}: _pid store')
    chk.floor('DOM-announcement:pid-stores', n_pid, 2)
    subj = kws.get('subject')
    sv = subj
    if isinstance(subj, ast.Name):
        vals = [n.value for n in ast.walk(oe.node) if isinstance(n, ast.Assign) and norm(n.targets[0]) == subj.id]
        sv = vals[0] if len(vals) == 1 else None
    ok = False
    from ..rules import string_template
    txt = string_template(sv) if sv is not None else None
    if txt is not None:
        ok = txt == 'state_changed.{from_label}.{self.state.value}'
        fl = [n.value for n in ast.walk(oe.node) if isinstance(n, ast.Assign) and norm(n.targets[0]) == 'from_label']
        fparam = oe.params[1]
        # (one conditional expression, or one assignment per branch: the label of the state left where there is one, a constant otherwise)
        flv = [x for v_ in fl for x in ([v_.body, v_.orelse] if isinstance(v_, ast.IfExp) else [v_])]
        ok = ok and bool(flv) and any(f'{fparam}.LABEL' in norm(v_) and '.value' in norm(v_) for v_ in flv) and all(
            (f'{fparam}.LABEL' in norm(v_) and '.value' in norm(v_)) or isinstance(v_, ast.Constant) for v_ in flv)
    chk.ob('DOM-announcement', oe, ok, 'the subject is state_changed.<label left>.<label entered>, in that order, built from the previous state\'s label value and the current one',
           node=call, kind='subject-from-to')
    tolerated_broadcast_failures(chk, 'ESC-tolerated-broadcast-failures')
    # the hook runs for every transition: ENTERED_STATE wiring is C02's; here: on_entered is reached with the state left
    chk.ob('DOM-announcement', oe, oe.params[1:] == ['from_state'] or len(oe.params) == 2, 'on_entered receives the state that was left', kind='from-state-parameter')
    # the hooks dispatched before it cannot skip it: it is not inside the label ladder
    from ..report import structural_path
    chk.ob('DOM-announcement', oe, 'state_label' not in structural_path(oe, s.ast), 'the announcement is outside the per-state ladder (made for every state)', kind='for-every-state')


def tolerated_broadcast_failures(chk: Check, rule: str) -> None:
    """The state-change broadcast in on_entered may fail for reasons that are nobody's fault (connection closed, channel invalid, timeout): those are caught
    and not re-raised -- an exception escaping on_entered AFTER the state was entered makes the machine treat the completed transition as failed (C02: a second
    terminal notification, an EXCEPTED process whose future already delivered a result)."""
    prog = chk.prog
    oe = prog.func('processes.Process.on_entered')
    sends = [c for c in calls_in_func(oe, 'broadcast_send')]
    call = sends[0] if sends else None
    tries = [t for t in ast.walk(oe.node) if isinstance(t, ast.Try) and call is not None and any(x is call for s2 in t.body for x in ast.walk(s2))]
    caught = set()
    reraises = False
    for t in tries:
        for h in t.handlers:
            names = [h.type] if not isinstance(h.type, ast.Tuple) else h.type.elts
            for nme in names:
                caught.add(norm(nme).split('.')[-1] if norm(nme) != 'kiwipy.TimeoutError' else 'kiwipy.TimeoutError')
            reraises |= any(isinstance(x, ast.Raise) for s2 in h.body for x in ast.walk(s2))
    ok = {'ConnectionClosed', 'ChannelInvalidStateError', 'kiwipy.TimeoutError'} <= caught and not reraises
    chk.ob(rule, oe, ok, f'a closed connection, an invalid channel and a timeout of the broadcast are caught and not re-raised (caught: {sorted(caught)})', kind='tolerated')


def subscriptions(chk: Check) -> None:
    prog = chk.prog
    # "a terminated process no longer receives messages": both un-subscriptions are cleanups, each must run even if the other fails (shared with C02)
    from .c02 import close_once
    close_once(chk)
    init = prog.func('processes.Process.init')
    cfg = cfg_of(init)
    for add, rem, handler in (('add_rpc_subscriber', 'remove_rpc_subscriber', 'self.message_receive'), ('add_broadcast_subscriber', 'remove_broadcast_subscriber', 'self.broadcast_receive')):
        adds = [n for n in cfg.nodes if any(last_name(c) == add for c in _calls(n))]
        ok = len(adds) == 1 and isinstance(adds[0].ast, ast.Assign)
        chk.ob('PAIR-subscription', init, ok, f'{add}: one subscription whose identifier is kept', kind=f'{add}:kept')
        if not ok:
            continue
        idvar = norm(adds[0].ast.targets[0])
        call = [c for c in _calls(adds[0]) if last_name(c) == add][0]
        ident = {k.arg: norm(k.value) for k in call.keywords}.get('identifier')
        chk.ob('PAIR-subscription', init, ident in ('str(self.pid)', 'str(self._pid)'), f'{add}: subscribed under the process id', node=call, kind=f'{add}:identifier')
        sub = call.args[0] if call.args else None
        src = sub
        if isinstance(sub, ast.Name):
            vals = [n.value for n in ast.walk(init.node) if isinstance(n, ast.Assign) and norm(n.targets[0]) == sub.id]
            src = vals[0] if len(vals) == 1 else None
        ok = src is not None and handler in norm(src)
        chk.ob('PAIR-subscription', init, ok, f'{add}: the subscriber is {handler}', node=call, kind=f'{add}:handler')
        # cleanup registered right after, with that identifier
        nxt = [t for t, l in adds[0].succ if l is None]
        ok = len(nxt) == 1 and any(last_name(c) == 'add_cleanup' and isinstance(c.args[0], ast.Call) and norm(c.args[0].func) == 'functools.partial'
                                   and [norm(a) for a in c.args[0].args] == [f'self._communicator.{rem}', idvar] for c in _calls(nxt[0]))
        chk.ob('PAIR-subscription', init, ok, f'{add}: the matching {rem}(identifier) is registered as cleanup immediately after a successful subscribe (a terminated process no '
               'longer receives messages)', kind=f'{add}:cleanup')
    # a tolerated failure of ONE subscription (the RPC registration timing out) does not cost the other: the two are not under one try whose handler tolerates the
    # failure -- otherwise a process that could not register for RPCs also never hears pause_all / kill_all, while the direct call still works
    subs = {add: [c for c in ast.walk(init.node) if isinstance(c, ast.Call) and last_name(c) == add] for add in ('add_rpc_subscriber', 'add_broadcast_subscriber')}
    shared = [t for t in ast.walk(init.node) if isinstance(t, ast.Try) and t.handlers
              and all(any(any(x is c for b in t.body for x in ast.walk(b)) for c in subs[a_]) for a_ in subs if subs[a_])
              and not all(any(isinstance(x, ast.Raise) for b in h.body for x in ast.walk(b)) for h in t.handlers)]
    chk.ob('PAIR-subscription', init, all(subs.values()) and not shared, 'the RPC and the broadcast subscription are attempted independently (a tolerated failure of one does not skip the other)',
           node=shared[0] if shared else None, kind='subscriptions-independent')
    # "a terminated process no longer receives messages" -- also one that is LOADED in a terminal state: init() runs after the load and subscribes; the
    # un-subscription is a cleanup, and cleanups run on the transition INTO a terminal state, which a process loaded terminated never makes
    from ..facts import not_terminated
    rf = prog.func('processes.Process.recreate_from')
    rcalls = [c for c in calls_in_func(rf, 'call_with_super_check') if c.args and last_name(ast.Call(func=c.args[0], args=[], keywords=[])) == 'init']
    ff_init = chk.ctx.facts.analyse(init)
    subs_sites = [c for c in calls_in_func(init) if last_name(c) in ('add_rpc_subscriber', 'add_broadcast_subscriber')]
    guarded_in_init = bool(subs_sites) and all(all(not_terminated(fs) or any(a_[0] == 'F' and 'done()' in a_[1] for a_ in fs) for _, fs in ff_init.site_facts(c)) for c in subs_sites)
    ffr = chk.ctx.facts.analyse(rf)
    closes = [c for c in calls_in_func(rf) if last_name(c) == 'close']
    ok = bool(rcalls) and (guarded_in_init or bool(closes))
    chk.ob('PAIR-subscription', rf, ok, 'a process loaded from a saved state subscribes to the communicator only while it is live (or is closed again straight away)' + ('' if ok else
           ': recreate_from runs init() whatever the loaded state is, init() subscribes unconditionally, and nothing ever runs the cleanups of a process that was loaded FINISHED / EXCEPTED / '
           'KILLED -- it keeps receiving kill / status / pause messages'), node=rcalls[0] if rcalls else None, kind='loaded-terminated-not-subscribed')
    # the un-subscriptions are per process: the list they are kept in is not shared between instances
    from .common import no_shared_mutable_class_state
    no_shared_mutable_class_state(chk, 'PAIR-subscription')
    # the broadcast filter lets the three control subjects through
    flt = [c for c in calls_in_func(init, 'BroadcastFilter')]
    ok = False
    detail = ''
    if len(flt) == 1:
        subj = {k.arg: k.value for k in flt[0].keywords}.get('subject')
        if isinstance(subj, ast.Attribute) and norm(subj.value) in ('self', 'cls', init.owner_class.name if init.owner_class else ''):
            la = init.owner_class.lookup_attr(subj.attr) if init.owner_class is not None else None   # the pattern kept as a class constant
            subj = la[1] if la is not None else subj
        elif isinstance(subj, ast.Name):
            r_ = prog.resolve(init.module, subj)
            subj = r_[3] if isinstance(r_, tuple) and r_[0] == 'const' and len(r_) > 3 else subj
        if isinstance(subj, ast.Call) and norm(subj.func) == 're.compile' and subj.args and isinstance(subj.args[0], ast.Constant):
            pat = re.compile(subj.args[0].value)
            intents = {m: prog.fold(prog.module('process_comms'), v) for m, v in prog.cls('process_comms.Intent').attrs.items()}
            ok = all(pat.match(intents[i]) for i in ('PLAY', 'PAUSE', 'KILL'))
            detail = f'pattern {subj.args[0].value!r}; also rejects state_changed.*: {not pat.match("state_changed.created.running")}'
    chk.ob('PAIR-subscription', init, ok, f'the broadcast filter accepts the play / pause / kill subjects ({detail})', kind='filter-accepts-intents')
    # ... from whoever sends them: the filter restricts the SUBJECT only.  (kiwipy's BroadcastFilter compares a ``sender`` argument with the sender of the message;
    # any such restriction -- a predicate is simply compared for equality -- drops control broadcasts whose sender identifies itself)
    if len(flt) == 1:
        extra = [k.arg or '**' for k in flt[0].keywords if k.arg != 'subject'] + (['<positional>'] if len(flt[0].args) > 1 else [])
        chk.ob('PAIR-subscription', init, not extra, 'the broadcast filter restricts the subject and nothing else' + ('' if not extra else f': it also filters on {extra} -- a control '
               'broadcast from a sender that names itself is no longer delivered, while the direct call still works'), node=flt[0], kind='filter-subject-only')
    ff = chk.ctx.facts.analyse(init)
    subs = [n for n in cfg.nodes if any(last_name(c) in ('add_rpc_subscriber', 'add_broadcast_subscriber') for c in _calls(n))]
    from ..report import structural_path
    gates = [t for t in cfg.nodes if t.kind == 'test' and ('notnone', 'self._communicator') in ff.cond_atoms(t.ast.test, True)]
    ok = bool(subs) and len(gates) == 1 and all(cfg.must_pass(cfg.entry, [n], lambda m: m in gates, edge_ok=no_exc) for n in subs) and all(
        structural_path(init, n.ast).split('>')[0] == 'if ' + norm(gates[0].ast.test) for n in subs)
    chk.ob('PAIR-subscription', init, ok, 'subscriptions are made whenever a communicator is given (no further condition)', kind='iff-communicator')


def converted_subscriber(chk: Check, rule: str) -> None:
    """A subscriber converted for the communicator thread is called with the communicator and all message arguments, scheduled on the loop through create_task, and its
    outcome -- nested loop futures included -- mirrored to the communicator thread through plum_to_kiwi_future."""
    prog = chk.prog
    cv = prog.func('communications.convert_to_comm.converted')
    part = [c for c in calls_in_func(cv) if norm(c.func) == 'functools.partial']
    ok = len(part) == 1 and [norm(a) for a in part[0].args] == ['coro', cv.params[0], f'*{cv.node.args.vararg.arg}'] and [(k.arg, norm(k.value)) for k in part[0].keywords] == [(None, cv.node.args.kwarg.arg)]
    chk.ob(rule, cv, ok, 'a converted subscriber is called with the communicator and all message arguments', kind='converted-forwards')
    ct = [c for c in calls_in_func(cv) if last_name(c) == 'create_task']
    pk = [c for c in calls_in_func(cv) if last_name(c) == 'plum_to_kiwi_future']
    res = Resolver(cv)
    ok = len(ct) == 1 and len(pk) == 1 and len(part) == 1 and len(pk[0].args) == 1 and len(ct[0].args) == 2
    if ok:
        # the value mirrored is the task, the task runs the partial, on the loop given to convert_to_comm (locals expanded)
        ok = (norm(res.expand(pk[0].args[0])) == norm(res.expand(ct[0])) and norm(res.expand(ct[0].args[0])) == norm(res.expand(part[0]))
              and norm(res.expand(ct[0].args[1])) == 'loop')
    chk.ob(rule, cv, ok, 'it is scheduled on the loop and its outcome mirrored to the communicator thread (C20)', kind='scheduled-and-mirrored')


def loop_communicator(chk: Check) -> None:
    prog = chk.prog
    lc = prog.cls('communications.LoopCommunicator')
    n = 0
    for name, f in lc.emethods.items():
        if name in ('__init__', 'loop') or name.startswith('_'):
            continue
        f = prog.view(f)
        n += 1
        inner = [c for c in calls_in_func(f) if norm(c.func) == f'self._communicator.{name}']
        ok = len(inner) == 1
        if ok:
            passed = [norm(a) for a in inner[0].args] + [norm(k.value) for k in inner[0].keywords]
            for p in f.params[1:]:
                if name.startswith('add_') and p == f.params[1]:
                    # the subscriber is passed after conversion to a loop-scheduling callback
                    from ..rules import Resolver as _Rs
                    exp = [_Rs(f).expand(a) for a in list(inner[0].args) + [k.value for k in inner[0].keywords]]
                    conv = [x for x in exp if isinstance(x, ast.Call) and last_name(x) == 'convert_to_comm']
                    ok &= len(conv) == 1 and len(conv[0].args) == 2 and norm(conv[0].args[0]) == p and norm(conv[0].args[1]) == 'self._loop' and len(calls_in_func(f, 'convert_to_comm')) == 1
                else:
                    ok &= p in passed
            rets = [r for r in ast.walk(f.node) if isinstance(r, ast.Return)]
            ok &= name == 'close' or (len(rets) == 1 and rets[0].value is inner[0])
        chk.ob('FWD-loop-communicator', f, ok, f'LoopCommunicator.{name} forwards every parameter to the wrapped communicator and returns its answer', kind='forwards-all')
    chk.floor('FWD-loop-communicator', n, 10)
    converted_subscriber(chk, 'FWD-loop-communicator')
    chk.assumptions.append('equivalence with the directly controlled twin inherits every C04-C06 finding (the remote path calls the same methods) and is not decided here')
