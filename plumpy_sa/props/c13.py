"""C13 -- a step's return value alone decides what happens next, with exact arguments."""
from __future__ import annotations

import ast
from typing import Dict, List, Optional, Tuple

from ..cfg import cfg_of
from ..model import AnalysisError, ClassInfo, EnumMember, FuncInfo, UNKNOWN, is_self_attr, norm, unparse, walk_shallow
from ..report import Check
from ..cfg import no_exc
from ..rules import Resolver, branch_reaches_exit, calls_in_func, dispatch_sites, enclosing_handlers, last_name
from . import common
from .common import waiting_future_key
from .sym import auto_persist_set, saved_loaded_keys

# (state-constructor parameter  <-  command field) pairs that mean the same thing under different names
SYNONYMS = {('run_fn', 'continue_fn'), ('done_callback', 'continue_fn'), ('run_fn', 'run_fn'), ('run_fn', 'done_callback')}
EXPECT = {'Kill': 'KILLED', 'Stop': 'FINISHED', 'Wait': 'WAITING', 'Continue': 'RUNNING'}


def captured_fields(init: FuncInfo) -> List[Tuple[str, str, str]]:
    """(attribute, parameter, kind) for every ``self.attr = <param>`` in a constructor; kind in plain/var/kw."""
    a = init.node.args
    kinds = {x.arg: 'plain' for x in a.posonlyargs + a.args + a.kwonlyargs}
    if a.vararg:
        kinds[a.vararg.arg] = 'var'
    if a.kwarg:
        kinds[a.kwarg.arg] = 'kw'
    out = []
    for n in walk_shallow(ast.Module(body=init.node.body, type_ignores=[])):
        if isinstance(n, (ast.Assign, ast.AnnAssign)):
            tg = n.targets if isinstance(n, ast.Assign) else [n.target]
            v = n.value
            # look through wrappers such as ensure_coroutine(run_fn)
            src = None
            for x in ast.walk(v) if v is not None else []:
                if isinstance(x, ast.Name) and x.id in kinds and x.id != 'self':
                    src = x.id
                    break
            for t in tg:
                if is_self_attr(t) and src is not None:
                    out.append((t.attr, src, kinds[src]))
    return out


def bind_state_args(prog, state_cls: ClassInfo, args: List[ast.expr], keywords: List[ast.keyword]):
    """Bind the arguments following the label in create_state(label, *args, **kw) to the state constructor's
    parameters (after the process). Returns list of (param or '*'/'**', expr, star-kind)."""
    init = state_cls.lookup('__init__')
    if init is None:
        raise AnalysisError(f'{state_cls.qualname} has no __init__')
    a = init.node.args
    params = [x.arg for x in a.posonlyargs + a.args][2:]  # drop self, process
    out = []
    i = 0
    for e in args:
        if isinstance(e, ast.Starred):
            out.append((a.vararg.arg if a.vararg else '*', e.value, 'var'))
            continue
        if i < len(params):
            out.append((params[i], e, 'plain'))
        elif a.vararg:
            out.append((a.vararg.arg, e, 'var-item'))
        else:
            out.append(('<excess>', e, 'plain'))
        i += 1
    for k in keywords:
        if k.arg is None:
            out.append((a.kwarg.arg if a.kwarg else '**', k.value, 'kw'))
        else:
            out.append((k.arg, k.value, 'plain'))
    return out


def canonical_param(st: ClassInfo, p: str) -> str:
    """Name of the base-class constructor parameter that ``p`` is handed to by ``super().__init__(...)``."""
    init = st.vmethods.get('__init__')
    if init is None:
        return p
    for n in ast.walk(init.node):
        if isinstance(n, ast.Call) and isinstance(n.func, ast.Attribute) and n.func.attr == '__init__' \
                and isinstance(n.func.value, ast.Call) and unparse(n.func.value.func) == 'super':
            base_init = None
            for k in st.mro_classes()[1:]:
                if '__init__' in k.methods:
                    base_init = k.vmethods['__init__']
                    base_cls = k
                    break
            if base_init is None:
                return p
            bparams = [x.arg for x in base_init.node.args.posonlyargs + base_init.node.args.args][1:]
            for i, a in enumerate(n.args):
                if isinstance(a, ast.Name) and a.id == p and i < len(bparams):
                    return canonical_param(base_cls, bparams[i])
            for kw in n.keywords:
                if isinstance(kw.value, ast.Name) and kw.value.id == p and kw.arg:
                    return canonical_param(base_cls, kw.arg)
    return p


def ladder(func: FuncInfo, subject: str):
    """isinstance ladder over ``subject``: [(class expr, body stmts)], else-body."""
    branches = []
    else_body: Optional[List[ast.stmt]] = None
    for s in func.node.body:
        if isinstance(s, ast.If):
            cur = s
            while True:
                t = cur.test
                if isinstance(t, ast.Call) and unparse(t.func) == 'isinstance' and norm(t.args[0]) == subject:
                    branches.append((t.args[1], cur.body, cur))
                else:
                    return branches, None
                if len(cur.orelse) == 1 and isinstance(cur.orelse[0], ast.If):
                    cur = cur.orelse[0]
                    continue
                else_body = cur.orelse
                break
            if branches:
                break
    return branches, else_body


def run(chk: Check) -> None:
    prog = chk.prog
    calls = chk.ctx.calls
    # "the same holds when the process was checkpointed and restored": the pending call's arguments are copied into the checkpoint (shared with C07)
    from .c07 import members_deepcopied
    members_deepcopied(chk)
    # "after resume(v), f(v) runs (f() if resumed without a value)": the process-level resume passes on exactly the arguments it got (shared with C06)
    from .c06 import resume_forwards_its_arguments
    resume_forwards_its_arguments(chk, 'FWD-state-payload')
    running = prog.cls('process_states.Running')
    ac = prog.func('process_states.Running._action_command')
    subject = ac.params[1] if len(ac.params) > 1 else 'command'
    ffa = chk.ctx.facts.analyse(ac)
    sites = dispatch_sites(ffa, lambda c: calls.state_ctor_label(ac, c) is not None)
    # the dispatcher folded into Running.execute (its only caller): the same ladder, over a local of execute; the EXCEPTED state execute builds for a step that
    # raised is not part of the dispatch (it is looked at below, as an exit of execute)
    folded = 'process_states.Running._action_command' in prog.folded
    exc_site_nodes: List = []
    if folded:
        exc_site_nodes = [m for n_, c_, _ in sites if repr(calls.state_ctor_label(ac, c_)) == 'ProcessState.EXCEPTED' and enclosing_handlers(ac, c_) for m in ffa.cfg.nodes_containing(c_)]
        sites = [(n_, c_, p_) for n_, c_, p_ in sites if not (repr(calls.state_ctor_label(ac, c_)) == 'ProcessState.EXCEPTED' and enclosing_handlers(ac, c_))]
        subj = {k.split(':', 1)[1] for _, _, p_ in sites for k in p_ if k.startswith('isinstance:')}
        if len(subj) == 1:
            subject = next(iter(subj))
    if not sites:
        chk.ob('DISP-command', ac, False, 'no state is built from the command in Running._action_command', kind='no-dispatch')
    cmd_base = prog.cls('process_states.Command')
    universe = [c for c in prog.subclasses(cmd_base) if '__init__' in c.methods]
    covered: Dict[str, Tuple] = {}
    running_allowed = common.allowed_of(prog, running)
    by_label = common.labelled_states(prog)
    for node, call, pins in sites:
        classes = pins.get(f'isinstance:{subject}', set())
        lbl = calls.state_ctor_label(ac, call)
        ok_one = len(classes) == 1 and isinstance(lbl, EnumMember)
        chk.ob('DISP-command', ac, ok_one, f'this state is built for exactly one command class ({sorted(classes)}) with a constant label ({lbl!r})', node=call,
               kind='branch-builds-state')
        if not ok_one:
            continue
        c = prog.cls(next(iter(classes)))
        covered[c.name] = (lbl.member, call)
        want = EXPECT.get(c.name)
        if want is not None:
            chk.ob('DISP-command', ac, lbl.member == want, f'{c.name} -> {lbl.member} (property: {want})', node=call, kind='command-to-label')
        chk.ob('DISP-command', ac, lbl.member in running_allowed, f'{lbl.member} is in Running.ALLOWED', node=call, kind='label-allowed-from-running')
        # FWD: every captured field of the command reaches the state constructor with the right star-kind
        fields = captured_fields(c.vmethods['__init__'])
        state_classes = by_label.get(lbl.member, [])
        chk.need(bool(state_classes), f'no state class labelled {lbl.member}')
        for st in state_classes:
            bound = bind_state_args(prog, st, call.args[1:], call.keywords)
            for attr, param, kind in fields:
                hits = [(p, e, k) for (p, e, k) in bound if norm(e) == f'{subject}.{attr}']
                if not hits:
                    chk.ob('FWD-command-payload', ac, False,
                           f'{c.name}.{attr} is captured by the constructor but never forwarded to the {lbl.member} state '
                           f'({st.name}): the next step would not receive it', node=call, kind=f'field-dropped:{c.name}.{attr}')
                    continue
                p, e, k = hits[0]
                p = canonical_param(st, p)
                kind_ok = (kind == 'plain' and k in ('plain',)) or (kind == 'var' and k == 'var') or (kind == 'kw' and k == 'kw')
                name_ok = p == attr or (p, attr) in SYNONYMS or (kind in ('var', 'kw') and p in (attr, '*', '**'))
                chk.ob('FWD-command-payload', ac, kind_ok and name_ok,
                       f'{c.name}.{attr} ({kind}) -> parameter {p!r} of {st.name} as {k}', node=call,
                       kind=f'field-forwarded:{c.name}.{attr}')
            for p, e, k in bound:
                if p == '<excess>':
                    chk.ob('FWD-command-payload', ac, False, f'excess positional argument {norm(e)} for {st.name}', node=call,
                           kind='excess-argument')
    for c in universe:
        chk.ob('DISP-command', ac, c.name in covered, f'command class {c.name} has a branch in _action_command', kind=f'covered:{c.name}',
               expr=c.name)
    # an unrecognised command cannot complete normally: every normal exit passes one of the state-building sites
    site_nodes = [n for n, _, _ in sites]
    all_site_nodes = [m for _, c, _ in sites for m in ffa.cfg.nodes_containing(c)]
    raises = bool(site_nodes) and ffa.cfg.must_pass(ffa.cfg.entry, [ffa.cfg.exit], lambda m: m in all_site_nodes or m in exc_site_nodes, edge_ok=no_exc)
    chk.ob('DISP-command', ac, raises, 'an unrecognised command raises (no normal return without having built a state)', kind='fallthrough-raises')
    rets = [s for s in ast.walk(ac.node) if isinstance(s, ast.Return)]
    chk.ob('DISP-command', ac, len(rets) >= 1 and all(r.value is not None for r in rets), 'returns the state built', kind='returns-state')

    # a command object that can end up in a checkpoint must be complete: either nothing ever stores a command in the RUNNING
    # state (the saved-command path is dead), or every Command class persists every field its constructor captures
    from ..rules import attr_writers
    from .sym import saved_bindings
    incomplete = []
    for c in universe:
        auto = auto_persist_set(prog, c)
        sb = {}
        for k_ in c.mro_classes():
            if 'save_instance_state' in k_.methods:
                for key, attrs in saved_bindings(chk.ctx, prog.view(k_.vmethods['save_instance_state'])).items():
                    sb.setdefault(key, set()).update(attrs)
        saved_attrs = set().union(*sb.values()) if sb else set()
        for attr, _, _ in captured_fields(c.vmethods['__init__']):
            if attr not in auto and attr not in saved_attrs:
                incomplete.append(f'{c.name}.{attr}')
    chk.units['command_fields_not_persisted'] = incomplete
    stored = [(f, n) for f, n in attr_writers(prog, '_command') if f.owner_class is not None and f.owner_class.is_subclass_of(running) and f.name != 'load_instance_state']
    for f, n in stored:
        chk.ob('SYM-command-complete', f, not incomplete, 'a command is kept in the RUNNING state, so it is written into checkpoints -- but these constructor fields are not persisted: '
               f'{incomplete}; a restore applies the half-restored command instead of re-running the step', node=n, kind='stored-command-is-complete')
    chk.ob('SYM-command-complete', running.qualname, bool(stored) or True, f'commands stored in the RUNNING state outside load: {len(stored)}; command fields not persisted: {incomplete} '
           '(harmless while nothing stores a command)', kind='command-storage-scan', expr='_command')

    # "every choice of keyword arguments": the user's **kwargs travel through create_state(label, *args, **kwargs) and the state constructor; a named
    # (not positional-only) parameter on that way is a keyword the user cannot use -- Continue(f, process=...) is "got multiple values for argument"
    reserved = {}
    for node, call, pins in sites:
        if not any(k.arg is None for k in call.keywords):
            continue
        lbl = calls.state_ctor_label(ac, call)
        chain = [prog.func('base.state_machine.State.create_state'), prog.func('base.state_machine.StateMachine.create_state')]
        for st in by_label.get(getattr(lbl, 'member', None), []):
            init_ = st.lookup('__init__')
            if init_ is not None:
                chain.append(init_)
        names = set()
        for g in chain:
            a_ = g.node.args
            n_pos = len(call.args) if g.name != '__init__' else len(call.args)   # positional arguments supplied fill the leading parameters
            plain = [x.arg for x in a_.args][1:]
            names |= {x for x in plain if not (a_.vararg is None and False)} | {x.arg for x in a_.kwonlyargs}
        reserved[id(call)] = (call, sorted(names))
    for call, names in reserved.values():
        chk.ob('FWD-command-payload', ac, not names, f'the keyword arguments of the command are passed on with ** through create_state and the state constructor, whose named parameters '
               f'{names} capture a keyword of the same name: Continue(f, {names[0] if names else "x"}=...) fails with TypeError ("multiple values") and the process ends EXCEPTED',
               node=call, kind='kwargs-not-captured')

    # Running.execute: result wrapping and dispatch
    ex = prog.func('process_states.Running.execute')
    run_calls = [c for c in calls_in_func(ex) if norm(c.func) == 'self.run_fn']
    chk.ob('FWD-state-payload', ex, len(run_calls) == 1 and [norm(a) for a in run_calls[0].args] == ['*self.args']
           and [(k.arg, norm(k.value)) for k in run_calls[0].keywords] == [(None, 'self.kwargs')],
           'the step function is called as run_fn(*self.args, **self.kwargs)', node=run_calls[0] if run_calls else ex.node,
           kind='run-fn-call')
    ffe = chk.ctx.facts.analyse(ex)
    aw = [n for n in ast.walk(ex.node) if isinstance(n, ast.Assign) and isinstance(n.value, ast.Await) and run_calls and n.value.value is run_calls[0]
          and isinstance(n.targets[0], ast.Name)]
    rvar = aw[0].targets[0].id if len(aw) == 1 else 'result'
    stop_sites = dispatch_sites(ffe, lambda c: last_name(c) == 'Stop')
    plain = [(n, c) for n, c, _ in stop_sites if len(c.args) == 2 and norm(c.args[1]) == 'True']
    unsucc = [(n, c) for n, c, _ in stop_sites if len(c.args) == 2 and norm(c.args[1]) == 'False']
    chk.ob('DISP-command', ex, len(stop_sites) == len(plain) + len(unsucc) and bool(plain) and bool(unsucc), 'results are wrapped as Stop(value, True) or Stop(code, False)', kind='wrap-shapes')

    def wrapped_var(c: ast.Call) -> str:
        a = c.args[0]
        return a.value.id if isinstance(a, ast.Attribute) and isinstance(a.value, ast.Name) and a.attr == 'result' else (a.id if isinstance(a, ast.Name) else '')

    ok_plain = bool(plain)
    for n, c in plain:
        v = wrapped_var(c)
        fs = ffe.at_call(n, c)
        ok_plain &= isinstance(c.args[0], ast.Name) and ('F', f'isinstance({v}, Command)') in fs and any(
            a[0] == 'F' and a[1].startswith(f'isinstance({v}, ') and a[1].endswith('UnsuccessfulResult)') for a in fs)
    chk.ob('DISP-command', ex, ok_plain, 'a plain return value (not a command, not an UnsuccessfulResult) becomes Stop(value, True)', kind='wrap-plain')
    ok_uns = bool(unsucc)
    for n, c in unsucc:
        v = wrapped_var(c)
        fs = ffe.at_call(n, c)
        ok_uns &= isinstance(c.args[0], ast.Attribute) and any(a[0] == 'isinst' and a[1] == v and a[2].endswith('UnsuccessfulResult') for a in fs) and (
            'F', f'isinstance({v}, Command)') in fs
    chk.ob('DISP-command', ex, ok_uns, 'an UnsuccessfulResult becomes Stop(result.result, False)', kind='wrap-unsuccessful')
    # what is wrapped is the value the step function returned
    ok_src = all(wrapped_var(c) == rvar or Resolver(ex).text(ast.Name(id=wrapped_var(c), ctx=ast.Load())) == rvar for _, c in plain + unsucc)
    chk.ob('DISP-command', ex, ok_src, 'what is wrapped is the value the step function returned', kind='wrap-source')
    cfge = ffe.cfg
    disp = [n for n in cfge.nodes if any(isinstance(c, ast.Call) and last_name(c) == '_action_command' for c in (walk_shallow(n.expr()) if n.expr() is not None else []))]
    if folded and not disp:
        # (folded dispatcher: the sites of the ladder themselves are the dispatch)
        disp = [m for m in cfge.nodes if m.kind != 'return' and any(isinstance(c, ast.Call) and calls.state_ctor_label(ex, c) is not None and repr(calls.state_ctor_label(ex, c)) != 'ProcessState.EXCEPTED'
                                                                     for c in (walk_shallow(m.expr()) if m.expr() is not None else []))]
    exc_nodes = [n for n in cfge.nodes if any(isinstance(c, ast.Call) and repr(calls.state_ctor_label(ex, c)) == 'ProcessState.EXCEPTED'
                                              for c in (walk_shallow(n.expr()) if n.expr() is not None else []))]
    ok = bool(disp) and cfge.must_pass(cfge.entry, [cfge.exit], lambda m: m in disp or m in exc_nodes, edge_ok=no_exc)
    twice = any(o.id in cfge.reachable([d], edge_ok=no_exc) for d in disp for o in disp)
    chk.ob('DISP-command', ex, ok and not twice, 'every normal completion of the running step dispatches its command through _action_command exactly once '
           '(or returns the EXCEPTED state)', kind='dispatch-once')
    # Created.execute / Waiting.execute produce RUNNING with the stored payload
    ce = prog.func('process_states.Created.execute')
    cc = [c for c in calls_in_func(ce) if calls.state_ctor_label(ce, c) is not None]
    ok = len(cc) == 1 and repr(calls.state_ctor_label(ce, cc[0])) == 'ProcessState.RUNNING'
    chk.ob('DISP-command', ce, ok, 'CREATED executes into RUNNING', node=cc[0] if cc else ce.node, kind='created-to-running')
    if ok:
        got = [norm(a) for a in cc[0].args[1:]] + ['**' + norm(k.value) for k in cc[0].keywords if k.arg is None]
        chk.ob('FWD-state-payload', ce, got == ['self.run_fn', '*self.args', '**self.kwargs'],
               f'Created forwards run_fn, *args, **kwargs to RUNNING (got {got})', node=cc[0], kind='created-payload')
    resume_value_forwarding(chk, 'FWD-state-payload')

    # SYM: the payload survives a checkpoint
    for qual, members, key, attr in (('process_states.Created', {'args', 'kwargs'}, 'RUN_FN', 'run_fn'),
                                     ('process_states.Running', {'args', 'kwargs'}, 'RUN_FN', 'run_fn'),
                                     ('process_states.Waiting', {'msg', 'data'}, 'DONE_CALLBACK', 'done_callback')):
        c = prog.cls(qual)
        auto = auto_persist_set(prog, c)
        chk.ob('SYM-payload', qual, members <= auto, f'{sorted(members)} are auto-persisted members of {c.name} (auto: {sorted(auto)})',
               kind=f'auto-persist:{c.name}')
        saved, loaded = saved_loaded_keys(prog, c)
        kv = prog.fold(c.module, c.attrs[key], c) if key in c.attrs else None
        chk.ob('SYM-payload', qual, kv in saved and kv in loaded,
               f'{c.name}.{attr} is saved under {kv!r} and loaded from the same key (saved {sorted(map(str, saved))}, '
               f'loaded {sorted(map(str, loaded))})', kind=f'key-roundtrip:{c.name}.{attr}')


def resume_value_forwarding(chk: Check, rule: str) -> None:
    """Waiting.execute: produces RUNNING with the stored continuation; the resume value is forwarded iff not NULL.

    Each ``create_state(RUNNING, ...)`` site is expanded into *virtual calls*: a starred argument that resolves to a
    conditional expression of tuples (``*(() if v == NULL else (v,))``) yields one virtual call per branch, carrying the
    branch condition as extra facts.  A virtual call without the value must know ``v == NULL``; one with it ``v != NULL``."""
    from ..rules import Resolver
    prog = chk.prog
    calls = chk.ctx.calls
    we = prog.func('process_states.Waiting.execute')
    ff = chk.ctx.facts.analyse(we)
    res = Resolver(we)
    wc = [c for c in calls_in_func(we) if calls.state_ctor_label(we, c) is not None]
    labels = {repr(calls.state_ctor_label(we, c)) for c in wc}
    chk.ob(rule, we, labels == {'ProcessState.RUNNING'} and len(wc) >= 1, 'WAITING executes into RUNNING', kind='waiting-to-running')
    # the awaited value
    aw = [n for n in ast.walk(we.node) if isinstance(n, ast.Assign) and isinstance(n.value, ast.Await) and ff.canon.key(n.value.value) == waiting_future_key(prog)
          and isinstance(n.targets[0], ast.Name)]
    var = aw[0].targets[0].id if len(aw) == 1 else None
    chk.ob(rule, we, var is not None, 'the value the waiting future resolves to is kept', kind='awaited-value-kept')
    virtual = []
    for c in wc:
        nodes = ff.cfg.nodes_containing(c)
        base = frozenset.intersection(*[ff.at(n) for n in nodes]) if nodes else frozenset()
        fixed: list = []
        variants = [(frozenset(), [])]
        for a in c.args[1:]:
            if isinstance(a, ast.Starred):
                v = res.expand(a.value)
                # a local bound once per branch of an if/else is the same thing as one conditional expression
                if isinstance(v, ast.Name):
                    from ..rules import conditional_values as _cv
                    cvs = _cv(ff, v.id)
                    if len(cvs) >= 2 and all(isinstance(x, ast.Tuple) for _, x in cvs):
                        new = []
                        for atoms, args in variants:
                            for fs_, tup in cvs:
                                new.append((atoms | frozenset(fs_), args + [norm(e) for e in tup.elts]))
                        variants = new
                        continue
                if isinstance(v, ast.IfExp) and isinstance(v.body, ast.Tuple) and isinstance(v.orelse, ast.Tuple):
                    new = []
                    for atoms, args in variants:
                        new.append((atoms | frozenset(ff.cond_atoms(v.test, True)), args + [norm(e) for e in v.body.elts]))
                        new.append((atoms | frozenset(ff.cond_atoms(v.test, False)), args + [norm(e) for e in v.orelse.elts]))
                    variants = new
                    continue
                if isinstance(v, ast.Tuple):
                    variants = [(atoms, args + [norm(e) for e in v.elts]) for atoms, args in variants]
                    continue
                variants = [(atoms, args + ['*' + norm(a.value)]) for atoms, args in variants]
            else:
                variants = [(atoms, args + [norm(a)]) for atoms, args in variants]
        for atoms, args in variants:
            virtual.append((base | atoms, args, c))
    # once the awaited value has been obtained nothing discards it: from the await's normal successor every way on -- return
    # or explicit raise -- passes the creation of the RUNNING state (an interruption noticed late must not eat the value)
    created = [m for c in wc for m in ff.cfg.nodes_containing(c)]
    awn = [m for a_ in aw for m in ff.cfg.nodes_containing(a_)]
    lost = []
    for m in awn:
        starts = [t for t, l in m.succ if l not in ('exc', 'uncaught', 'handler')]
        reach = ff.cfg.reachable(starts, avoid=lambda x: x in created, edge_ok=no_exc, include_src=True)
        lost += [x for x in ff.cfg.nodes if x.id in reach and (x.kind == 'raisestmt' or x is ff.cfg.exit) and x not in created]
    chk.ob(rule, we, bool(awn) and not lost, 'after the waiting future delivered its value every continuation of the step builds the RUNNING state from it (no return and no raise in between: '
           'an interruption that is raised after the value was taken drops the value, the re-armed future is never resolved again)', node=lost[0].ast if lost and lost[0].ast is not None else None,
           kind='awaited-value-not-discarded')
    # and no Waiting state builds RUNNING without having awaited the waiting future (directly or through super().execute())
    wbase = prog.cls('process_states.Waiting')
    for sc in prog.subclasses(wbase):
        ex2 = sc.vmethods.get('execute')
        if ex2 is None:
            continue
        f2 = chk.ctx.facts.analyse(ex2)
        mk = [m for c in calls_in_func(ex2) if calls.state_ctor_label(ex2, c) is not None for m in f2.cfg.nodes_containing(c)]
        waits = [m for m in f2.cfg.nodes if m.expr() is not None and any(isinstance(x, ast.Await) and (f2.canon.key(x.value) == waiting_future_key(prog) or (
            isinstance(x.value, ast.Call) and norm(x.value.func) == 'super().execute')) for x in walk_shallow(m.expr()))]
        ok2 = all(f2.cfg.must_pass(f2.cfg.entry, [m], lambda x: x in waits, edge_ok=no_exc) for m in mk)
        chk.ob(rule, ex2, ok2, f'{sc.name}.execute builds the next state only after the waiting future was awaited (the wake-up, which is sent once the results are in place, is the only '
               'thing that may end the wait)', node=mk[0].ast if mk else None, kind='next-state-only-after-wake-up')
    ok_cb = bool(virtual) and all(args and args[0] == 'self.done_callback' for _, args, _ in virtual)
    chk.ob(rule, we, ok_cb, 'the continuation stored in the WAITING state is what runs next', kind='waiting-callback')
    ok_null = var is not None and bool(virtual)
    shapes = set()
    if var is not None:
        same = ('same', *sorted(['NULL', var]))
        differ = ('differ', *sorted(['NULL', var]))
        for facts, args, c in virtual:
            if len(args) == 1:
                shapes.add('without')
                ok_null &= same in facts
            elif len(args) == 2 and args[1] == var:
                shapes.add('with')
                ok_null &= differ in facts
            else:
                ok_null = False
        ok_null &= shapes == {'with', 'without'}
    chk.ob(rule, we, ok_null, 'resume value forwarded to the continuation exactly when it is not NULL '
           '(f(v) after resume(v), f() after resume())', kind='resume-value-forwarded')
    resume_value_reaches_future(chk, rule)
    step_wrapper_returns_result_unchanged(chk, rule)
    from .common import event_guard_accepts_subclasses
    event_guard_accepts_subclasses(chk, rule)
    # "f() if resumed without a value" is decided by ``value == NULL``: the sentinel must equal nothing but itself
    nul = [c for c in prog.all_classes() if c.module.short == 'lang' and c.name.strip('_') == 'NULL']
    for c in nul:
        eq = c.vmethods.get('__eq__')
        if eq is None:
            chk.ob(rule, c.qualname, True, 'the no-value sentinel compares by identity', kind='null-equals-only-itself', expr='__eq__')
            continue
        op = eq.params[1] if len(eq.params) > 1 else 'other'
        okforms = {f'isinstance({op}, self.__class__)', f'isinstance({op}, type(self))', f'{op} is self', f'self is {op}', f'type({op}) is type(self)', f'type({op}) is self.__class__'}
        rets = [r for r in ast.walk(eq.node) if isinstance(r, ast.Return)]
        ok = bool(rets) and all(r.value is not None and (norm(r.value) in okforms or norm(r.value) in ('False', 'NotImplemented')) for r in rets)
        chk.ob(rule, eq, ok, 'the no-value sentinel equals only itself (were it equal to None, 0 or anything a caller may pass, resume(<that value>) would run f() instead of f(value))',
               node=rets[0] if rets else None, kind='null-equals-only-itself')
    chk.need(bool(nul), 'the NULL sentinel class was not found in lang')


def step_wrapper_returns_result_unchanged(chk: Check, rule: str) -> None:
    """utils.ensure_coroutine's wrapper around a plain (non-async) callable hands back what the callable returned, untouched."""
    prog = chk.prog
    # every synchronous step function runs through utils.ensure_coroutine's wrapper: what the step returned must come out of it AS IT IS -- the running
    # state classifies the value (command / plain result), a wrapper that looks inside it (awaits it, unwraps it) decides in its place
    ec = prog.try_func('utils.ensure_coroutine.wrap')
    if ec is None:
        chk.ob(rule, 'utils.ensure_coroutine', False, 'the wrapper ensure_coroutine puts around a plain function was not found', kind='wrapper-returns-result-unchanged')
    else:
        from ..rules import Resolver as _R2
        rets_ = [r for r in ast.walk(ec.node) if isinstance(r, ast.Return)]
        va, kw = ec.node.args.vararg, ec.node.args.kwarg
        outer_ = prog.func('utils.ensure_coroutine')
        want_ = f'{outer_.params[0]}(*{va.arg}, **{kw.arg})' if va is not None and kw is not None and outer_.params else None
        touched = [n for n in ast.walk(ec.node) if isinstance(n, (ast.Await, ast.Yield, ast.YieldFrom))]
        stores_ = {}
        for n in ast.walk(ec.node):
            if isinstance(n, ast.Name) and isinstance(n.ctx, ast.Store):
                stores_[n.id] = stores_.get(n.id, 0) + 1
        ok = len(rets_) == 1 and rets_[0].value is not None and want_ is not None and _R2(ec).text(rets_[0].value) == want_ and not touched and all(v == 1 for v in stores_.values())
        chk.ob(rule, ec, ok, 'the coroutine wrapper of a plain step function returns exactly what the function returned (no await / unwrapping of the value in between)',
               node=touched[0] if touched else (rets_[0] if rets_ else None), kind='wrapper-returns-result-unchanged')


def resume_value_reaches_future(chk: Check, rule: str) -> None:
    """Waiting.resume(value): while the waiting future is still pending, EVERY normal way through resume() hands ``value``
    to the future (decision table over the leaf ``<future>.done()`` = False; any other test is explored both ways).  And
    nobody else resolves that future with a result: a result written elsewhere is a wake-up without / with another value."""
    from ..decisions import paths_under
    from ..fut import writer_sites
    prog = chk.prog
    LOC = waiting_future_key(prog)
    w = prog.cls('process_states.Waiting')
    wr = prog.func('process_states.Waiting.resume')
    vparam = wr.params[1] if len(wr.params) > 1 else None
    ff = chk.ctx.facts.analyse(wr)
    mine = [s for s in writer_sites(chk.ctx, wr, [LOC]) if s.op == 'set_result' and len(s.call.args) == 1 and norm(s.call.args[0]) == vparam]
    wnodes = {m.id for s in mine for m in ff.cfg.nodes_containing(s.call)}
    bad = None
    try:
        for path in paths_under(ff, {f'{LOC}.done()': False}):
            if path[-1] is ff.cfg.exit and not any(m.id in wnodes for m in path):
                bad = path
                break
    except RuntimeError:
        bad = []
    where = None
    if bad:
        tests = [m for m in bad if m.kind == 'test']
        where = tests[-1].ast if tests else None
    chk.ob(rule, wr, vparam is not None and bool(mine) and bad is None,
           'while the waiting future is pending every normal way through resume(value) resolves the future with that value '
           '(a path that returns without doing so drops the value: the continuation runs without it, or never)', node=where, kind='resume-value-reaches-future')
    # (a subclass may add its own wake-up -- the workchain's awaitable completion resolves the future with NULL, that is
    # C10's mechanism; the rule is about the base state, where resume() is the only source of a result)
    for c in [w] + list(prog.subclasses(w)):
        # (in a subclass the wake-up it adds is the completion callback of what it awaits: a method registered with add_done_callback)
        callbacks = {norm(a).split('.')[-1] for g in c.emethods.values() for x in calls_in_func(prog.view(g), 'add_done_callback') for a in x.args} if c is not w else set()
        for f in c.emethods.values():
            f = prog.view(f)   # (the same view ``mine`` was collected from: call nodes are compared by identity)
            for s in writer_sites(chk.ctx, f, [LOC]):
                if f.name == 'exit' or f.name in callbacks:
                    continue   # releasing a step that is still blocked when the state is LEFT: the state is no longer current, what that step returns is discarded (C02 / C03 rule FUT-wait-release)
                if s.op == 'set_result' and not any(s.call is m.call for m in mine):
                    chk.ob(rule, f, False, 'the waiting future is given a result outside resume(value): the continuation is woken with a value nobody passed to resume()',
                           node=s.call, kind='foreign-result')

