"""C13 -- a step's return value alone decides what happens next, with exact arguments."""
from __future__ import annotations

import ast
from typing import Dict, List, Optional, Tuple

from ..cfg import cfg_of
from ..model import AnalysisError, ClassInfo, EnumMember, FuncInfo, UNKNOWN, is_self_attr, norm, unparse, walk_shallow
from ..report import Check
from ..rules import branch_reaches_exit, calls_in_func, last_name
from . import common
from .sym import auto_persist_set, saved_loaded_keys

# (state-constructor parameter  <-  command field) pairs that mean the same thing under different names
SYNONYMS = {('run_fn', 'continue_fn'), ('done_callback', 'continue_fn'), ('run_fn', 'run_fn'), ('run_fn', 'done_callback')}
EXPECT = {'Kill': 'KILLED', 'Stop': 'FINISHED', 'Wait': 'WAITING', 'Continue': 'RUNNING'}


def captured_fields(init: FuncInfo) -> List[Tuple[str, str, str]]:
    """(attribute, parameter, kind) for every ``self.attr = <param>`` in a constructor; kind in plain/var/kw."""
    a = init.node.args
    kinds = {x.arg: 'plain' for x in a.posonlyargs + a.args + a.kwonlyargs}
    if a.vararg:
        kinds[a.vararg.arg] = 'var'
    if a.kwarg:
        kinds[a.kwarg.arg] = 'kw'
    out = []
    for n in walk_shallow(ast.Module(body=init.node.body, type_ignores=[])):
        if isinstance(n, (ast.Assign, ast.AnnAssign)):
            tg = n.targets if isinstance(n, ast.Assign) else [n.target]
            v = n.value
            # look through wrappers such as ensure_coroutine(run_fn)
            src = None
            for x in ast.walk(v) if v is not None else []:
                if isinstance(x, ast.Name) and x.id in kinds and x.id != 'self':
                    src = x.id
                    break
            for t in tg:
                if is_self_attr(t) and src is not None:
                    out.append((t.attr, src, kinds[src]))
    return out


def bind_state_args(prog, state_cls: ClassInfo, args: List[ast.expr], keywords: List[ast.keyword]):
    """Bind the arguments following the label in create_state(label, *args, **kw) to the state constructor's
    parameters (after the process). Returns list of (param or '*'/'**', expr, star-kind)."""
    init = state_cls.lookup('__init__')
    if init is None:
        raise AnalysisError(f'{state_cls.qualname} has no __init__')
    a = init.node.args
    params = [x.arg for x in a.posonlyargs + a.args][2:]  # drop self, process
    out = []
    i = 0
    for e in args:
        if isinstance(e, ast.Starred):
            out.append((a.vararg.arg if a.vararg else '*', e.value, 'var'))
            continue
        if i < len(params):
            out.append((params[i], e, 'plain'))
        elif a.vararg:
            out.append((a.vararg.arg, e, 'var-item'))
        else:
            out.append(('<excess>', e, 'plain'))
        i += 1
    for k in keywords:
        if k.arg is None:
            out.append((a.kwarg.arg if a.kwarg else '**', k.value, 'kw'))
        else:
            out.append((k.arg, k.value, 'plain'))
    return out


def canonical_param(st: ClassInfo, p: str) -> str:
    """Name of the base-class constructor parameter that ``p`` is handed to by ``super().__init__(...)``."""
    init = st.methods.get('__init__')
    if init is None:
        return p
    for n in ast.walk(init.node):
        if isinstance(n, ast.Call) and isinstance(n.func, ast.Attribute) and n.func.attr == '__init__' \
                and isinstance(n.func.value, ast.Call) and unparse(n.func.value.func) == 'super':
            base_init = None
            for k in st.mro_classes()[1:]:
                if '__init__' in k.methods:
                    base_init = k.methods['__init__']
                    base_cls = k
                    break
            if base_init is None:
                return p
            bparams = [x.arg for x in base_init.node.args.posonlyargs + base_init.node.args.args][1:]
            for i, a in enumerate(n.args):
                if isinstance(a, ast.Name) and a.id == p and i < len(bparams):
                    return canonical_param(base_cls, bparams[i])
            for kw in n.keywords:
                if isinstance(kw.value, ast.Name) and kw.value.id == p and kw.arg:
                    return canonical_param(base_cls, kw.arg)
    return p


def ladder(func: FuncInfo, subject: str):
    """isinstance ladder over ``subject``: [(class expr, body stmts)], else-body."""
    branches = []
    else_body: Optional[List[ast.stmt]] = None
    for s in func.node.body:
        if isinstance(s, ast.If):
            cur = s
            while True:
                t = cur.test
                if isinstance(t, ast.Call) and unparse(t.func) == 'isinstance' and norm(t.args[0]) == subject:
                    branches.append((t.args[1], cur.body, cur))
                else:
                    return branches, None
                if len(cur.orelse) == 1 and isinstance(cur.orelse[0], ast.If):
                    cur = cur.orelse[0]
                    continue
                else_body = cur.orelse
                break
            if branches:
                break
    return branches, else_body


def run(chk: Check) -> None:
    prog = chk.prog
    calls = chk.ctx.calls
    running = prog.cls('process_states.Running')
    ac = prog.func('process_states.Running._action_command')
    subject = ac.params[1] if len(ac.params) > 1 else 'command'
    branches, else_body = ladder(ac, subject)
    chk.need(bool(branches), 'no isinstance ladder over the command found in Running._action_command')
    chk.floor('DISP-command', len(branches), 2)

    cmd_base = prog.cls('process_states.Command')
    universe = [c for c in prog.subclasses(cmd_base) if '__init__' in c.methods]
    covered: Dict[str, Tuple] = {}
    running_allowed = common.allowed_of(prog, running)
    by_label = common.labelled_states(prog)
    for cls_expr, body, ifnode in branches:
        c = prog.resolve_class(ac.module, cls_expr)
        chk.need(c is not None, f'cannot resolve command class {unparse(cls_expr)}')
        # the state built in this branch
        built = []
        for s in body:
            for n in walk_shallow(s):
                if isinstance(n, ast.Call):
                    lbl = calls.state_ctor_label(ac, n)
                    if lbl is not None:
                        built.append((lbl, n))
        ok_one = len(built) == 1 and isinstance(built[0][0], EnumMember)
        chk.ob('DISP-command', ac, ok_one, f'branch for {c.name} builds exactly one state with a constant label '
               f'({[repr(b[0]) for b in built]})', node=ifnode.test, kind='branch-builds-state')
        if not ok_one:
            continue
        lbl, call = built[0]
        covered[c.name] = (lbl.member, call)
        want = EXPECT.get(c.name)
        if want is not None:
            chk.ob('DISP-command', ac, lbl.member == want, f'{c.name} -> {lbl.member} (property: {want})', node=call,
                   kind='command-to-label')
        chk.ob('DISP-command', ac, lbl.member in running_allowed, f'{lbl.member} is in Running.ALLOWED', node=call,
               kind='label-allowed-from-running')
        # the produced state must be what this branch returns (possibly via a local)
        # FWD: every captured field of the command reaches the state constructor with the right star-kind
        fields = captured_fields(c.methods['__init__'])
        state_classes = by_label.get(lbl.member, [])
        chk.need(bool(state_classes), f'no state class labelled {lbl.member}')
        for st in state_classes:
            bound = bind_state_args(prog, st, call.args[1:], call.keywords)
            st_fields = {p: k for (_, p, k) in []}
            for attr, param, kind in fields:
                hits = [(p, e, k) for (p, e, k) in bound if norm(e) == f'{subject}.{attr}']
                if not hits:
                    chk.ob('FWD-command-payload', ac, False,
                           f'{c.name}.{attr} is captured by the constructor but never forwarded to the {lbl.member} state '
                           f'({st.name}): the next step would not receive it', node=call, kind=f'field-dropped:{c.name}.{attr}')
                    continue
                p, e, k = hits[0]
                p = canonical_param(st, p)
                kind_ok = (kind == 'plain' and k in ('plain',)) or (kind == 'var' and k == 'var') or (kind == 'kw' and k == 'kw')
                name_ok = p == attr or (p, attr) in SYNONYMS or (kind in ('var', 'kw') and p in (attr, '*', '**'))
                chk.ob('FWD-command-payload', ac, kind_ok and name_ok,
                       f'{c.name}.{attr} ({kind}) -> parameter {p!r} of {st.name} as {k}', node=call,
                       kind=f'field-forwarded:{c.name}.{attr}')
            for p, e, k in bound:
                if p == '<excess>':
                    chk.ob('FWD-command-payload', ac, False, f'excess positional argument {norm(e)} for {st.name}', node=call,
                           kind='excess-argument')
    for c in universe:
        chk.ob('DISP-command', ac, c.name in covered, f'command class {c.name} has a branch in _action_command', kind=f'covered:{c.name}',
               expr=c.name)
    # fallthrough rejects
    raises = else_body is not None and any(isinstance(s, ast.Raise) for s in else_body)
    chk.ob('DISP-command', ac, raises, 'an unrecognised command raises (fallthrough of the ladder)', kind='fallthrough-raises')
    # the state built is what is returned: the function returns the variable assigned in the branches
    rets = [s for s in ast.walk(ac.node) if isinstance(s, ast.Return)]
    chk.ob('DISP-command', ac, len(rets) >= 1 and all(r.value is not None for r in rets), 'returns the state built', kind='returns-state')

    # Running.execute: result wrapping and dispatch
    ex = prog.func('process_states.Running.execute')
    run_calls = [c for c in calls_in_func(ex) if norm(c.func) == 'self.run_fn']
    chk.ob('FWD-state-payload', ex, len(run_calls) == 1 and [norm(a) for a in run_calls[0].args] == ['*self.args']
           and [(k.arg, norm(k.value)) for k in run_calls[0].keywords] == [(None, 'self.kwargs')],
           'the step function is called as run_fn(*self.args, **self.kwargs)', node=run_calls[0] if run_calls else ex.node,
           kind='run-fn-call')
    stops = [c for c in calls_in_func(ex, 'Stop')]
    shapes = sorted((norm(c.args[0]) if c.args else '', norm(c.args[1]) if len(c.args) > 1 else '') for c in stops)
    chk.ob('DISP-command', ex, ('result', 'True') in shapes, 'a plain return value becomes Stop(value, True)', kind='wrap-plain')
    chk.ob('DISP-command', ex, ('result.result', 'False') in shapes, 'UnsuccessfulResult becomes Stop(result.result, False)',
           kind='wrap-unsuccessful')
    # wrapping applies only to non-Command values
    wrap_tests = [n for n in ast.walk(ex.node) if isinstance(n, ast.If) and 'isinstance(result, Command)' in norm(n.test)]
    chk.ob('DISP-command', ex, bool(wrap_tests) and norm(wrap_tests[0].test) == 'not isinstance(result, Command)',
           'only values that are not commands are wrapped', kind='wrap-guard')
    uns = [n for n in ast.walk(ex.node) if isinstance(n, ast.If) and 'UnsuccessfulResult' in norm(n.test)]
    ok_uns = False
    for n in uns:
        body_calls = [c for s in n.body for c in ast.walk(s) if isinstance(c, ast.Call) and last_name(c) == 'Stop']
        else_calls = [c for s in n.orelse for c in ast.walk(s) if isinstance(c, ast.Call) and last_name(c) == 'Stop']
        ok_uns = (len(body_calls) == 1 and norm(body_calls[0].args[1]) == 'False'
                  and len(else_calls) == 1 and norm(else_calls[0].args[1]) == 'True')
    chk.ob('DISP-command', ex, ok_uns, 'the unsuccessful wrapper is chosen exactly for UnsuccessfulResult values', kind='wrap-branches')
    disp = calls_in_func(ex, '_action_command')
    chk.ob('DISP-command', ex, len(disp) == 1, 'the command is dispatched through _action_command exactly once', kind='dispatch-once')

    # Created.execute / Waiting.execute produce RUNNING with the stored payload
    ce = prog.func('process_states.Created.execute')
    cc = [c for c in calls_in_func(ce) if calls.state_ctor_label(ce, c) is not None]
    ok = len(cc) == 1 and repr(calls.state_ctor_label(ce, cc[0])) == 'ProcessState.RUNNING'
    chk.ob('DISP-command', ce, ok, 'CREATED executes into RUNNING', node=cc[0] if cc else ce.node, kind='created-to-running')
    if ok:
        got = [norm(a) for a in cc[0].args[1:]] + ['**' + norm(k.value) for k in cc[0].keywords if k.arg is None]
        chk.ob('FWD-state-payload', ce, got == ['self.run_fn', '*self.args', '**self.kwargs'],
               f'Created forwards run_fn, *args, **kwargs to RUNNING (got {got})', node=cc[0], kind='created-payload')
    resume_value_forwarding(chk, 'FWD-state-payload')

    # SYM: the payload survives a checkpoint
    for qual, members, key, attr in (('process_states.Created', {'args', 'kwargs'}, 'RUN_FN', 'run_fn'),
                                     ('process_states.Running', {'args', 'kwargs'}, 'RUN_FN', 'run_fn'),
                                     ('process_states.Waiting', {'msg', 'data'}, 'DONE_CALLBACK', 'done_callback')):
        c = prog.cls(qual)
        auto = auto_persist_set(prog, c)
        chk.ob('SYM-payload', qual, members <= auto, f'{sorted(members)} are auto-persisted members of {c.name} (auto: {sorted(auto)})',
               kind=f'auto-persist:{c.name}')
        saved, loaded = saved_loaded_keys(prog, c)
        kv = prog.fold(c.module, c.attrs[key], c) if key in c.attrs else None
        chk.ob('SYM-payload', qual, kv in saved and kv in loaded,
               f'{c.name}.{attr} is saved under {kv!r} and loaded from the same key (saved {sorted(map(str, saved))}, '
               f'loaded {sorted(map(str, loaded))})', kind=f'key-roundtrip:{c.name}.{attr}')


def resume_value_forwarding(chk: Check, rule: str) -> None:
    """Waiting.execute: produces RUNNING with the stored continuation; the resume value is forwarded iff not NULL."""
    prog = chk.prog
    calls = chk.ctx.calls
    we = prog.func('process_states.Waiting.execute')
    wc = [c for c in calls_in_func(we) if calls.state_ctor_label(we, c) is not None]
    labels = {repr(calls.state_ctor_label(we, c)) for c in wc}
    chk.ob(rule, we, labels == {'ProcessState.RUNNING'} and len(wc) >= 1, 'WAITING executes into RUNNING',
           kind='waiting-to-running')
    shapes = sorted(tuple(norm(a) for a in c.args[1:]) for c in wc)
    chk.ob(rule, we, all(s and s[0] == 'self.done_callback' for s in shapes),
           'the continuation stored in the WAITING state is what runs next', kind='waiting-callback')
    # the resume value is forwarded iff it is not NULL
    cfg = cfg_of(we)
    null_tests = [n for n in cfg.nodes if n.kind == 'test' and 'NULL' in norm(n.ast.test)]
    ok_null = False
    if null_tests:
        t = null_tests[0]
        test = norm(t.ast.test)
        var = test.split(' ')[0]
        eq = '==' in test or ' is NULL' in test
        with_val = [c for c in wc if len(c.args) == 3 and norm(c.args[2]) == var]
        without = [c for c in wc if len(c.args) == 2]
        if with_val and without:
            # which branch holds which call
            def in_branch(label, call):
                starts = [s for s, l in t.succ if l == label]
                ids = cfg.reachable(starts, include_src=True,
                                    avoid=lambda n: n.kind == 'test' and n is not t and False)
                return any(n.id in ids for n in cfg.nodes_containing(call))
            null_branch = 'true' if eq else 'false'
            val_branch = 'false' if eq else 'true'
            # each call must be reachable only from its own branch
            ok_null = (in_branch(null_branch, without[0]) and not in_branch(val_branch, without[0])
                       and in_branch(val_branch, with_val[0]) and not in_branch(null_branch, with_val[0]))
            # the tested variable is the awaited waiting future
            aw = [n for n in ast.walk(we.node) if isinstance(n, ast.Assign) and isinstance(n.value, ast.Await)
                  and norm(n.value.value) == 'self._waiting_future' and norm(n.targets[0]) == var]
            ok_null = ok_null and bool(aw)
    chk.ob(rule, we, ok_null, 'resume value forwarded to the continuation exactly when it is not NULL '
           '(f(v) after resume(v), f() after resume())', kind='resume-value-forwarded')

