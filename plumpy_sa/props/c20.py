"""C20 -- future adapters deliver result, error or cancellation exactly once (FUT exactly-once per CFG path)."""
from __future__ import annotations

import ast
from typing import List, Optional, Tuple

from ..cfg import CFG, Node, cfg_of
from ..facts import pending
from ..model import AnalysisError, FuncInfo, norm, unparse, walk_shallow
from ..report import Check
from ..rules import calls_in_func, last_name

# adapter callback -> (name of the output future variable, how it is found)
ADAPTERS = [
    ('futures.create_task.run_task', 'futures.create_task'),
    ('communications.plum_to_kiwi_future.on_done', 'communications.plum_to_kiwi_future'),
    ('futures.unwrap_kiwi_future.unwrap', 'futures.unwrap_kiwi_future'),
    ('processes.Process._schedule_rpc.run_callback', 'processes.Process._schedule_rpc'),
]


def output_future(chk: Check, outer: FuncInfo) -> str:
    """The future the enclosing function creates and returns."""
    rets = [s for s in outer.node.body if isinstance(s, ast.Return)]
    chk.need(len(rets) == 1 and isinstance(rets[0].value, ast.Name), f'{outer.qualname} does not return a single future variable')
    var = rets[0].value.id
    created = [n for n in ast.walk(outer.node) if isinstance(n, ast.Assign) and any(isinstance(t, ast.Name) and t.id == var for t in n.targets)]
    chk.need(len(created) == 1 and isinstance(created[0].value, ast.Call)
             and norm(created[0].value.func) in ('kiwipy.Future', 'loop.create_future', 'futures.Future', 'asyncio.Future'),
             f'{outer.qualname}: output future {var} is not created by a future constructor')
    return var


# calls that cannot raise under the property's assumptions (the consumer does not resolve the output future first)
NONRAISING = {'cancelled', 'cancel', 'done', 'capture_exceptions', 'isinstance', 'isfuture', 'add_done_callback', 'set_result',
              'set_exception', 'Future', 'create_future'}


def exc_feasible(n: Node) -> bool:
    """Can the statement at ``n`` raise?  Only awaits, ``.result()`` and calls into other code count."""
    e = n.expr()
    if e is None:
        return n.kind in ('raisestmt',)
    if n.kind == 'raisestmt':
        return True
    for x in walk_shallow(e):
        if isinstance(x, (ast.Await, ast.Subscript, ast.Raise)):
            return True
        if isinstance(x, ast.Call) and last_name(x) not in NONRAISING:
            return True
    return False


def events_at(n: Node, out: str, self_name: str) -> List[str]:
    """Resolution events of the output future performed when node ``n`` completes normally."""
    ev = []
    if n.kind == 'capture':
        if norm(n.info) == out:
            ev.append('captured-exception')
        return ev
    e = n.expr()
    if e is None:
        return ev
    for c in walk_shallow(e):
        if isinstance(c, ast.Call) and isinstance(c.func, ast.Attribute):
            if c.func.attr in ('set_result', 'set_exception', 'cancel') and norm(c.func.value) == out:
                ev.append(c.func.attr)
            elif c.func.attr == 'add_done_callback' and c.args and norm(c.args[0]) == self_name:
                ev.append('re-registered')
    return ev


def adapters_deliver_exactly_once(chk: Check, rule: str = 'FUT-exactly-once', cancel_rule: str = 'FUT-cancel-before-result', adapters=None) -> int:
    """Every acyclic path through an adapter callback resolves the adapter's output future exactly once (result, captured exception, cancellation or re-registration
    on a nested future); nothing else writes it; the callback is registered once.  Returns the number of paths examined."""
    prog = chk.prog
    total_paths = 0
    for qual, outer_q in (adapters or ADAPTERS):
        f = prog.try_func(qual)
        outer = prog.func(outer_q)
        rets_o = [s_ for s_ in outer.node.body if isinstance(s_, ast.Return)]
        own_future = len(rets_o) == 1 and isinstance(rets_o[0].value, ast.Name) and any(
            isinstance(n_, ast.Assign) and any(isinstance(t_, ast.Name) and t_.id == rets_o[0].value.id for t_ in n_.targets) and isinstance(n_.value, ast.Call)
            and norm(n_.value.func) in ('kiwipy.Future', 'loop.create_future', 'futures.Future', 'asyncio.Future') for n_ in ast.walk(outer.node))
        if f is None or not own_future:
            # the adapter no longer resolves a future of its own in a callback this analysis can see (delegated to asyncio.wrap_future or the like):
            # exactly-once delivery and the identity of the delivered exception (kiwipy / concurrent CancelledError vs asyncio's) are not established
            chk.ob(rule, outer, False, f'{outer.short} no longer has the callback {qual.split(".")[-1]} that resolves its output future inside capture_exceptions: how (and whether) '
                   'result, exception and cancellation reach the caller is left to code outside plumpy', kind='adapter-callback-present')
            continue
        out = output_future(chk, outer)
        f = prog.view(f)   # (a local helper the callback delegates to -- "resolve this layer" -- is part of the callback)
        cfg = cfg_of(f)
        n_paths = 0
        bad: List[Tuple[str, List[str]]] = []
        escapes = 0
        for path in cfg.paths(limit=2000, edge_ok=lambda a, b, l: l != 'exc' or exc_feasible(a)):
            n_paths += 1
            evs: List[str] = []
            base_exc = False   # a CancelledError / BaseException handler was entered and re-raises: what travels on is not an Exception
            for node, label in path:
                if node.kind == 'except' and getattr(node.ast, 'type', None) is not None and any(k in norm(node.ast.type) for k in ('asyncio.CancelledError', 'BaseException')):
                    base_exc = True
                if label in ('exc', 'uncaught', 'handler') and node.kind != 'capture':
                    continue  # the node did not complete: its write did not happen
                if node.kind == 'capture' and base_exc:
                    continue  # capture_exceptions lets a BaseException through: nothing is set on the future here
                evs.extend(events_at(node, out, f.name))
            last = path[-1][0]
            if last is cfg.raise_exit:
                # an exception leaves the callback: only acceptable for BaseException past capture_exceptions
                if not any(l == 'uncaught' for _, l in path):
                    escapes += 1
                    bad.append(('exception escapes the adapter with the output future unresolved', evs))
                continue
            if len(evs) != 1:
                bad.append((f'{len(evs)} resolutions on one path', evs))
        total_paths += n_paths
        chk.units[f'paths:{f.short}'] = n_paths
        chk.ob(rule, f, not bad,
               f'{n_paths} acyclic paths: on each exactly one of set_result / captured exception / cancel / re-registration on the '
               f'nested future for output future "{out}"' + (f'; offending: {bad[:3]}' if bad else ''), kind='exactly-once-per-path')
        # the output future is written nowhere else in the enclosing function
        other = [c for c in calls_in_func(outer) if isinstance(c.func, ast.Attribute) and c.func.attr in ('set_result', 'set_exception', 'cancel')
                 and norm(c.func.value) == out]
        chk.ob(rule, outer, not other, f'"{out}" is resolved only by the adapter callback', kind='single-writer-function')
        # the callback is actually scheduled / registered exactly once
        nested_defs = [d for d in ast.walk(outer.node) if isinstance(d, (ast.FunctionDef, ast.AsyncFunctionDef)) and d is not outer.node]
        refs = [n for n in ast.walk(outer.node) if isinstance(n, ast.Name) and n.id == f.name and isinstance(n.ctx, ast.Load)
                and not any(n is x for d in nested_defs for x in ast.walk(d))]
        chk.ob(rule, outer, len(refs) == 1, f'{f.name} is scheduled / registered exactly once by {outer.name} ({len(refs)} references)',
               kind='registered-once')
        # ... on EVERY way through the adapter: an outcome delivered by something else on some path (a "the future is already done" shortcut that copies the outcome
        # itself) bypasses what the callback does -- converting a nested loop future, telling a cancellation from an exception
        if len(refs) == 1:
            ocfg = cfg_of(outer)
            rn = [m for m in ocfg.nodes if m.expr() is not None and any(x is refs[0] for x in ast.walk(m.expr()))]
            from ..cfg import no_exc as _ne
            chk.ob(rule, outer, bool(rn) and ocfg.must_pass(ocfg.entry, [ocfg.exit], lambda m: m in rn, edge_ok=_ne),
                   f'every path through {outer.name} hands the outcome to {f.name} (no path delivers it some other way)', node=refs[0], kind='registered-on-every-path')
        # cancellation of the input is tested before its result() is taken
        for c in calls_in_func(f, 'result'):
            src = norm(c.func.value)
            # a must-fact at the read: ``cancelled()`` came out false on every way here (``if not x.cancelled():``, the else of
            # ``if x.cancelled():`` and an early return after it all establish it; nothing between may run foreign code)
            ffc = chk.ctx.facts.analyse(f)
            key = ffc.canon.key(c.func.value)
            nodes = ffc.cfg.nodes_containing(c)
            ok = bool(nodes) and all(('F', f'{key}.cancelled()') in ffc.at_call(m, c) for m in nodes)
            chk.ob(cancel_rule, f, ok, f'{src}.result() is taken only after {src}.cancelled() tested false '
                   '(result() of a cancelled future raises CancelledError, which capture_exceptions would turn into an exception, '
                   'not a cancellation)', node=c, kind='cancelled-tested-first')
    return total_paths


def run(chk: Check) -> None:
    prog = chk.prog
    total_paths = adapters_deliver_exactly_once(chk)
    # the adapters are what carries the outcome: a converted subscriber goes through create_task and plum_to_kiwi_future (whose paths are examined above), not
    # through a second, unexamined mirror (shared with C16)
    from .c16 import converted_subscriber
    converted_subscriber(chk, 'FUT-adapters-used')
    chk.floor('FUT-exactly-once:paths', total_paths, 12)

    from .common import cancellation_delivered
    cancellation_delivered(chk, 'FUT-exactly-once', 'futures.create_task.run_task', 'future', 'the coroutine scheduled by create_task')
    # create_task is what the communicator THREAD calls (through convert_to_comm): the coroutine has to be handed to the loop by a call that may be made from
    # another thread and wakes the loop up -- run_coroutine_threadsafe / call_soon_threadsafe.  ``loop.create_task`` / ``ensure_future`` / ``call_soon`` from a foreign
    # thread leave the coroutine unscheduled until something else wakes the loop: the future never ends
    ctf = prog.func('futures.create_task')
    THREADSAFE = ('run_coroutine_threadsafe', 'call_soon_threadsafe')
    UNSAFE = ('create_task', 'ensure_future', 'call_soon', 'call_later', 'call_at')
    runner = [n_.name for n_ in ctf.node.body if isinstance(n_, (ast.FunctionDef, ast.AsyncFunctionDef))]
    hand = [c for c in calls_in_func(ctf) if last_name(c) in THREADSAFE + UNSAFE and any(isinstance(x, ast.Name) and x.id in runner for a in list(c.args) + [k.value for k in c.keywords] for x in ast.walk(a))]
    chk.ob('FUT-adapters-used', ctf, len(hand) == 1 and last_name(hand[0]) in THREADSAFE, 'create_task hands its coroutine to the loop through a thread-safe call (it is called from the communicator '
           f'thread): {[last_name(c) for c in hand]}', node=hand[0] if hand else None, kind='threadsafe-hand-over')
    cancellation_delivered(chk, 'FUT-exactly-once', 'futures.unwrap_kiwi_future.unwrap', 'unwrapping', 'unwrapping a kiwipy future')
    cancellation_delivered(chk, 'FUT-exactly-once', 'communications.plum_to_kiwi_future.on_done', 'kiwi_future', 'mirroring a loop future')
    # nested unwrapping: a future resolving to a future is followed, not delivered
    un = prog.func('futures.unwrap_kiwi_future.unwrap')
    # site-centric: the re-registration happens exactly where the result is known to be a future, the delivery exactly where it is known not to be
    uf = chk.ctx.facts.analyse(un)
    rv_ = [norm(n.targets[0]) for n in ast.walk(un.node) if isinstance(n, ast.Assign) and isinstance(n.value, ast.Call) and last_name(n.value) == 'result' and isinstance(n.targets[0], ast.Name)]
    ok = len(rv_) == 1
    if ok:
        rv_ = rv_[0]
        rk_ = uf.canon.key(ast.Name(id=rv_, ctx=ast.Load()))   # what the local stands for in the facts (``fut.result()``)
        def is_fut(fs):
            return any((a[0] == 'isinst' and a[1] in (rv_, rk_) and 'Future' in a[2]) or (a[0] == 'T' and a[1].startswith((f'isinstance({rv_},', f'isinstance({rk_},')) and 'Future' in a[1]) for a in fs)
        def not_fut(fs):
            return any(a[0] == 'F' and a[1].startswith((f'isinstance({rv_},', f'isinstance({rk_},')) and 'Future' in a[1] for a in fs)
        regs = [c for c in calls_in_func(un) if last_name(c) == 'add_done_callback' and norm(c.func.value) == rv_]
        dels = [c for c in calls_in_func(un) if last_name(c) == 'set_result' and [norm(a) for a in c.args] == [rv_]]
        ok = len(regs) == 1 and len(dels) == 1 and all(is_fut(fs) for _, fs in uf.site_facts(regs[0])) and all(not_fut(fs) for _, fs in uf.site_facts(dels[0]))
    chk.ob('FUT-unwrap', un, ok, 'a result that is itself a future is unwrapped further; anything else is delivered as is', kind='nested-followed')
    od = prog.func('communications.plum_to_kiwi_future.on_done')
    rvs = [norm(n.targets[0]) for n in ast.walk(od.node) if isinstance(n, ast.Assign) and isinstance(n.value, ast.Call) and last_name(n.value) == 'result' and isinstance(n.targets[0], ast.Name)]
    rv2 = rvs[0] if len(rvs) == 1 else 'result'   # the local that holds what the loop future resolved to
    # decision table over "what the loop future resolved to is itself a loop future": the value delivered is the mirror of that future when it is one, the
    # value itself when it is not -- on every path, whether the conversion re-binds the local or is written at the call
    from ..decisions import leaf as _leaf, paths_under as _pu, value_on_path as _vop
    odf = chk.ctx.facts.analyse(od)
    tests = [m for m in odf.cfg.nodes if m.kind == 'test' and f'isinstance({rv2}' in norm(m.ast.test) and 'Future' in norm(m.ast.test)]
    ok = bool(tests)
    if ok:
        K = _leaf(odf, tests[0].ast.test)[0]
        seen = {True: 0, False: 0}
        for isf in (True, False):
            for path in _pu(odf, {K: isf}, frozen=[rv2]):
                if path[-1] is not odf.cfg.exit:
                    continue
                hits = [(i, c) for i, m in enumerate(path) for c in (walk_shallow(m.expr()) if m.expr() is not None else []) if isinstance(c, ast.Call) and last_name(c) == 'set_result']
                if not hits:
                    continue   # (the cancelled branch)
                seen[isf] += 1
                i, c = hits[-1]
                first = next((j for j, m in enumerate(path) if m.kind == 'stmt' and isinstance(m.ast, ast.Assign) and norm(m.ast.targets[0]) == rv2), 0)
                orig = norm(path[first].ast.value) if path[first].kind == 'stmt' and isinstance(path[first].ast, ast.Assign) else rv2
                got = norm(_vop(path, i, c.args[0])) if len(c.args) == 1 else ''
                want = f'plum_to_kiwi_future({orig})' if isf else orig
                ok = ok and len(hits) == 1 and got == want
        ok = ok and seen[True] > 0 and seen[False] > 0
    chk.ob('FUT-unwrap', od, ok, 'a loop future resolving to a loop future is mirrored recursively, the final value is delivered', kind='nested-converted')
    # "a loop future" is what that isinstance test accepts: plumpy's ``futures.Future`` IS ``asyncio.Future``, so tasks, loop.create_future() and wrapped
    # futures all count.  Made a class of its own, only plumpy's instances do: a coroutine answering with a plain asyncio future / task is delivered as
    # the future OBJECT, the caller never sees the inner value, error or cancellation
    fm = prog.module('futures')
    fv = fm.constants.get('Future')
    okf = fv is not None and norm(fv) in ('asyncio.Future', 'asyncio.futures.Future')
    test_cls = [norm(m.ast.test) for m in tests]
    uses_alias = bool(test_cls) and all(('futures.Future' in t or 'asyncio.Future' in t) for t in test_cls)
    chk.ob('FUT-unwrap', 'futures.Future', (okf or not any('futures.Future' in t for t in test_cls)) and uses_alias,
           'the nested-future test recognises every asyncio future (futures.Future is asyncio.Future itself)' if okf else
           'futures.Future is no longer asyncio.Future itself: the nested-future test of the mirror misses loop futures that are not instances of the new class',
           kind='loop-future-is-asyncio-future', expr='Future')
    rc = prog.view(prog.func('processes.Process._schedule_rpc.run_callback'))
    # ``while isfuture(x): x = await x`` on the very variable that is then set as the reply (whatever it is called, helper inlined)
    ok = False
    for w_ in [n for n in ast.walk(rc.node) if isinstance(n, ast.While)]:
        t_ = w_.test
        if isinstance(t_, ast.Call) and last_name(t_) == 'isfuture' and len(t_.args) == 1 and isinstance(t_.args[0], ast.Name):
            x_ = t_.args[0].id
            awaited = any(isinstance(s, ast.Assign) and norm(s.targets[0]) == x_ and isinstance(s.value, ast.Await) and norm(s.value.value) == x_ for s in w_.body)
            replied = any(isinstance(c, ast.Call) and last_name(c) == 'set_result' and [norm(a) for a in c.args] == [x_] for c in ast.walk(rc.node))
            ok = ok or (awaited and replied)
    chk.ob('FUT-unwrap', rc, ok, 'a control call returning a future (deferred kill / pause) is awaited to its final value before replying',
           kind='await-nested')
    outer = prog.func('processes.Process._schedule_rpc')
    cb = [c for c in calls_in_func(rc) if isinstance(c.func, ast.Name) and c.func.id == outer.params[1]]
    va, kw = outer.node.args.vararg, outer.node.args.kwarg
    ok = len(cb) == 1 and va is not None and kw is not None and [norm(a) for a in cb[0].args] == [f'*{va.arg}'] and [
        (k.arg, norm(k.value)) for k in cb[0].keywords] == [(None, kw.arg)]
    chk.ob('FWD-rpc-args', rc, ok, 'the scheduled control call receives exactly the positional and keyword arguments given', node=cb[0] if cb else rc.node,
           kind='callback-args')

    # CancellableAction.run: run-once guard, action inside capture_exceptions(self), outcome through self
    run_f = prog.func('futures.CancellableAction.run')
    ff = chk.ctx.facts.analyse(run_f)
    acts = [c for c in calls_in_func(run_f) if norm(c.func) == 'self._action']
    # (the action kept in some other shape -- an element of a tuple, a field of a holder -- is not something these rules can read: say so rather than judge)
    chk.need(bool(acts) or not any('_action' in norm(c.func) for c in calls_in_func(run_f)), 'CancellableAction.run no longer calls self._action as such: the run-once rules cannot be translated')
    chk.ob('FUT-run-once', run_f, len(acts) == 1, 'the action is called at one site', kind='single-call-site')
    if acts:
        ok = all(pending(fs, 'self') for _, fs in ff.site_facts(acts[0]))
        chk.ob('FUT-run-once', run_f, ok, 'the action runs only while the action future is pending (a second run, or a run after '
               'cancel, raises instead)', node=acts[0], kind='pending-guard')
        cfg = ff.cfg
        # refusal branch raises
        # decision table over ``self.done()`` = True: every way through run() ends in a raise, and the action is not called on it
        from ..decisions import paths_under
        act_nodes = {m.id for m in cfg.nodes_containing(acts[0])}
        done_paths = paths_under(ff, {'self.done()': True})
        chk.ob('FUT-run-once', run_f, bool(done_paths) and all(p[-1] is cfg.raise_exit and not any(m.id in act_nodes for m in p) for p in done_paths),
               'run() on a finished / cancelled action raises', kind='refuses-when-done')
        withs = [w for w in ast.walk(run_f.node) if isinstance(w, ast.With) and any(
            isinstance(i.context_expr, ast.Call) and last_name(i.context_expr) == 'capture_exceptions' and [norm(a) for a in i.context_expr.args] == ['self'] and not i.context_expr.keywords
            for i in w.items)]
        inside = bool(withs) and any(acts[0] is x for w in withs for x in ast.walk(w))
        chk.ob('FUT-run-once', run_f, inside, 'the action runs inside capture_exceptions(self): its failure becomes the action\'s outcome',
               node=acts[0], kind='captured-into-self')
        sr = [c for c in calls_in_func(run_f, 'set_result') if norm(c.func.value) == 'self']
        from ..rules import Resolver
        ok = len(sr) == 1 and len(sr[0].args) == 1 and (any(acts[0] is x for x in ast.walk(sr[0].args[0])) or Resolver(run_f).text(sr[0].args[0]) == norm(acts[0]))
        chk.ob('FUT-run-once', run_f, ok, 'the action\'s return value is the action future\'s result', node=sr[0] if sr else run_f.node,
               kind='result-through-self')
        va, kw = run_f.node.args.vararg, run_f.node.args.kwarg
        ok = va is not None and kw is not None and [norm(a) for a in acts[0].args] == [f'*{va.arg}'] and [
            (k.arg, norm(k.value)) for k in acts[0].keywords] == [(None, kw.arg)]
        chk.ob('FWD-rpc-args', run_f, ok, 'run(*args, **kwargs) hands all its arguments to the action', node=acts[0], kind='action-args')
    chk.assumptions.append('the consumer does not resolve or cancel the output future first (outside the property\'s quantifier)')
