"""C17 -- launcher tasks do what they say or are rejected."""
from __future__ import annotations

import ast
from typing import Dict, List, Set

from ..cfg import cfg_of, no_exc
from ..model import AnalysisError, UNKNOWN, FuncInfo, norm, unparse, walk_shallow
from ..report import Check
from ..rules import branch_reaches_exit, calls_in_func, last_name

STEPPING = ('step_until_terminated', 'execute', 'step')


def _calls(n) -> List[ast.Call]:
    e = n.expr()
    return [x for x in walk_shallow(e) if isinstance(x, ast.Call)] if e is not None else []


def launcher_replies_after_stepping(chk: Check, rule: str) -> None:
    """With nowait the launcher schedules the process and replies with its id; otherwise it steps the process to completion and only THEN reads
    ``proc.future().result()`` -- the future the process has once it terminated (on_except / on_kill may have replaced an earlier one).  Shared with C02: the
    launcher's reply is one of the things that report the outcome."""
    prog = chk.prog
    pl = prog.cls('process_comms.ProcessLauncher')
    # nowait
    for handler in ('_launch', '_continue'):
        hf = prog.view(pl.vmethods[handler])
        cfg = cfg_of(hf)
        ff = chk.ctx.facts.analyse(hf)
        sched = [n for n in cfg.nodes if any(last_name(c) in ('ensure_future', 'create_task') and 'proc.step_until_terminated()' in norm(c) for c in _calls(n))]
        awaits = [n for n in cfg.nodes if n.expr() is not None and any(isinstance(x, ast.Await) and norm(x.value) == 'proc.step_until_terminated()' for x in walk_shallow(n.expr()))]
        ok = len(sched) == 1 and ('T', 'nowait') in ff.at(sched[0]) and len(awaits) == 1 and ('F', 'nowait') in ff.at(awaits[0])
        chk.ob(rule, hf, ok, f'{handler}: with nowait the process is scheduled, otherwise it is stepped to completion before replying', kind='nowait-branches')
        rets = [n for n in cfg.nodes if n.kind == 'return']
        pid_rets = [r for r in rets if norm(r.ast.value) == 'proc.pid']
        res_rets = [r for r in rets if norm(r.ast.value) == 'proc.future().result()']
        ok = len(pid_rets) == 1 and len(res_rets) == 1 and bool(sched) and bool(awaits) and pid_rets[0].id in cfg.reachable(sched, edge_ok=no_exc) and res_rets[0].id in cfg.reachable(awaits, edge_ok=no_exc) \
            and pid_rets[0].id not in cfg.reachable(awaits, edge_ok=no_exc)
        chk.ob(rule, hf, ok, f'{handler}: nowait replies with the id immediately; otherwise the reply is the process\'s outputs or its error (future().result())', kind='replies')


def continued_with_launcher_context(chk: Check, rule: str) -> None:
    """A continued process is rebuilt with the launcher's own load context -- its loop, its loader and its COMMUNICATOR: not a context extended with whatever
    communicator happened to deliver the task (shared with C16: a continued process is reachable, and announces itself, over the configured communicator)."""
    prog = chk.prog
    pl = prog.cls('process_comms.ProcessLauncher')
    cf = prog.view(pl.vmethods['_continue'])
    ub = [c for c in calls_in_func(cf, 'unbundle')]
    ok = len(ub) == 1 and norm(ub[0].func.value) == 'saved_state' and [norm(a) for a in ub[0].args] == ['self._load_context']
    chk.ob(rule, cf, ok, 'the process is rebuilt from that checkpoint with the launcher\'s load context', kind='unbundle-with-context')


def run(chk: Check) -> None:
    prog = chk.prog
    pc = prog.module('process_comms')
    # "persisting it first ... continue resumes exactly the persisted checkpoint": what the persister stores is detached from the process that goes on
    # running (shared with C14); "the configured loader is the one used": a loader in the load context wins over one named in the saved state (shared with C19)
    from .c14 import snapshot_isolation
    from .c19 import loader_precedence
    snapshot_isolation(chk)
    loader_precedence(chk, 'PROV-loader')
    from .c19 import class_loaded_by_loader
    class_loaded_by_loader(chk, 'PROV-loader')
    # "a continue task resumes exactly the persisted checkpoint": every field of the process is saved under a key and restored from it (shared with C07 / C08)
    from .c07 import persisted_fields
    persisted_fields(chk)
    # ... and what is left out of a checkpoint is what the loader fills in again (an empty mapping skipped on truthiness comes back as None in the continued process)
    from .c07 import falsy_values_survive
    falsy_values_survive(chk, 'SYM-persisted-field')
    pl = prog.cls('process_comms.ProcessLauncher')
    call = prog.view(pl.vmethods['__call__'])
    # 1. DISP
    tparam = call.params[2]
    subj = None
    for n in ast.walk(call.node):
        if isinstance(n, ast.Assign) and isinstance(n.value, ast.Subscript) and norm(n.value.value) == tparam and prog.fold(pc, n.value.slice) == 'task':
            subj = norm(n.targets[0])
    chk.ob('DISP-task', call, subj is not None, 'tasks are dispatched on the value stored under TASK_KEY', kind='subject')
    want = {'launch': '_launch', 'continue': '_continue', 'create': '_create'}
    from ..decisions import dispatch_table
    cff = chk.ctx.facts.analyse(call)
    consts = {k: k for k in want}
    tab = dispatch_table(cff, subj or 'task_type', consts, lambda c: last_name(c) in want.values())
    for k, h in want.items():
        outs = tab.get(k, [])
        got_h = sorted({o[1] for o in outs if o[0] == 'call'} | {o[0] for o in outs if o[0] != 'call'})
        chk.ob('DISP-task', call, bool(outs) and all(o[0] == 'call' and o[1] == f'self.{h}' and o[6] for o in outs), f'task type {k!r} is handled by {h} and its reply returned (got {got_h})',
               kind=f'dispatch:{k}', expr=k)
        for o in outs:
            if o[0] != 'call':
                continue
            kws = dict(o[3])
            v = kws.get('**', '')
            ok = list(o[2]) == [call.params[1]] and set(kws) == {'**'} and v.startswith(f'{tparam}.get(') and v.replace('TASK_ARGS', "'args'").replace("process_comms.", '') in (
                f"{tparam}.get('args', {{}})",)
            chk.ob('DISP-task', call, ok, f'task type {k!r}: the handler is awaited with the communicator and **task[TASK_ARGS]', node=o[5], kind=f'handler-args:{k}')
    none = tab.get(None, [])
    chk.ob('DISP-task', call, bool(none) and all(o[0] == 'raise' and 'TaskRejected' in o[1] for o in none), 'any other task type is rejected (TaskRejected), not executed as something else',
           kind='unknown-rejected')
    # TaskRejected is kiwipy's
    chk.ob('DISP-task', 'communications.TaskRejected', norm(prog.module('communications').constants.get('TaskRejected')) == 'kiwipy.TaskRejected', 'TaskRejected is the communicator\'s rejection', kind='rejection-type')

    # 2. body / handler agreement
    for body_fn, handler, task in (('create_launch_body', '_launch', 'launch'), ('create_continue_body', '_continue', 'continue'), ('create_create_body', '_create', 'create')):
        bf = prog.func(f'process_comms.{body_fn}')
        hf = prog.view(pl.vmethods[handler])
        dicts = [n for n in ast.walk(bf.node) if isinstance(n, ast.Dict)]
        outer = None
        for d in dicts:
            keys = [prog.fold(pc, k) for k in d.keys if k is not None]
            if 'task' in keys and 'args' in keys:
                outer = d
        from ..rules import Resolver
        rbf = Resolver(bf)
        if outer is None or True:
            # the dictionary RETURNED, with locals (``task_args = {...}``, ``class_id = ...``) spelled out
            rets_b = [r for r in ast.walk(bf.node) if isinstance(r, ast.Return) and r.value is not None]
            exp = rbf.expand(rets_b[0].value) if len(rets_b) == 1 else None
            if isinstance(exp, ast.Dict):
                outer = exp
        chk.need(outer is not None, f'{body_fn}: message body dict not found')
        items = {prog.fold(pc, k): v for k, v in zip(outer.keys, outer.values)}
        chk.ob('TAB-body-handler', bf, prog.fold(pc, items['task']) == task, f'{body_fn} labels the task {task!r}', kind='task-type')
        args = items['args']
        keys = {prog.fold(pc, k): v for k, v in zip(args.keys, args.values)} if isinstance(args, ast.Dict) else {}
        a = hf.node.args
        params = [x.arg for x in a.args][2:]  # after self, communicator
        n_def = len(a.defaults)
        required = params[: len(params) - n_def] if n_def else params
        unknown = [k for k in keys if k not in params]
        missing = [p for p in required if p not in keys]
        chk.ob('TAB-body-handler', bf, not unknown and not missing, f'every key of the {task} body is a parameter of {handler} and every required parameter is supplied '
               f'(keys {sorted(map(str, keys))}; parameters {params}; unknown {unknown}; missing {missing})', kind='keys-match-parameters')
        # each key carries the builder argument of the same meaning
        same = {'persist': 'persist', 'nowait': 'nowait', 'init_args': 'init_args', 'init_kwargs': 'init_kwargs', 'pid': 'pid', 'tag': 'tag'}
        for k, v in keys.items():
            if k in same:
                chk.ob('TAB-body-handler', bf, norm(v) == same[k], f'{task} body: {k!r} carries the builder\'s {same[k]} (got {norm(v)})', kind=f'value:{k}', expr=str(k))
            elif k == 'process_class':
                # identified by the loader given -- or, where none was given, the default one (through the re-bound parameter or a local)
                okv = isinstance(v, ast.Call) and last_name(v) == 'identify_object' and [norm(a_) for a_ in v.args] == [bf.params[0]] and isinstance(v.func, ast.Attribute)
                if okv and norm(v.func.value) != 'loader':
                    from ..rules import conditional_values as _cv2
                    from ..facts import is_none as _is_none2
                    vals_ = _cv2(chk.ctx.facts.analyse(bf), norm(v.func.value)) if isinstance(v.func.value, ast.Name) else []
                    okv = bool(vals_) and all(norm(x) == 'loader' or (norm(x) == 'loaders.get_object_loader()' and _is_none2(fs, 'loader')) for fs, x in vals_)
                chk.ob('TAB-body-handler', bf, okv, 'the process class travels as the identifier given by the chosen loader', kind='value:process_class', expr='process_class')

    # 3. rejection guards, 4. persist before run / create does not run, 5. loader
    for handler in ('_launch', '_create'):
        hf = prog.view(pl.vmethods[handler])
        cfg = cfg_of(hf)
        ff = chk.ctx.facts.analyse(hf)
        ctor = [n for n in cfg.nodes if any(isinstance(c.func, ast.Name) and c.func.id == 'proc_class' for c in _calls(n))]
        chk.ob('GUARD-rejection', hf, len(ctor) == 1, f'{handler} constructs the process at one site', kind='ctor-site')
        rej = [t for t in cfg.nodes if t.kind == 'test' and norm(t.ast.test) in ('persist and (not self._persister)', 'persist and not self._persister', 'persist and self._persister is None')]
        ok = len(rej) == 1 and not branch_reaches_exit(cfg, rej[0], 'true') and all(cfg.must_pass(cfg.entry, [c], lambda m: m in rej, edge_ok=no_exc) for c in ctor)
        raises = [n for n in cfg.nodes if n.kind == 'raisestmt' and 'TaskRejected' in norm(n.ast.exc)]
        if not ok and ctor:
            # however the guard is spelled (nested ifs, a flag, early logging): with "persist asked, no persister" no normal path reaches the constructor -- every one
            # ends in the rejection -- and without that combination the constructor is reached
            from ..decisions import paths_under as _pu
            try:
                bad_paths = _pu(ff, {'persist': True, 'self._persister': False, 'self._persister is None': True})
                fine_paths = _pu(ff, {'persist': False})
                ok = bool(bad_paths) and not any(m in ctor for p_ in bad_paths for m in p_) and all(any(m.kind == 'raisestmt' and 'TaskRejected' in norm(m.ast.exc) for m in p_) for p_ in bad_paths) \
                    and any(m in ctor for p_ in fine_paths for m in p_)
            except RuntimeError:
                ok = False
        chk.ob('GUARD-rejection', hf, ok and bool(raises), f'{handler}: persisting without a persister is rejected before the process is constructed', kind='persist-needs-persister')
        saves = [n for n in cfg.nodes if any(norm(c.func) == 'self._persister.save_checkpoint' for c in _calls(n))]
        ok = len(saves) == 1 and ('T', 'persist') in ff.at(saves[0])
        if ok:
            c = [c for c in _calls(saves[0]) if last_name(c) == 'save_checkpoint'][0]
            ok = [norm(a) for a in c.args] == ['proc']
        chk.ob('DOM-persist-before-run', hf, ok, f'{handler}: the new process is persisted exactly when asked', kind='persist-iff-asked')
        # persisted on every path where asked: every path from ctor to exit with persist true passes save -> approximate: save node test is on all paths
        tests = [t for t in cfg.nodes if t.kind == 'test' and ('T', 'persist') in ff.cond_atoms(t.ast.test, True) and t not in rej]
        ok = bool(tests) and bool(ctor) and cfg.must_pass(ctor[0], [cfg.exit], lambda m: m in tests, edge_ok=no_exc)
        chk.ob('DOM-persist-before-run', hf, ok, f'{handler}: the persist decision is taken on every path after construction', kind='persist-decision-on-all-paths')
        steps = [n for n in cfg.nodes if any(last_name(c) in STEPPING and norm(c.func.value) == 'proc' for c in _calls(n) if isinstance(c.func, ast.Attribute))]
        if handler == '_create':
            chk.ob('DOM-persist-before-run', hf, not steps, 'a create task never steps the process', kind='create-does-not-run')
            rets = [n for n in cfg.nodes if n.kind == 'return']
            from ..rules import Resolver as _Res
            res_h = _Res(hf)
            built = [norm(n.ast.targets[0]) for n in ctor if n.kind == 'stmt' and isinstance(n.ast, ast.Assign) and len(n.ast.targets) == 1 and isinstance(n.ast.targets[0], ast.Name)]
            ok = bool(rets) and len(built) == 1 and all(r.ast.value is not None and res_h.text(r.ast.value) == res_h.text(ast.Attribute(value=ast.Name(id=built[0], ctx=ast.Load()), attr='pid', ctx=ast.Load())) for r in rets)
            chk.ob('DOM-persist-before-run', hf, ok, 'a create task replies with the process id', kind='create-returns-pid')
        else:
            ok = bool(steps) and bool(tests) and all(cfg.must_pass(cfg.entry, [s], lambda m: m in tests, edge_ok=no_exc) for s in steps) and all(
                not (s.id in cfg.reachable([x], edge_ok=no_exc)) for x in steps for s in saves)
            chk.ob('DOM-persist-before-run', hf, ok, 'a launch task persists (when asked) before any stepping starts', kind='persist-precedes-stepping')
        lo = [c for c in calls_in_func(hf, 'load_object')]
        ok = len(lo) == 1 and norm(lo[0].func) == 'self._loader.load_object' and [norm(a) for a in lo[0].args] == [hf.params[2]]
        chk.ob('PROV-loader', hf, ok, f'{handler}: the class is loaded from the task\'s identifier with the configured loader', kind='class-by-configured-loader')
        if ctor:
            # the class constructed is, on EVERY path, what this launcher's loader returns for the task's identifier (not a remembered one)
            from ..decisions import paths_under, value_on_path
            want = f'self._loader.load_object({hf.params[2]})'
            got = set()
            try:
                for path in paths_under(ff, {}):
                    idx = [i for i, m in enumerate(path) if m is ctor[0]]
                    if idx:
                        got.add(norm(value_on_path(path, idx[0], ast.Name(id='proc_class', ctx=ast.Load()))))
            except RuntimeError:
                got.add('<too many paths>')
            # (a per-INSTANCE memo filled only from this launcher's loader is the same thing; a class-level one is shared between launchers)
            init_f = pl.vmethods.get('__init__')
            inst_attrs = {t.attr for n in ast.walk(init_f.node) if isinstance(n, (ast.Assign, ast.AnnAssign)) for t in (n.targets if isinstance(n, ast.Assign) else [n.target])
                          if isinstance(t, ast.Attribute) and norm(t.value) == 'self'} if init_f is not None else set()
            memo_ok = set()
            for a in inst_attrs:
                stores = [n for f_ in pl.emethods.values() for n in ast.walk(f_.node) if isinstance(n, ast.Assign) and any(isinstance(t, ast.Subscript) and norm(t.value) == f'self.{a}' for t in n.targets)]
                if stores and all(isinstance(n.value, ast.Call) and norm(n.value.func) == 'self._loader.load_object' for n in stores):
                    memo_ok.add(f'self.{a}[{hf.params[2]}]')
            ok_cls = bool(got) and (got - memo_ok) <= {want}
            chk.ob('PROV-loader', hf, ok_cls, f'{handler}: on every path the class constructed is {want} (found: {sorted(got)}) -- a class remembered from an earlier task was '
                   'resolved by whichever launcher / loader came first', node=ctor[0].ast, kind='class-from-loader-on-every-path')
            c = [c for c in _calls(ctor[0]) if isinstance(c.func, ast.Name) and c.func.id == 'proc_class'][0]
            # ``*init_args, **init_kwargs`` -- or locals that stand for them with the None case filled in (``args = () if init_args is None else init_args``)
            from ..rules import conditional_values as _cv
            from ..facts import is_none as _is_none

            def stands_for(e, param, empties):
                if norm(e) == param:
                    return True
                vals_ = _cv(ff, norm(e)) if isinstance(e, ast.Name) else []
                if isinstance(e, ast.IfExp):   # the None case filled in on the spot
                    vals_ = [(frozenset(ff.cond_atoms(e.test, True)), e.body), (frozenset(ff.cond_atoms(e.test, False)), e.orelse)]
                return bool(vals_) and all(norm(v) == param or (norm(v) in empties and _is_none(fs, param)) for fs, v in vals_)
            ok = (len(c.args) == 1 and isinstance(c.args[0], ast.Starred) and stands_for(c.args[0].value, 'init_args', ('()', 'tuple()', '[]'))
                  and len(c.keywords) == 1 and c.keywords[0].arg is None and stands_for(c.keywords[0].value, 'init_kwargs', ('{}', 'dict()')))
            chk.ob('PROV-loader', hf, ok, f'{handler}: constructed with exactly the task\'s positional and keyword arguments', node=c, kind='ctor-args')
    # "a persister is configured" is asked by TRUTH VALUE (``if not self._persister``): that is "is not None" only as long as no persister class gives its
    # instances a truth value of their own -- with __len__ / __bool__ an EMPTY persister is "no persister" and persisting tasks are rejected
    truth_tests = []
    for hname in ('_launch', '_create', '_continue'):
        hf_ = prog.view(pl.vmethods[hname])
        ffh = chk.ctx.facts.analyse(hf_)
        for t_ in ffh.cfg.nodes:
            if t_.kind == 'test' and (('T', 'self._persister') in ffh.cond_atoms(t_.ast.test, True) | ffh.cond_atoms(t_.ast.test, False)
                                      or ('F', 'self._persister') in ffh.cond_atoms(t_.ast.test, True) | ffh.cond_atoms(t_.ast.test, False)):
                truth_tests.append((hf_, t_))
    if truth_tests:
        base_p = prog.cls('persistence.Persister')
        for k_ in [base_p] + prog.subclasses(base_p):
            own = [m_ for m_ in ('__len__', '__bool__') if k_.lookup(m_) is not None]
            chk.ob('GUARD-rejection', k_.qualname, not own, f'{k_.name} instances have no truth value of their own (the launcher asks "is a persister configured" with `not self._persister` in '
                   f'{sorted({h.name for h, _ in truth_tests})})' + ('' if not own else f': it defines {own}, so a persister that holds nothing yet is taken for "no persister" and every persisting / '
                   'continue task is rejected'), kind='persister-truth-is-presence', expr=k_.name)
    launcher_replies_after_stepping(chk, 'DOM-nowait')
    # _continue
    cf = prog.view(pl.vmethods['_continue'])
    cfg = cfg_of(cf)
    rej = [t for t in cfg.nodes if t.kind == 'test' and norm(t.ast.test) in ('not self._persister', 'self._persister is None')]
    loads = [n for n in cfg.nodes if any(norm(c.func) == 'self._persister.load_checkpoint' for c in _calls(n))]
    ok = len(rej) == 1 and not branch_reaches_exit(cfg, rej[0], 'true') and len(loads) == 1 and cfg.must_pass(cfg.entry, loads, lambda m: m in rej, edge_ok=no_exc)
    chk.ob('GUARD-rejection', cf, ok, 'continuing without a persister is rejected before anything is loaded', kind='continue-needs-persister')
    if loads:
        c = [c for c in _calls(loads[0]) if last_name(c) == 'load_checkpoint'][0]
        chk.ob('FWD-continue', cf, [norm(a) for a in c.args] == [cf.params[2], cf.params[4]], 'the checkpoint loaded is exactly (pid, tag) of the task', node=c, kind='loads-pid-tag')
    continued_with_launcher_context(chk, 'PROV-loader')
    init = prog.view(pl.vmethods['__init__'])
    ff = chk.ctx.facts.analyse(init)
    icfg = ff.cfg
    # decision table over "a loader was given": what self._loader and self._load_context hold when __init__ returns, on every path (locals spelled out along the path)
    from ..decisions import paths_under as _pu, value_on_path as _vop
    lparam = 'loader'

    def final(path, attr):
        idx = [i for i, m in enumerate(path) if m.kind == 'stmt' and isinstance(m.ast, (ast.Assign, ast.AnnAssign)) and m.ast.value is not None
               and norm(m.ast.targets[0] if isinstance(m.ast, ast.Assign) else m.ast.target) == attr]
        return _vop(path, idx[-1], path[idx[-1]].ast.value) if idx else None
    ok = lparam in init.params
    seen = {True: 0, False: 0}
    for none_ in (True, False):
        for path in (_pu(ff, {f'{lparam} is None': none_}, frozen=[lparam]) if ok else []):
            if path[-1] is not icfg.exit:
                continue
            seen[none_] += 1
            lv, cv = final(path, 'self._loader'), final(path, 'self._load_context')
            if none_:
                ok = ok and lv is not None and norm(lv).endswith('get_object_loader()')
            else:
                ext_ = isinstance(cv, ast.Call) and isinstance(cv.func, ast.Attribute) and cv.func.attr == 'copyextend' and any(k.arg == 'loader' and norm(k.value) == lparam for k in cv.keywords)
                ok = ok and lv is not None and norm(lv) == lparam and ext_
    ok = ok and seen[True] > 0 and seen[False] > 0
    chk.ob('PROV-loader', init, ok, 'a configured loader is used for loading classes AND put into the load context; without one the global default is used', kind='loader-configured')
    pers = [n for n in ast.walk(init.node) if isinstance(n, ast.Assign) and norm(n.targets[0]) == 'self._persister']
    chk.ob('PROV-loader', init, len(pers) == 1 and norm(pers[0].value) == init.params[2], 'the persister used is the one configured', kind='persister-configured')
    chk.assumptions.append('what the launched / continued process then does is the subject of the process properties, not of C17')
