"""C15 -- exposing ports copies exactly the selected ports, independently of the source."""
from __future__ import annotations

import ast
from typing import List

from ..cfg import cfg_of, no_exc
from ..model import AnalysisError, norm, unparse, walk_shallow
from ..report import Check
from ..rules import calls_in_func, last_name, branch_reaches_exit


def _calls(n) -> List[ast.Call]:
    e = n.expr()
    return [x for x in walk_shallow(e) if isinstance(x, ast.Call)] if e is not None else []


def ends_with_separator(f, e: ast.expr) -> bool:
    """Does the string expression provably end with the namespace separator?  f'{x}{sep}', x + sep, a local assigned so."""
    if isinstance(e, ast.Name):
        vals = [n.value for n in ast.walk(f.node) if isinstance(n, ast.Assign) and norm(n.targets[0]) == e.id]
        return len(vals) == 1 and ends_with_separator(f, vals[0])
    if isinstance(e, ast.JoinedStr) and e.values:
        last = e.values[-1]
        if isinstance(last, ast.FormattedValue):
            return 'separator' in norm(last.value).lower()
        if isinstance(last, ast.Constant):
            return str(last.value).endswith('.')
    if isinstance(e, ast.BinOp) and isinstance(e.op, ast.Add):
        r = e.right
        return 'separator' in norm(r).lower() or (isinstance(r, ast.Constant) and str(r.value).endswith('.'))
    # '{}{}'.format(name, separator) / '%s%s' % (name, separator) / ''.join((name, separator))
    if isinstance(e, ast.Call) and isinstance(e.func, ast.Attribute) and e.func.attr == 'format' and isinstance(e.func.value, ast.Constant) and isinstance(e.func.value.value, str) \
            and not e.keywords and e.args:
        t = e.func.value.value
        if t.endswith('{}') and t.count('{') == len(e.args):
            return 'separator' in norm(e.args[-1]).lower()
        return t.endswith('.')
    if isinstance(e, ast.BinOp) and isinstance(e.op, ast.Mod) and isinstance(e.left, ast.Constant) and isinstance(e.left.value, str):
        t = e.left.value
        args = e.right.elts if isinstance(e.right, ast.Tuple) else [e.right]
        if t.endswith('%s') and t.count('%') == len(args):
            return 'separator' in norm(args[-1]).lower()
        return t.endswith('.')
    if isinstance(e, ast.Call) and isinstance(e.func, ast.Attribute) and e.func.attr == 'join' and isinstance(e.func.value, ast.Constant) and e.func.value.value == '' \
            and len(e.args) == 1 and isinstance(e.args[0], (ast.Tuple, ast.List)) and e.args[0].elts:
        return 'separator' in norm(e.args[0].elts[-1]).lower()
    return False


def namespace_created_only_if_absent(chk: Check, rule: str) -> None:
    prog = chk.prog
    # create_port_namespace: "the (sub) namespace does not exist yet" is a question of MEMBERSHIP.  A port namespace is a container -- an existing one that holds no
    # ports yet is falsy -- so a truthiness test on the looked-up object replaces it (with its properties and whatever was exposed into it before)
    cpn = prog.func('ports.PortNamespace.create_port_namespace')
    fcp = chk.ctx.facts.analyse(cpn)
    st_ = [m for m in fcp.cfg.nodes if m.kind == 'stmt' and isinstance(m.ast, ast.Assign) and isinstance(m.ast.targets[0], ast.Subscript) and norm(m.ast.targets[0].value) in ('self', 'self._ports')]
    chk.floor('PROV-namespace-options:create-stores', len(st_), 1)
    for m in st_:
        key_ = norm(m.ast.targets[0].slice)
        absent = any(a[0] == 'F' and a[1] in (f'{key_} in self', f'{key_} in self._ports', f'{key_} in self.ports') for a in fcp.at(m)) or any(
            a[0] == 'none' and any(isinstance(x, (ast.Assign,)) and norm(x.targets[0]) == a[1] and isinstance(x.value, ast.Call) and norm(x.value.func) in ('self._ports.get', 'self.ports.get', 'self.get')
                                   and len(x.value.args) == 1 for x in ast.walk(cpn.node)) for a in fcp.at(m))
        chk.ob(rule, cpn, absent, f'a namespace is created under {key_!r} only where nothing is stored under that name (membership / "is None" of a lookup -- not the truth value '
               'of the object found: an existing but still empty namespace is falsy and would be replaced)', node=m.ast, kind='create-only-if-absent')


def absorbed_ports_are_copies(chk: Check, rule: str):
    """What absorb stores in the destination is a copy of the source port; a shallow-copied namespace gets a fresh port container before the recursive absorb fills
    it.  Shared with C12: a class that exposes the outputs of another and then adapts its own spec must not change what the other class accepts."""
    prog = chk.prog
    ab = prog.func('ports.PortNamespace.absorb')
    cfg = cfg_of(ab)
    src = ab.params[1]  # port_namespace
    # 2. copies only
    stores = [n for n in cfg.nodes if n.kind == 'stmt' and isinstance(n.ast, ast.Assign) and any(isinstance(t, ast.Subscript) and norm(t.value) == 'self' for t in n.ast.targets)]
    chk.floor(rule, len(stores), 2)
    loop = [l for l in ast.walk(ab.node) if isinstance(l, ast.For) and norm(l.iter) in (f'{src}.items()', f'{src}._ports.items()', f'{src}.ports.items()')]
    chk.need(len(loop) == 1, 'the loop over the source ports was not found in absorb')
    pvar = loop[0].target.elts[1].id if isinstance(loop[0].target, ast.Tuple) else ''
    for s in stores:
        v = s.ast.value
        ok = isinstance(v, ast.Call) and norm(v.func) in ('copy.copy', 'copy.deepcopy') and [norm(a) for a in v.args] == [pvar]
        chk.ob(rule, ab, ok, f'what is stored in the destination is a copy of the source port ({norm(v)}): later changes to either spec do not show through',
               node=s.ast, kind='stored-value-is-copy')
        if ok and norm(v.func) == 'copy.copy':
            # a shallow-copied namespace shares its _ports dict with the source: it must get a fresh container before anything is absorbed into it
            resets = [n for n in cfg.nodes if n.kind == 'stmt' and isinstance(n.ast, ast.Assign) and norm(n.ast.targets[0]).endswith('._ports') and norm(n.ast.value) in ('{}', 'dict()')]
            absorbs = [n for n in cfg.nodes if any(last_name(c) == 'absorb' for c in _calls(n))]
            # from the shallow copy every way onwards (next port, or the end of absorb) passes the reset AND the recursive absorb
            onward = [n for n in cfg.nodes if n.kind == 'iter'] + [cfg.exit]
            ok2 = bool(resets) and bool(absorbs) and all(cfg.must_pass(s, [a], lambda x: x in resets, edge_ok=no_exc) for a in absorbs) and \
                cfg.must_pass(s, onward, lambda x: x in resets, edge_ok=no_exc) and cfg.must_pass(s, onward, lambda x: x in absorbs, edge_ok=no_exc)
            chk.ob(rule, ab, ok2, 'the shallow-copied namespace receives a fresh port container before the recursive absorb fills it (otherwise it would write into '
                   'the source namespace\'s own container)', node=s.ast, kind='fresh-container')
            # the object reset / absorbed into is the copy just stored
            rec = [c for a in absorbs for c in _calls(a) if last_name(c) == 'absorb']
            ok3 = len(rec) == 1 and [norm(a) for a in rec[0].args[:1]] == [pvar]
            chk.ob(rule, ab, ok3, 'the recursion absorbs the source sub-namespace', node=rec[0] if rec else None, kind='recursion-source')
    return stores, pvar


def run(chk: Check) -> None:
    prog = chk.prog
    ab = prog.func('ports.PortNamespace.absorb')
    cfg = cfg_of(ab)
    ff = chk.ctx.facts.analyse(ab)
    src = ab.params[1]  # port_namespace

    # 1. include together with exclude is rejected before anything is mutated
    # decision table over (exclude given, include given): with both given every way through absorb ends in a raise and touches nothing
    # (however the test is spelled: ``a is not None and b is not None``, ``not (a is None or b is None)``, two nested ifs, a helper)
    from ..decisions import paths_under
    muts = [n for n in cfg.nodes if (n.kind == 'stmt' and isinstance(n.ast, ast.Assign) and any(isinstance(t, ast.Subscript) and norm(t.value) == 'self' for t in n.ast.targets))
            or any(norm(c.func) == 'setattr' and norm(c.args[0]) == 'self' for c in _calls(n))]
    both = paths_under(ff, {'exclude is None': False, 'include is None': False}, frozen=['exclude', 'include'])
    ok = bool(muts) and bool(both) and all(p[-1] is cfg.raise_exit and not any(m in muts for m in p) for p in both)
    one = paths_under(ff, {'exclude is None': True, 'include is None': False}, frozen=['exclude', 'include'])
    ok = ok and any(p[-1] is cfg.exit for p in one)
    chk.ob('DOM-mutually-exclusive', ab, ok, 'include together with exclude raises before the destination is touched', kind='absorb-rejects-first')
    ep = prog.func('process_spec.ProcessSpec._expose_ports')
    ecfg = cfg_of(ep)
    acts = [n for n in ecfg.nodes if any(last_name(c) in ('create_port_namespace', 'absorb') for c in _calls(n))]
    eff = chk.ctx.facts.analyse(ep)
    # the same table for _expose_ports: what absorb() refuses, _expose_ports must already have refused -- under the SAME condition (both given,
    # i.e. not None): a truthiness test on one of the rule sets leaves a path for exclude=() / include=() on which the target namespace is created
    # before absorb raises
    both2 = paths_under(eff, {'exclude is None': False, 'include is None': False}, frozen=['exclude', 'include'])
    leak = [p for p in both2 if any(m in acts for m in p)]
    ok = bool(acts) and bool(both2) and not leak
    chk.ob('DOM-mutually-exclusive', ep, ok, 'expose_* rejects the combination (both given, whatever their truth value) before creating the target namespace',
           node=next((m.ast for p in leak for m in p if m.kind == 'test'), None), kind='expose-rejects-first')
    one2 = paths_under(eff, {'exclude is None': True, 'include is None': False}, frozen=['exclude', 'include'])
    chk.ob('DOM-mutually-exclusive', ep, any(any(m in acts for m in p) for p in one2), 'one of the two alone is accepted', kind='rejection-tests-agree')

    # 2. copies only
    stores, pvar = absorbed_ports_are_copies(chk, 'PROV-copies-only')
    # 3. segment-exact rule matching
    n_cmp = 0
    for f in (ab, prog.func('ports.PortNamespace.strip_namespace')):
        comp_calls = [c for n in ast.walk(f.node) if isinstance(n, (ast.ListComp, ast.GeneratorExp, ast.SetComp)) for g in n.generators for i in g.ifs for c in ast.walk(i)
                      if isinstance(c, ast.Call) and last_name(c) == 'startswith']
        for c in list(calls_in_func(f, 'startswith')) + [c for c in comp_calls if c not in calls_in_func(f, 'startswith')]:
            n_cmp += 1
            recv, arg = norm(c.func.value), c.args[0]
            ok = ends_with_separator(f, arg)
            # "rule == name or rule.startswith(name + sep)" is also exact
            chk.ob('SEG-exact-matching', f, ok, f'{recv}.startswith({norm(arg)}): ' + ('the argument ends with the namespace separator, so only the segment itself matches' if ok else
                   'a bare name as prefix also matches siblings whose name merely starts with it (rule "base2.y" selects sibling "base", and with its stripped rule list empty, all of it)'),
                   node=c, kind='startswith-needs-separator')
        for n in ast.walk(f.node):
            if isinstance(n, ast.Compare) and any(isinstance(op, (ast.In, ast.NotIn)) for op in n.ops):
                if norm(n.comparators[0]) in ('exclude', 'include') and norm(n.left) == 'port_name':
                    n_cmp += 1
                    chk.ob('SEG-exact-matching', f, True, f'"{norm(n)}": membership of the whole name', node=n, kind='membership')
    chk.floor('SEG-exact-matching', n_cmp, 3)
    sn = prog.func('ports.PortNamespace.strip_namespace')
    from ..rules import Resolver
    res_sn = Resolver(sn)
    slices = [n for n in ast.walk(sn.node) if isinstance(n, ast.Subscript) and isinstance(n.slice, ast.Slice) and n.slice.lower is not None
              and res_sn.text(n.slice.lower).startswith('len(') and n.slice.upper is None]
    sw = [c for c in calls_in_func(sn, 'startswith')] + [c for n in ast.walk(sn.node) if isinstance(n, (ast.ListComp, ast.GeneratorExp)) for g in n.generators for i in g.ifs
                                                         for c in ast.walk(i) if isinstance(c, ast.Call) and last_name(c) == 'startswith']
    ok = len(slices) == 1 and bool(sw) and all(res_sn.text(slices[0].slice.lower) == f'len({res_sn.text(c.args[0])})' and norm(slices[0].value) == norm(c.func.value) for c in sw)
    # (``rule.removeprefix(prefix)`` under ``rule.startswith(prefix)`` is the same cut)
    rp = [c for n in ast.walk(sn.node) for c in [n] if isinstance(c, ast.Call) and last_name(c) == 'removeprefix' and len(c.args) == 1]
    if not slices and len(rp) == 1 and sw:
        ok = all(res_sn.text(rp[0].args[0]) == res_sn.text(c.args[0]) and norm(rp[0].func.value) == norm(c.func.value) for c in sw)
    chk.ob('SEG-exact-matching', sn, ok, 'a matching rule is passed down with exactly the matched prefix removed', kind='strip-prefix')
    # "with the source namespace's properties": WHICH properties travel is decided by reflection (is_mutable_property: a class-level property with a setter):
    # every option a namespace can be constructed with (other than its name) must be such a property, or absorb silently stops carrying it and refuses it
    # as a namespace option
    pn_ = prog.cls('ports.PortNamespace')
    init_ = pn_.vmethods.get('__init__')
    setters_ = set()
    for k_ in pn_.mro_classes():
        for n_ in ast.walk(k_.node):
            if isinstance(n_, ast.FunctionDef) and any(isinstance(d, ast.Attribute) and d.attr == 'setter' for d in n_.decorator_list):
                setters_.add(n_.name)
    opts_ = [p_ for p_ in (init_.params[2:] if init_ is not None else [])]
    chk.floor('PROV-namespace-options:constructor-options', len(opts_), 5)
    for p_ in opts_:
        chk.ob('PROV-namespace-options', pn_.qualname, p_ in setters_, f'the namespace option {p_!r} is a property with a setter' + ('' if p_ in setters_ else
               ': absorb() copies only what is_mutable_property() finds, so an exposed namespace no longer takes this option from its source, and namespace_options={' + repr(p_) + ': ...} is rejected'),
               kind=f'option-is-mutable-property:{p_}', expr=p_)
    # exposed ports are deep copies of the source's: what a copied port compares by identity (the "no default" marker) must be the same object in the copy
    from .common import sentinels_are_unique_objects
    sentinels_are_unique_objects(chk, 'PROV-copies-only', parts=('copy',))
    namespace_created_only_if_absent(chk, 'PROV-namespace-options')
    # "with the source namespace's properties": absorb copies the mutable properties one by one through their setters; a setter that also writes ANOTHER
    # copied property makes the outcome depend on the order of the copy (alphabetical, from dir()): valid_type's setter switches dynamic on
    pn = prog.cls('ports.PortNamespace')
    setters = {}
    for k_ in pn.mro_classes():
        for m_ in k_.all_methods() if hasattr(k_, 'all_methods') else []:
            pass
    props = {}
    for k_ in reversed(pn.mro_classes()):
        for n_ in ast.walk(k_.node):
            if isinstance(n_, ast.FunctionDef) and any(isinstance(d, ast.Attribute) and d.attr == 'setter' for d in n_.decorator_list):
                props[n_.name] = (k_, n_)
    cross = []
    for name_, (k_, fn_) in props.items():
        for x in ast.walk(fn_):
            if isinstance(x, ast.Attribute) and isinstance(x.ctx, ast.Store) and isinstance(x.value, ast.Name) and x.value.id == 'self' and x.attr in props and x.attr != name_:
                cross.append((name_, x.attr, k_, x))
    for name_, other, k_, x in cross:
        chk.ob('PROV-namespace-options', f'{k_.qualname}.{name_}', False, f'the setter of {name_} also assigns the property {other}: copying the properties in alphabetical order, {other} is '
               f'{"overwritten afterwards" if other > name_ else "changed after it was copied"} -- the destination does not end up with the source\'s {other}', kind=f'setter-writes-other-property:{name_}->{other}', expr=f'{name_}.setter')
    chk.ob('PROV-namespace-options', pn.qualname, True, f'{len(props)} property setters examined for writes to other copied properties', kind='setter-scan', expr='setters')
    # the options dictionary belongs to the caller (the same one is commonly passed to expose_inputs and expose_outputs): absorb consumes a copy
    # (whatever the local that is consumed is called: it is the receiver of the mutating calls whose contents come from the parameter)
    cands = sorted({norm(c.func.value) for c in calls_in_func(ab) if isinstance(c.func, ast.Attribute) and isinstance(c.func.value, ast.Name) and c.func.attr in ('pop', 'popitem')})
    opt = cands[0] if cands else 'namespace_options'
    muts = [c for c in calls_in_func(ab) if isinstance(c.func, ast.Attribute) and norm(c.func.value) == opt and c.func.attr in ('pop', 'popitem', 'clear', 'update', 'setdefault', '__delitem__')]
    rebinds = [n for n in cfg.nodes if n.kind == 'stmt' and isinstance(n.ast, ast.Assign) and norm(n.ast.targets[0]) == opt]
    fresh_ = [n for n in rebinds if all(isinstance(v_, (ast.Dict,)) or (isinstance(v_, ast.Call) and norm(v_.func) in ('dict', 'copy.copy', 'copy.deepcopy')) or (isinstance(v_, ast.Call) and last_name(v_) == 'copy')
                                        for v_ in ([n.ast.value.body, n.ast.value.orelse] if isinstance(n.ast.value, ast.IfExp) else [n.ast.value]))]
    ok = all(cfg.must_pass(cfg.entry, [m], lambda x: x in fresh_, edge_ok=no_exc) for c in muts for m in cfg.nodes_containing(c))
    chk.ob('PROV-namespace-options', ab, ok, f'the {len(muts)} place(s) that consume entries of namespace_options work on a copy made inside absorb (the caller\'s dictionary is not emptied)',
           node=muts[0] if muts else None, kind='options-not-consumed-in-place')
    # polarity: what is kept are the rules that DO start with the prefix
    ffs = chk.ctx.facts.analyse(sn)
    keep_ok = False
    for c in calls_in_func(sn, 'append'):
        keep_ok = all(any(a[0] == 'T' and 'startswith(' in a[1] for a in fs) for _, fs in ffs.site_facts(c))
    for comp in [n for n in ast.walk(sn.node) if isinstance(n, (ast.ListComp, ast.GeneratorExp))]:
        for g in comp.generators:
            pos = [i for i in g.ifs for a in ffs.cond_atoms(i, True) if a[0] == 'T' and 'startswith(' in a[1]]
            keep_ok = keep_ok or bool(pos)
    chk.ob('SEG-exact-matching', sn, keep_ok, 'the rules kept for the sub-namespace are exactly those that start with its name plus the separator', kind='strip-keeps-matching')
    ffn = chk.ctx.facts.analyse(sn)
    rp = sn.params[2] if len(sn.params) > 2 else 'rules'
    rets_n = [n for n in ffn.cfg.nodes if n.kind == 'return']
    none_ok = any(('none', rp) in ffn.at(r) and norm(r.ast.value) in (rp, 'None') for r in rets_n) and all(
        ('notnone', rp) in ffn.at(r) or ('none', rp) in ffn.at(r) for r in rets_n)
    chk.ob('SEG-exact-matching', sn, none_ok, '"no rules" stays "no rules" (None is not turned into an empty list)', kind='none-preserved')
    # skip / descend decisions
    # decision table over (exclude given, name excluded, include given, name included / a rule names the namespace, is a namespace): stored or skipped
    from ..decisions import leaf as _leaf, paths_under as _paths, valuations as _vals
    ffa = chk.ctx.facts.analyse(ab)
    its = [m for m in ffa.cfg.nodes if m.kind == 'iter' and norm(m.ast.iter).endswith('.items()')]
    anyc = [c for c in calls_in_func(ab) if isinstance(c.func, ast.Name) and c.func.id == 'any']
    ok = len(its) == 1 and len(anyc) == 1
    dev = []
    n_rows = 0
    if ok:
        it = its[0]
        tgt = [norm(x) for x in it.ast.target.elts] if isinstance(it.ast.target, ast.Tuple) else ['port_name', 'port']
        nm, pt = tgt[0], tgt[1]
        K = {k: _leaf(ffa, ast.parse(t_, mode='eval').body)[0] for k, t_ in (('ex', 'exclude'), ('inex', f'{nm} in exclude'), ('inc', 'include'), ('ininc', f'{nm} in include'),
                                                                              ('ns', f'isinstance({pt}, PortNamespace)'))}
        K['any'] = _leaf(ffa, anyc[0])[0]
        stores = [m for m in ffa.cfg.nodes if m.kind == 'stmt' and isinstance(m.ast, ast.Assign) and isinstance(m.ast.targets[0], ast.Subscript) and norm(m.ast.targets[0]) == f'self[{nm}]']
        starts = [t for t, l in it.succ if l not in ('exc', 'uncaught', 'handler') and it.id in ffa.cfg.reachable([t], edge_ok=no_exc)]
        for val in _vals(list(K.values())):
            v = {k: val[K[k]] for k in K}
            if (v['inex'] and not v['ex']) or (v['ininc'] and not v['inc']) or (v['any'] and not v['inc']):
                continue   # membership in an absent / empty rule list does not occur
            skipped_by_rule = (v['ex'] and v['inex']) or (v['inc'] and not (v['any'] if v['ns'] else v['ininc']))
            for st in starts:
                for path in _paths(ffa, dict(val), start=st, frozen=['exclude', 'include', nm, pt] + sorted({x.id for x in ast.walk(anyc[0]) if isinstance(x, ast.Name)})):
                    cut = path[:path.index(it)] if it in path else path
                    if path[-1] is ffa.cfg.raise_exit and it not in path:
                        continue
                    stored = any(m in stores for m in cut)
                    n_rows += 1
                    if stored == skipped_by_rule:
                        dev.append(({k: v[k] for k in v}, 'stored' if stored else 'skipped'))
    # "leaves other ports of the destination in place": a destination namespace that already exists under the name of an absorbed source namespace must be
    # merged into, not replaced -- the store of the fresh copy is taken only where the name is known not to be in the destination yet
    if ok:
        ns_stores = [m for m in stores if any(a_[0] == 'isinst' and 'PortNamespace' in a_[2] for a_ in ffa.at(m))]
        merged = bool(ns_stores) and all(('F', f'{nm} in self') in ffa.at(m) for m in ns_stores)
        chk.ob('PROV-copies-only', ab, merged, 'a source namespace is copied over a name only where the destination has nothing under that name' + ('' if merged else
               ': the copy REPLACES an existing destination namespace of the same name, the ports the destination already had in it are lost'),
               node=ns_stores[0].ast if ns_stores else None, kind='existing-namespace-merged')
    # an include rule set that is GIVEN but EMPTY selects nothing (it is not "no include rules"): under include == () / [] every port is skipped
    dev_empty = []
    if ok:
        kn, _ = _leaf(ffa, ast.parse('include is None', mode='eval').body)
        for ns_ in (False, True):
            val = {K['ex']: False, K['inex']: False, K['inc']: False, K['ininc']: False, K['any']: False, K['ns']: ns_, kn: False}
            for st in starts:
                for path in _paths(ffa, dict(val), start=st, frozen=['exclude', 'include', nm, pt] + sorted({x.id for x in ast.walk(anyc[0]) if isinstance(x, ast.Name)})):
                    if path[-1] is ffa.cfg.raise_exit and it not in path:
                        continue
                    cut = path[:path.index(it)] if it in path else path
                    if any(m in stores for m in cut):
                        dev_empty.append('namespace' if ns_ else 'port')
    chk.ob('SEG-exact-matching', ab, ok and not dev_empty, 'an empty include rule set selects nothing' + ('' if not dev_empty else f': with include=() a {sorted(set(dev_empty))} is still copied -- the rules are '
           'tested for truthiness, so "no port selected" is taken for "no include rules" and everything is exposed'), kind='empty-include-selects-nothing')
    chk.ob('SEG-exact-matching', ab, ok and not dev and n_rows >= 8, f'decision table ({n_rows} paths): a port is skipped exactly when it is excluded by name, or include rules exist and do not name it '
           '(for a namespace: no rule is that name or starts with that name plus the separator); otherwise it is stored' + (f'; deviations {dev[:2]}' if dev else ''), kind='leaf-decisions')
    subs = [c for c in calls_in_func(ab, 'strip_namespace')]
    ok = len(subs) == 2 and sorted(norm(c.args[2]) for c in subs if len(c.args) >= 3) == ['exclude', 'include'] and all(norm(c.args[0]) == 'port_name' for c in subs)
    chk.ob('SEG-exact-matching', ab, ok, 'the rules handed down into a sub-namespace are those of that namespace, stripped', kind='rules-passed-down')
    rec = [c for c in calls_in_func(ab, 'absorb')]
    ok = len(rec) == 1 and [norm(a) for a in rec[0].args] == [pvar, 'sub_exclude', 'sub_include']
    chk.ob('SEG-exact-matching', ab, ok, 'the recursion receives (sub-namespace, sub_exclude, sub_include) in that order', kind='recursion-arguments')

    # 4. options
    sets = [c for c in calls_in_func(ab) if norm(c.func) == 'setattr' and norm(c.args[0]) == 'self']
    optvar = norm(sets[0].args[2].func.value) if len(sets) == 1 and isinstance(sets[0].args[2], ast.Call) and isinstance(sets[0].args[2].func, ast.Attribute) else 'namespace_options'
    ok = len(sets) == 1 and isinstance(sets[0].args[2], ast.Call) and norm(sets[0].args[2].func) == f'{optvar}.pop'
    if ok:
        av = norm(sets[0].args[1])
        from ..rules import Resolver as _Rp
        ok = [norm(_Rp(ab).expand(a)) for a in sets[0].args[2].args] == [av, f'getattr({src}, {av})']   # (the source's value possibly named first)
    chk.ob('PROV-namespace-options', ab, ok, 'every mutable property takes the override from namespace_options if given, else the source namespace\'s value', node=sets[0] if sets else None, kind='pop-with-source-default')
    guard = [t for t in cfg.nodes if t.kind == 'test' and 'is_mutable_property' in norm(t.ast.test)]
    chk.ob('PROV-namespace-options', ab, len(guard) == 1, 'only mutable properties of PortNamespace are copied', kind='mutable-properties')
    left = [t for t in cfg.nodes if t.kind == 'test' and norm(t.ast.test) == optvar]
    ok = len(left) == 1 and not branch_reaches_exit(cfg, left[0], 'true') and bool(sets) and all(cfg.must_pass(cfg.entry, [left[0]], lambda m: any(sets[0] is c for c in _calls(m)) or m.kind == 'iter', edge_ok=no_exc) for _ in [0])
    chk.ob('PROV-namespace-options', ab, ok, 'options that are not PortNamespace properties are an error', kind='leftovers-raise')
    ret = [r for r in ast.walk(ab.node) if isinstance(r, ast.Return) and r.value is not None]
    acc = norm(ret[0].value) if len(ret) == 1 and isinstance(ret[0].value, ast.Name) else 'absorbed_ports'    # (whatever the list of names is called)
    app = [c for c in calls_in_func(ab, 'append') if norm(c.func.value) == acc]
    chk.ob('PROV-namespace-options', ab, len(ret) == 1 and norm(ret[0].value) == acc and len(app) == 1 and [norm(a) for a in app[0].args] == ['port_name'],
           'absorb reports the names it absorbed', kind='reports-absorbed')
    # _expose_ports
    ab_call = [c for c in calls_in_func(ep, 'absorb')]
    from ..rules import conditional_values as _cv
    from ..facts import is_none as _is_none
    _fe = chk.ctx.facts.analyse(ep)

    def _options_ok(c) -> bool:
        """the fourth argument is the options parameter (or a copy), or an empty mapping exactly where the parameter is None -- held in a local, decided by a
        conditional expression on the spot, or by the branch the call stands in"""
        if [norm(a) for a in c.args[:3]] != ['source', 'exclude', 'include'] or len(c.args) != 4:
            return False
        a3 = c.args[3]
        if norm(a3) in ('namespace_options', 'dict(namespace_options)'):
            return True
        cases = []
        if isinstance(a3, ast.Name):
            cases = _cv(_fe, a3.id)
        elif isinstance(a3, ast.IfExp):
            cases = [(frozenset(_fe.cond_atoms(a3.test, True)), a3.body), (frozenset(_fe.cond_atoms(a3.test, False)), a3.orelse)]
        elif norm(a3) in ('{}', 'dict()'):
            cases = [(fs, a3) for _, fs in _fe.site_facts(c)]
        return bool(cases) and all(norm(v) in ('namespace_options', 'dict(namespace_options)') or (norm(v) in ('{}', 'dict()') and _is_none(fs, 'namespace_options')) for fs, v in cases)
    # (one call, or one per branch of "options given?")
    ok = len(ab_call) in (1, 2) and all(_options_ok(c) for c in ab_call) and len({norm(c.func) for c in ab_call}) == 1
    chk.ob('PROV-namespace-options', ep, ok, 'expose_* hands source, exclude, include and namespace_options to absorb unchanged', node=ab_call[0] if ab_call else None, kind='passed-through')
    efs = chk.ctx.facts.analyse(ep)
    from ..rules import conditional_values
    tvar = norm(ab_call[0].func.value) if ab_call else 'port_namespace'
    vals = conditional_values(efs, tvar)
    created = [(fs, v) for fs, v in vals if isinstance(v, ast.Call) and last_name(v) == 'create_port_namespace' and norm(v.func.value) == 'destination' and [norm(a) for a in v.args] == ['namespace']]
    direct = [(fs, v) for fs, v in vals if norm(v) == 'destination']
    ok = len(vals) == len(created) + len(direct) and bool(created) and bool(direct) and all(('T', 'namespace') in fs for fs, _ in created) and all(('F', 'namespace') in fs for fs, _ in direct)
    chk.ob('PROV-namespace-options', ep, ok, 'with a namespace the ports go into destination.<namespace> (created if needed), without one into the destination itself', kind='target-namespace')
    mem = [n for n in ast.walk(ep.node) if isinstance(n, ast.Assign) and norm(n.targets[0]) == 'expose_memory[namespace][process_class]']
    from ..rules import Resolver
    res_ep = Resolver(ep)
    ok = len(mem) == 1 and len(ab_call) == 1 and res_ep.text(mem[0].value) == res_ep.text(ab_call[0])   # the value remembered is what absorb returned (directly or through a local)
    ok = ok or (len(mem) == 1 and len(ab_call) == 1 and mem[0].value is ab_call[0])
    ok = ok or (len(mem) == len(ab_call) == 2 and all(any(m_.value is c for c in ab_call) for m_ in mem))   # (one store per branch of "options given?")
    chk.ob('PROV-namespace-options', ep, ok, 'what was absorbed is remembered per (namespace, process class)', kind='memory')
    for q, srcexpr, dst, memo in (('process_spec.ProcessSpec.expose_inputs', 'process_class.spec().inputs', 'self.inputs', 'self._exposed_inputs'),
                                  ('process_spec.ProcessSpec.expose_outputs', 'process_class.spec().outputs', 'self.outputs', 'self._exposed_outputs')):
        f = prog.func(q)
        c = [x for x in calls_in_func(f, '_expose_ports')]
        kws = {k.arg: norm(k.value) for k in c[0].keywords} if c else {}
        ok = kws.get('source') == srcexpr and kws.get('destination') == dst and kws.get('expose_memory') == memo and all(kws.get(p) == p for p in ('namespace', 'exclude', 'include', 'namespace_options', 'process_class'))
        chk.ob('PROV-namespace-options', f, ok, f'{f.name} exposes {srcexpr} into {dst} with the caller\'s rules', node=c[0] if c else None, kind='wiring')
    chk.assumptions.append('the selected set over all trees and rule sets beyond segment-exactness (no rule an ancestor of another) is not decided')
