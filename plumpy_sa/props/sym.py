"""SYM helpers: what a Savable class saves, what it loads, what it reads from the load context (DESIGN 2.5)."""
from __future__ import annotations

import ast
from typing import Dict, List, Optional, Set, Tuple

from ..cfg import cfg_of, no_exc
from ..model import AnalysisError, ClassInfo, FuncInfo, Program, UNKNOWN, is_self_attr, norm, unparse, walk_shallow


def auto_persist_decl(prog: Program, c: ClassInfo) -> Set[str]:
    """Members named by @auto_persist on this class only."""
    out: Set[str] = set()
    for d in c.decorator_calls('auto_persist'):
        for a in d.args:
            v = prog.fold(c.module, a, c)
            if not isinstance(v, str):
                raise AnalysisError(f'non-constant auto_persist argument on {c.qualname}')
            out.add(v)
    return out


def auto_persist_set(prog: Program, c: ClassInfo) -> Set[str]:
    out: Set[str] = set()
    for k in c.mro_classes():
        out |= auto_persist_decl(prog, k)
    return out


def _state_param(f: FuncInfo, index: int = 1) -> str:
    return f.params[index] if len(f.params) > index else ''


def saved_keys_of(prog: Program, f: FuncInfo) -> Dict[object, ast.expr]:
    """``out_state[K] = V`` statements of a save_instance_state: folded K -> V."""
    out: Dict[object, ast.expr] = {}
    p = _state_param(f)
    for n in walk_shallow(ast.Module(body=f.node.body, type_ignores=[])):
        if isinstance(n, ast.Assign):
            for t in n.targets:
                if isinstance(t, ast.Subscript) and norm(t.value) == p:
                    k = prog.fold(f.module, t.slice, f.owner_class)
                    out[k if k is not UNKNOWN else norm(t.slice)] = n.value
    return out


def loaded_keys_of(prog: Program, f: FuncInfo) -> Dict[object, List[ast.AST]]:
    """Keys read from the saved state in a load_instance_state (subscript, .get, ``in``): folded K -> use sites."""
    out: Dict[object, List[ast.AST]] = {}
    p = _state_param(f)
    for n in walk_shallow(ast.Module(body=f.node.body, type_ignores=[])):
        k = None
        if isinstance(n, ast.Subscript) and norm(n.value) == p and isinstance(n.ctx, ast.Load):
            k = n.slice
        elif isinstance(n, ast.Call) and isinstance(n.func, ast.Attribute) and n.func.attr == 'get' and norm(n.func.value) == p and n.args:
            k = n.args[0]
        elif isinstance(n, ast.Compare) and len(n.ops) == 1 and isinstance(n.ops[0], (ast.In, ast.NotIn)) and norm(n.comparators[0]) == p:
            k = n.left
        if k is not None:
            v = prog.fold(f.module, k, f.owner_class)
            out.setdefault(v if v is not UNKNOWN else norm(k), []).append(n)
    return out


def saved_loaded_keys(prog: Program, c: ClassInfo) -> Tuple[Set[object], Set[object]]:
    """Keys written / read by the class's own save/load_instance_state and those of its plumpy bases."""
    saved: Set[object] = set()
    loaded: Set[object] = set()
    for k in c.mro_classes():
        if 'save_instance_state' in k.methods:
            saved |= set(saved_keys_of(prog, prog.view(k.vmethods['save_instance_state'])))
        if 'load_instance_state' in k.methods:
            loaded |= set(loaded_keys_of(prog, prog.view(k.vmethods['load_instance_state'])))
    return saved, loaded


def context_reads(f: FuncInfo) -> List[Tuple[str, ast.AST, bool]]:
    """(attribute, node, guarded) for reads of ``load_context.<attr>`` in a load function; guarded = under a
    membership test ``'<attr>' in load_context`` or inside try/except AttributeError."""
    p = _state_param(f, 2)
    out = []
    if not p:
        return out
    guards: Set[str] = set()
    for n in ast.walk(f.node):
        if isinstance(n, ast.If) and isinstance(n.test, ast.Compare) and isinstance(n.test.ops[0], ast.In) \
                and norm(n.test.comparators[0]) == p and isinstance(n.test.left, ast.Constant):
            for s in n.body:
                for x in ast.walk(s):
                    if isinstance(x, ast.Attribute) and norm(x.value) == p and x.attr == n.test.left.value:
                        guards.add(id(x))
        # conditional expression / short-circuit forms of the same guard: ``ctx.x if 'x' in ctx else d``, ``'x' in ctx and ctx.x``
        def _is_guard(t):
            return isinstance(t, ast.Compare) and len(t.ops) == 1 and isinstance(t.ops[0], ast.In) and norm(t.comparators[0]) == p and isinstance(t.left, ast.Constant)
        if isinstance(n, ast.IfExp) and _is_guard(n.test):
            for x in ast.walk(n.body):
                if isinstance(x, ast.Attribute) and norm(x.value) == p and x.attr == n.test.left.value:
                    guards.add(id(x))
        if isinstance(n, ast.BoolOp) and isinstance(n.op, ast.And):
            for i, t in enumerate(n.values):
                if _is_guard(t):
                    for later in n.values[i + 1:]:
                        for x in ast.walk(later):
                            if isinstance(x, ast.Attribute) and norm(x.value) == p and x.attr == t.left.value:
                                guards.add(id(x))
        if isinstance(n, ast.If) and isinstance(n.test, ast.Compare) and isinstance(n.test.ops[0], ast.NotIn) and norm(n.test.comparators[0]) == p and isinstance(n.test.left, ast.Constant):
            for s_ in n.orelse:
                for x in ast.walk(s_):
                    if isinstance(x, ast.Attribute) and norm(x.value) == p and x.attr == n.test.left.value:
                        guards.add(id(x))
        if isinstance(n, ast.Try) and any(h.type is not None and 'AttributeError' in unparse(h.type) for h in n.handlers):
            for s in n.body:
                for x in ast.walk(s):
                    if isinstance(x, ast.Attribute) and norm(x.value) == p:
                        guards.add(id(x))
    for n in walk_shallow(ast.Module(body=f.node.body, type_ignores=[])):
        if isinstance(n, ast.Attribute) and norm(n.value) == p and isinstance(n.ctx, ast.Load):
            if n.attr in ('loader', 'copyextend'):
                continue
            out.append((n.attr, n, id(n) in guards))
    return out


def calls_super_on_all_paths(f: FuncInfo, name: Optional[str] = None) -> bool:
    """Every non-raising path through ``f`` calls ``super().<name>(...)``."""
    name = name or f.name
    cfg = cfg_of(f)

    def is_super(n) -> bool:
        e = n.expr()
        if e is None:
            return False
        for x in walk_shallow(e):
            if isinstance(x, ast.Call) and isinstance(x.func, ast.Attribute) and x.func.attr == name \
                    and isinstance(x.func.value, ast.Call) and unparse(x.func.value.func) == 'super':
                return True
        return False

    return cfg.must_pass(cfg.entry, [cfg.exit], is_super, edge_ok=no_exc)


def init_fields(c: ClassInfo) -> Dict[str, ast.AST]:
    """Attributes assigned on self in the class's own __init__ (attribute -> first assignment node)."""
    out: Dict[str, ast.AST] = {}
    f = c.vmethods.get('__init__')
    if f is None:
        return out
    for n in walk_shallow(ast.Module(body=f.node.body, type_ignores=[])):
        if isinstance(n, (ast.Assign, ast.AnnAssign)):
            tg = n.targets if isinstance(n, ast.Assign) else [n.target]
            for t in tg:
                if is_self_attr(t) and t.attr not in out:
                    out[t.attr] = n
    return out


# ---------------------------------------------------------------------- key <-> attribute binding on both sides
def _self_attrs(canon, e: ast.AST) -> Set[str]:
    """Attributes of self read by expression ``e`` (trivial properties resolved to the attribute they return)."""
    out: Set[str] = set()
    # a local that merely names a self attribute (``cb = self.done_callback; ... cb.__name__``) stands for that attribute
    extra = []
    for n in ast.walk(e):
        if isinstance(n, ast.Name) and isinstance(n.ctx, ast.Load) and n.id != 'self':
            ce = canon.expr(n)
            if ce is not n:
                extra.append(ce)
    for n in list(ast.walk(e)) + [x for ce in extra for x in ast.walk(ce)]:
        if isinstance(n, ast.Attribute) and isinstance(n.value, ast.Name) and n.value.id == 'self' and isinstance(n.ctx, ast.Load):
            ce = canon.expr(n)
            for m in ast.walk(ce):
                if isinstance(m, ast.Attribute) and isinstance(m.value, ast.Name) and m.value.id == 'self':
                    out.add(m.attr)
    return out


def saved_bindings(ctx, f: FuncInfo) -> Dict[object, Set[str]]:
    """key -> attributes of self whose value is stored under that key by a save_instance_state."""
    from ..facts import Canon
    canon = Canon(ctx.prog, ctx.calls, f)
    out: Dict[object, Set[str]] = {}
    for k, v in saved_keys_of(ctx.prog, f).items():
        out[k] = _self_attrs(canon, v)
    return out


def loaded_bindings(ctx, f: FuncInfo) -> Dict[object, Set[str]]:
    """key -> attributes of self assigned from the value stored under that key by a load_instance_state
    (through local variables, transitively)."""
    prog = ctx.prog
    p = _state_param(f)
    uses = loaded_keys_of(prog, f)
    node_key: Dict[int, object] = {}
    for k, sites in uses.items():
        for s in sites:
            node_key[id(s)] = k

    def keys_in(e: ast.AST, env: Dict[str, Set[object]]) -> Set[object]:
        ks: Set[object] = set()
        for n in ast.walk(e):
            if id(n) in node_key:
                ks.add(node_key[id(n)])
            if isinstance(n, ast.Name) and n.id in env:
                ks |= env[n.id]
        return ks

    env: Dict[str, Set[object]] = {}
    out: Dict[object, Set[str]] = {k: set() for k in uses}
    # two passes so that order of local assignments does not matter
    for _ in range(2):
        for n in walk_shallow(ast.Module(body=f.node.body, type_ignores=[])):
            if isinstance(n, (ast.Assign, ast.AnnAssign)) and n.value is not None:
                tg = n.targets if isinstance(n, ast.Assign) else [n.target]
                ks = keys_in(n.value, env)
                if not ks:
                    continue
                for t in tg:
                    if isinstance(t, ast.Name):
                        env.setdefault(t.id, set()).update(ks)
                    elif is_self_attr(t):
                        for k in ks:
                            out.setdefault(k, set()).add(t.attr)
    return out


def context_kwargs(prog: Program) -> Dict[str, List[Tuple[FuncInfo, ast.Call]]]:
    """keyword -> sites ``LoadSaveContext(kw=...)`` / ``copyextend(kw=...)`` across the package."""
    out: Dict[str, List[Tuple[FuncInfo, ast.Call]]] = {}
    for f in prog.all_funcs():
        for n in walk_shallow(ast.Module(body=f.body, type_ignores=[])):
            if isinstance(n, ast.Call) and unparse(n.func).split('.')[-1] in ('LoadSaveContext', 'copyextend'):
                for kw in n.keywords:
                    if kw.arg:
                        out.setdefault(kw.arg, []).append((f, n))
    return out
