"""C02 -- all reports of a terminated process's outcome agree and waiters are released."""
from __future__ import annotations

import ast
from typing import Dict, List, Optional, Tuple

from ..cfg import cfg_of, no_exc
from ..facts import falsy
from ..fut import classify, writer_sites
from ..model import AnalysisError, EnumMember, FuncInfo, is_self_attr, norm, strip_cast, unparse, walk_shallow
from ..report import Check
from ..rules import calls_in_func, last_name, node_has_call, branch_reaches_exit
from . import common

ENTERING = {'CREATED': ('on_create', []), 'RUNNING': ('on_run', []), 'WAITING': ('on_wait', ['{s}.data']),
            'FINISHED': ('on_finish', ['{s}.result', '{s}.successful']), 'KILLED': ('on_kill', ['{s}.msg']),
            'EXCEPTED': ('on_except', ['{s}.get_exc_info()'])}
ENTERED = {'RUNNING': 'on_running', 'WAITING': 'on_waiting', 'FINISHED': 'on_finished', 'EXCEPTED': 'on_excepted', 'KILLED': 'on_killed'}
TERMINAL_EVENTS = {'on_finished': ('on_process_finished', ['self._future.result()']),
                   'on_excepted': ('on_process_excepted', ['str(self._future.exception())']),
                   'on_killed': ('on_process_killed', ['self.killed_msg()'])}


def label_ladder(prog, f: FuncInfo) -> Tuple[Optional[str], Dict[str, List[ast.stmt]]]:
    """if/elif ladder comparing one subject with ProcessState members: subject text, {member: body}."""
    out: Dict[str, List[ast.stmt]] = {}
    subject = None
    for s in f.node.body:
        if not isinstance(s, ast.If):
            continue
        cur = s
        local: Dict[str, List[ast.stmt]] = {}
        subj = None
        while True:
            t = cur.test
            if isinstance(t, ast.Compare) and len(t.ops) == 1 and isinstance(t.ops[0], (ast.Eq, ast.Is)):
                v = prog.fold(f.module, t.comparators[0], f.owner_class)
                if isinstance(v, EnumMember) and v.enum == 'ProcessState':
                    subj = subj or norm(t.left)
                    if norm(t.left) == subj:
                        local[v.member] = cur.body
            if len(cur.orelse) == 1 and isinstance(cur.orelse[0], ast.If):
                cur = cur.orelse[0]
                continue
            break
        if len(local) > len(out):
            out, subject = local, subj
    return subject, out


def subject_source(f: FuncInfo, subject: str) -> str:
    """Resolve a local subject variable to the expression it was assigned from."""
    for n in ast.walk(f.node):
        if isinstance(n, ast.Assign) and len(n.targets) == 1 and norm(n.targets[0]) == subject:
            return norm(n.value)
    return subject


def run(chk: Check) -> None:
    prog = chk.prog
    disp_hooks(chk)
    future_resolution(chk)
    accessors(chk)
    terminal_notifications(chk)
    close_once(chk)
    wait_release(chk)
    # the views stay in agreement only if nothing transitions again once a terminal state was entered (shared with C01)
    from .c01 import atom_terminal_guard, terminal_hooks_cannot_fail_on_futures
    atom_terminal_guard(chk)
    terminal_hooks_cannot_fail_on_futures(chk)
    subscription_idempotent(chk)
    # the launcher's reply is one of the reports of the outcome: it reads the process future only AFTER the process was stepped to its end (a future fetched while
    # the process is live may be the one on_except / on_kill later replace) -- shared with C17
    from .c17 import launcher_replies_after_stepping
    launcher_replies_after_stepping(chk, 'FUT-launcher-reply')
    inflight_step_released(chk)
    hooks_outlive_transitions(chk)
    # an exception escaping on_entered after the terminal state was entered makes the machine treat the transition as failed: a second terminal notification,
    # a state that disagrees with the future -- the failures of the state-change broadcast that are nobody's fault are tolerated (shared with C16)
    from .c16 import tolerated_broadcast_failures
    tolerated_broadcast_failures(chk, 'ESC-terminal-entry')
    # cleanups (the un-subscriptions among them) are per process: run once, by the process that registered them (shared with C16)
    from .common import no_shared_mutable_class_state
    no_shared_mutable_class_state(chk, 'PAIR-cleanups-once')


def subscription_idempotent(chk: Check) -> None:
    """"Listeners receive exactly one terminal notification": fire_event calls every element of the listener container once, so
    the container must hold a listener once however often it was added (a set, or an add guarded by a membership test), and
    removing it must remove it altogether."""
    prog = chk.prog
    eh = prog.cls('event_helper.EventHelper')
    init = eh.vmethods['__init__']
    add = prog.view(eh.vmethods['add_listener'])
    inits = [n for n in ast.walk(init.node) if isinstance(n, (ast.Assign, ast.AnnAssign)) and norm(n.targets[0] if isinstance(n, ast.Assign) else n.target) == 'self._listeners']
    is_set = bool(inits) and all(isinstance(n.value, ast.Call) and norm(n.value.func) in ('set', 'weakref.WeakSet', 'WeakSet') or isinstance(n.value, ast.Set) for n in inits)
    ff = chk.ctx.facts.analyse(add)
    adds = [c for c in calls_in_func(add) if isinstance(c.func, ast.Attribute) and norm(c.func.value) == 'self._listeners' and c.func.attr in ('add', 'append', 'insert', 'extend', 'update')]
    ok = bool(adds)
    for c in adds:
        if c.func.attr == 'add' and is_set:
            continue
        lp = add.params[1]
        guarded = all(any(a[0] == 'F' and norm_key(a[1]) == f'{lp} in self._listeners' for a in fs if len(a) == 2) for _, fs in ff.site_facts(c))
        ok &= guarded
    chk.ob('OWN-terminal-event', add, ok, 'adding a listener that is already subscribed does not subscribe it a second time (set semantics): one notification per event per listener, '
           'and one removal unsubscribes it', node=adds[0] if adds else None, kind='subscription-idempotent')


def norm_key(k) -> str:
    return k if isinstance(k, str) else str(k)


# ---------------------------------------------------------------------- 1. DISP entering / entered
def disp_hooks(chk: Check) -> None:
    prog = chk.prog
    from ..rules import dispatch_sites

    def hook_sites(f, subject_keys):
        ff = chk.ctx.facts.analyse(f)
        sites = dispatch_sites(ff, lambda c: last_name(c) == 'call_with_super_check' and bool(c.args) and isinstance(c.args[0], ast.Attribute))
        table: Dict[str, List[ast.Call]] = {}
        for n, c, pins in sites:
            members = set()
            for k in subject_keys:
                members |= {v.split('.')[-1] for v in pins.get(k, set()) if v.startswith('ProcessState.')}
            for m in members:
                table.setdefault(m, []).append(c)
            if not members:
                table.setdefault('<unconditional>', []).append(c)
        return table

    oe = prog.func('processes.Process.on_entering')
    sparam = oe.params[1]
    table = hook_sites(oe, [f'{sparam}.LABEL', f'{sparam}.label'])
    for member in common.STATE_MEMBERS:
        hook, args = ENTERING[member]
        cs = table.get(member, [])
        if not cs:
            chk.ob('DISP-entering', oe, False, f'no hook is called for a state labelled {member} (dispatch on the label of the state being entered): '
                   'future unresolved / inputs unparsed', kind=f'branch:{member}', expr=member)
            continue
        ok = len(cs) == 1 and norm(cs[0].args[0]) == f'self.{hook}' and [norm(a) for a in cs[0].args[1:]] == [a.format(s=sparam) for a in args]
        chk.ob('DISP-entering', oe, ok, f'entering {member} calls {hook}({", ".join(args).format(s=sparam)}) exactly once',
               node=cs[0], kind=f'branch:{member}')
    chk.ob('DISP-entering', oe, '<unconditional>' not in table, 'every hook call in on_entering is tied to one state label', kind='no-unconditional-hook')
    oed = prog.func('processes.Process.on_entered')
    table = hook_sites(oed, ['self._state.LABEL', 'self._state.label'])
    for member, hook in ENTERED.items():
        cs = table.get(member, [])
        ok = len(cs) == 1 and norm(cs[0].args[0]) == f'self.{hook}'
        chk.ob('DISP-entered', oed, ok, f'having entered {member} calls {hook} exactly once (dispatch on the label of the current state)', node=cs[0] if cs else None,
               kind=f'branch:{member}', expr=None if cs else member)
    # the payload fields read exist in the state classes
    by_label = common.labelled_states(prog)
    from .sym import init_fields
    for member, (hook, args) in ENTERING.items():
        for a in args:
            field = a.format(s='').lstrip('.').split('(')[0]
            for c in by_label.get(member, []):
                has = any(field in init_fields(k) or field in k.methods for k in c.mro_classes())
                chk.ob('DISP-entering', c.qualname, has, f'{c.name} provides {field} (read when entering {member})', kind=f'field:{field}', expr=field)
    # registration on the state machine's hooks, for new and for loaded processes
    seh = prog.func('processes.Process._setup_event_hooks')
    # (hook, callback) pairs handed to add_state_event_callback: direct arguments, or the pairs of a dict / tuple of pairs the call is looped over;
    # a callback is a lambda or a local function: (parameter names, the one call it makes)
    from ..rules import Resolver
    res_h = Resolver(seh)
    pairs = []
    for c in calls_in_func(seh, 'add_state_event_callback'):
        if len(c.args) != 2:
            continue
        loops = [l for l in ast.walk(seh.node) if isinstance(l, ast.For) and any(x is c for b in l.body for x in ast.walk(b))]
        if loops and isinstance(loops[0].target, ast.Tuple) and [norm(e) for e in loops[0].target.elts] == [norm(a) for a in c.args]:
            src = strip_cast(loops[0].iter)
            if isinstance(src, ast.Call) and isinstance(src.func, ast.Attribute) and src.func.attr == 'items' and not src.args:
                src = res_h.expand(src.func.value)
                if isinstance(src, ast.Dict):
                    pairs += [(k, v) for k, v in zip(src.keys, src.values) if k is not None]
            else:
                src = res_h.expand(src)
                if isinstance(src, (ast.Tuple, ast.List)):
                    pairs += [(e.elts[0], e.elts[1]) for e in src.elts if isinstance(e, (ast.Tuple, ast.List)) and len(e.elts) == 2]
        elif not loops:
            pairs.append((c.args[0], c.args[1]))
    table = {}
    for k, v in pairs:
        v = strip_cast(v)
        if isinstance(v, ast.Lambda):
            table[norm(k).split('.')[-1]] = ([a.arg for a in v.args.args], v.body)
        elif isinstance(v, ast.Name) and v.id in seh.nested and not isinstance(seh.nested[v.id].node, ast.Lambda):
            g = seh.nested[v.id].node
            body = [st for st in g.body if not (isinstance(st, ast.Expr) and isinstance(st.value, ast.Constant))]
            if len(body) == 1 and isinstance(body[0], (ast.Return, ast.Expr)) and body[0].value is not None:
                table[norm(k).split('.')[-1]] = ([a.arg for a in g.args.args], body[0].value)
    want = {'ENTERING_STATE': 'self.on_entering', 'ENTERED_STATE': 'self.on_entered', 'EXITING_STATE': 'self.on_exiting'}
    for hk, target in want.items():
        params_, body_ = table.get(hk, (None, None))
        ok = body_ is not None and isinstance(body_, ast.Call) and norm(body_.func) == target
        if ok and hk != 'EXITING_STATE':
            third = params_[2] if len(params_) >= 3 else None
            ok = len(body_.args) == 1 and norm(strip_cast(body_.args[0])) == third
        chk.ob('DISP-hooks-registered', seh, ok, f'{hk} is wired to {target} with the state the machine passes', kind=f'hook:{hk}', expr=hk)
    reg = [c for c in calls_in_func(seh, 'add_state_event_callback')]
    chk.ob('DISP-hooks-registered', seh, len(reg) >= 1, 'the table is registered with add_state_event_callback', kind='registered')
    for q in ('processes.Process.__init__', 'processes.Process.load_instance_state'):
        f = prog.func(q)
        chk.ob('DISP-hooks-registered', f, len(calls_in_func(f, '_setup_event_hooks')) == 1, 'event hooks are set up for new and for loaded processes',
               kind='setup-called')
    # the state machine fires ENTERING before entering and ENTERED after the state is replaced
    en = prog.func('base.state_machine.StateMachine._enter_next_state')
    cfg = cfg_of(en)
    fires = [(n, c) for n in cfg.nodes for c in (walk_shallow(n.expr()) if n.expr() is not None else []) if isinstance(c, ast.Call) and last_name(c) == '_fire_state_event']
    kinds = [norm(c.args[0]).split('.')[-1] for _, c in fires]
    chk.ob('DISP-hooks-registered', en, kinds == ['ENTERING_STATE', 'ENTERED_STATE'] or sorted(kinds) == ['ENTERED_STATE', 'ENTERING_STATE'],
           f'_enter_next_state fires ENTERING and ENTERED once each ({kinds})', kind='fires-both')
    writes = [n for n in cfg.nodes if n.kind == 'stmt' and isinstance(n.ast, ast.Assign) and norm(n.ast.targets[0]) == 'self._state']
    if len(fires) == 2 and writes:
        entering = [n for n, c in fires if 'ENTERING' in norm(c.args[0])][0]
        entered = [n for n, c in fires if 'ENTERED' in norm(c.args[0])][0]
        ok = cfg.must_pass(cfg.entry, [writes[0]], lambda m: m is entering) and cfg.must_pass(cfg.entry, [entered], lambda m: m is writes[0])
        chk.ob('DISP-hooks-registered', en, ok, 'ENTERING fires before the state is replaced, ENTERED after', kind='order')


# ---------------------------------------------------------------------- 2. future resolution
def future_resolution(chk: Check) -> None:
    prog = chk.prog
    proc = prog.cls('processes.Process')
    allowed = {'on_finish', 'on_except', 'on_kill'}
    n = 0
    from ..rules import subsumed_helpers
    sub_ = subsumed_helpers(prog)
    for c in [proc] + prog.subclasses(proc):
        for f in list(c.emethods.values()):
            if id((getattr(f, 'origin', None) or f).node) in sub_:
                continue   # a private helper inlined at every call site: its writes are examined as part of its callers
            for g in [f] + list(f.nested.values()):
                for s in writer_sites(chk.ctx, g, ['self._future']):
                    n += 1
                    chk.ob('OWN-process-future', g, g.name in allowed and g.cls is not None,
                           'the process future is resolved only on entering a terminal state (on_finish / on_except / on_kill)',
                           node=s.call, kind='writer')
    chk.floor('OWN-process-future', n, 3)
    # assignments of _future: constructor, load, and the replacement in on_except
    from ..rules import effective_writers
    for f, node in effective_writers(prog, '_future'):
        ok = f.qualname in ('processes.Process.__init__', 'processes.Process.load_instance_state')
        if not ok and f.name in allowed and f.cls is not None:
            # a terminal-entry hook may replace a future that is ALREADY done (finished before excepting, cancelled before the kill)
            ffh = chk.ctx.facts.analyse(f)
            stmts = [n for n in ffh.cfg.nodes if n.kind == 'stmt' and any(x is node for x in ast.walk(n.ast))]
            ok = bool(stmts) and all(('T', 'self._future.done()') in ffh.at(n) for n in stmts)
        chk.ob('OWN-process-future', f, ok, 'the process future is replaced only at construction / load, or by a terminal-entry hook when the old one is already done',
               node=node, kind='replacer', expr='_future store')

    def exactly_once(f: FuncInfo, what: str, arg_ok) -> None:
        cfg = cfg_of(f)
        sites = writer_sites(chk.ctx, f, ['self._future'])
        nodes = [m for s in sites for m in cfg.nodes_containing(s.call)]
        ok_all = bool(nodes) and cfg.must_pass(cfg.entry, [cfg.exit], lambda m: m in nodes, edge_ok=no_exc)
        multi = any(o.id in cfg.reachable([d], edge_ok=no_exc) for d in nodes for o in nodes if o is not d)
        chk.ob('DOM-future-resolved-once', f, ok_all and not multi, f'every non-raising path through {f.name} resolves the process future exactly once',
               kind='exactly-once')
        for s in sites:
            chk.ob('PROV-future-value', f, arg_ok(s), what, node=s.call, kind='value')

    of = prog.func('processes.Process.on_finish')
    exactly_once(of, 'FINISHED resolves the future to the outputs', lambda s: s.op == 'set_result' and [norm(strip_cast(a)) for a in s.call.args] in (['self.outputs'], ['self._outputs']))
    oe = prog.func('processes.Process.on_except')
    ep = oe.params[1]

    def exc_arg(s) -> bool:
        if s.op != 'set_exception' or len(s.call.args) != 1:
            return False
        a = s.call.args[0]
        if norm(a) == f'{ep}[1]':
            return True
        if isinstance(a, ast.Name):
            vals = [n.value for n in ast.walk(oe.node) if isinstance(n, ast.Assign) and norm(n.targets[0]) == a.id]
            return len(vals) == 1 and norm(vals[0]) == f'{ep}[1]'
        return False

    exactly_once(oe, 'EXCEPTED makes the future raise the original exception', exc_arg)
    for s in writer_sites(chk.ctx, oe, ['self._future']):
        classify(chk.ctx, s)
        chk.ob('FUT-on-except', oe, s.guard in ('guarded', 'fresh'), f'the future is pending (or was replaced) when the exception is set: {s.guard}',
               node=s.call, kind='pending')
    ok_fn = prog.func('processes.Process.on_kill')

    from ..rules import Resolver as _Res
    res_k = _Res(ok_fn)

    def kill_arg(s) -> bool:
        a_ = res_k.expand(s.call.args[0]) if s.op == 'set_exception' and len(s.call.args) == 1 else None   # (directly, or through a local)
        return isinstance(a_, ast.Call) and norm(a_.func).split('.')[-1] == 'KilledError'

    exactly_once(ok_fn, 'KILLED makes the future raise KilledError', kill_arg)
    # KilledError carries the kill text
    for s in writer_sites(chk.ctx, ok_fn, ['self._future']):
        a = res_k.expand(s.call.args[0]) if s.call.args else None
        txt_ok = False
        if isinstance(a, ast.Call) and a.args:
            var = norm(a.args[0])
            mp = ok_fn.params[1]
            assigns = [n for n in ast.walk(ok_fn.node) if isinstance(n, ast.Assign) and norm(n.targets[0]) == var]
            txt_ok = any('MESSAGE_TEXT_KEY' in norm(n.value) and mp in norm(n.value) for n in assigns)
        chk.ob('PROV-future-value', ok_fn, txt_ok, 'the KilledError message is the text stored under MESSAGE_TEXT_KEY of the kill message', node=s.call,
               kind='killed-text')


# ---------------------------------------------------------------------- 3. accessors
def accessors(chk: Check) -> None:
    prog = chk.prog
    res = prog.func('processes.Process.result')
    table = {}
    for n in [x for x in res.node.body if isinstance(x, ast.If)]:
        t = n.test
        if isinstance(t, ast.Call) and norm(t.func) == 'isinstance' and norm(t.args[0]) == 'self._state':
            c = prog.resolve_class(res.module, t.args[1])
            table[c.name if c else norm(t.args[1])] = n.body
    fin = table.get('Finished')
    ok = fin is not None and len(fin) == 1 and isinstance(fin[0], ast.Return) and norm(fin[0].value) == 'self._state.result'
    chk.ob('DISP-accessor', res, ok, 'result() of a FINISHED process is the Finished state\'s result', kind='result:finished')
    kil = table.get('Killed')
    ok = kil is not None and len(kil) == 1 and isinstance(kil[0], ast.Raise) and isinstance(kil[0].exc, ast.Call) \
        and norm(kil[0].exc.func).split('.')[-1] == 'KilledError' and [norm(a) for a in kil[0].exc.args] == ['self._state.msg']
    chk.ob('DISP-accessor', res, ok, 'result() of a KILLED process raises KilledError(kill message)', kind='result:killed')
    exc = table.get('Excepted')
    ok = exc is not None and len(exc) == 1 and isinstance(exc[0], ast.Raise) and norm(exc[0].exc).startswith('self._state.exception')
    chk.ob('DISP-accessor', res, ok, 'result() of an EXCEPTED process raises the stored exception', kind='result:excepted')
    last = res.node.body[-1]
    chk.ob('DISP-accessor', res, isinstance(last, ast.Raise) and 'InvalidStateError' in norm(last.exc), 'result() of a live process raises InvalidStateError',
           kind='result:live')
    km = prog.func('processes.Process.killed_msg')
    ok = any(isinstance(n, ast.If) and norm(n.test) == 'isinstance(self._state, process_states.Killed)' and len(n.body) == 1
             and isinstance(n.body[0], ast.Return) and norm(n.body[0].value) == 'self._state.msg' for n in km.node.body)
    chk.ob('DISP-accessor', km, ok, 'killed_msg() is the Killed state\'s msg', kind='killed_msg')
    ex = prog.func('processes.Process.exception')
    ok = any(isinstance(n, ast.If) and norm(n.test) == 'isinstance(self._state, process_states.Excepted)' and len(n.body) == 1
             and isinstance(n.body[0], ast.Return) and norm(n.body[0].value) == 'self._state.exception' for n in ex.node.body)
    chk.ob('DISP-accessor', ex, ok, 'exception() is the Excepted state\'s exception', kind='exception')
    for q in ('processes.Process.successful', 'processes.Process.is_successful'):
        f = prog.func(q)
        rets = [n for n in ast.walk(f.node) if isinstance(n, ast.Return) and n.value is not None and not isinstance(n.value, ast.Constant)]
        chk.ob('DISP-accessor', f, len(rets) == 1 and norm(rets[0].value) == 'self._state.successful', f'{f.name} reads the state\'s successful flag',
               kind=f.name)
    kd = prog.func('processes.Process.killed')
    rets = [n for n in ast.walk(kd.node) if isinstance(n, ast.Return)]
    ff = chk.ctx.facts.analyse(kd)
    ok = len(rets) == 1 and ff.cond_atoms(rets[0].value, True) == {('eq', 'self._state.LABEL', 'ProcessState.KILLED')}
    chk.ob('DISP-accessor', kd, ok, 'killed() is "the state label is KILLED"', kind='killed')
    # the state classes store what the accessors read, from the constructor arguments of the same name
    from .c13 import captured_fields
    for cls_q, fields in (('process_states.Finished', {'result': 'result', 'successful': 'successful'}),
                          ('process_states.Killed', {'msg': 'msg'}), ('process_states.Excepted', {'exception': 'exception', 'traceback': 'trace_back'})):
        c = prog.cls(cls_q)
        cap = {a: p for a, p, k in captured_fields(prog.view(c.vmethods['__init__']))}
        chk.ob('DISP-accessor', cls_q, all(cap.get(a) == p for a, p in fields.items()), f'{c.name} stores {sorted(fields)} from its constructor arguments ({cap})',
               kind='state-fields')


# ---------------------------------------------------------------------- 4. exactly one terminal notification
def terminal_notifications(chk: Check) -> None:
    prog = chk.prog
    events = {e for _, (e, _) in TERMINAL_EVENTS.items()}
    refs: Dict[str, List[Tuple[FuncInfo, ast.AST]]] = {e: [] for e in events}
    for f in prog.all_funcs():
        if f.module.short == 'process_listener':
            continue
        for n in ast.walk(f.node) if f.parent is None else []:
            if isinstance(n, ast.Attribute) and n.attr in events and norm(n.value).endswith('ProcessListener'):
                refs[n.attr].append((f, n))
    ff_canon = {}
    for hook, (event, args) in TERMINAL_EVENTS.items():
        f = prog.func(f'processes.Process.{hook}')
        for g, n in refs[event]:
            chk.ob('OWN-terminal-event', g, g is f, f'{event} is fired only from {hook}', node=n, kind=f'event-site:{event}')
        cfg = cfg_of(f)
        fires = [c for c in calls_in_func(f) if last_name(c) in ('_fire_event', 'fire_event') and c.args and norm(c.args[0]).endswith(event)]
        nodes = [m for c in fires for m in cfg.nodes_containing(c)]
        ok = len(fires) == 1 and cfg.must_pass(cfg.entry, [cfg.exit], lambda m: m in nodes, edge_ok=no_exc)
        chk.ob('DOM-terminal-event-once', f, ok, f'{hook} fires {event} exactly once on every non-raising path', kind='fired-once')
        if fires:
            canon = chk.ctx.facts.analyse(f).canon
            got = [canon.key(a) if not (isinstance(a, ast.Call) and norm(a.func) == 'str') else 'str(' + canon.key(a.args[0]) + ')' for a in fires[0].args[1:]]
            chk.ob('PROV-terminal-event-arg', f, got == args, f'{event} reports {args} (got {got})', node=fires[0], kind='event-argument')
    # _fire_event hands the process and the arguments to the event helper
    fe = prog.func('processes.Process._fire_event')
    c = [x for x in calls_in_func(fe, 'fire_event')]
    ok = len(c) == 1 and [norm(a) for a in c[0].args] == [fe.params[1], 'self', f'*{fe.node.args.vararg.arg}']
    chk.ob('PROV-terminal-event-arg', fe, ok, '_fire_event forwards the event, the process and the arguments to the listeners', kind='fire-forward')
    listener_loop(chk, 'PROV-terminal-event-arg')


def listener_loop(chk: Check, rule: str) -> None:
    """EventHelper.fire_event calls each listener once with the given arguments, looping over a snapshot of the listeners with each call inside the
    try that contains a listener's failure."""
    prog = chk.prog
    # listeners are each called once per event
    eh = prog.func('event_helper.EventHelper.fire_event')
    loops = [n for n in ast.walk(eh.node) if isinstance(n, ast.For)]
    from ..rules import Resolver
    res_eh = Resolver(eh)
    it_e = res_eh.expand(loops[0].iter) if loops else None
    LS = ('self.listeners', 'self._listeners')
    # a SNAPSHOT of the listeners: a callback may add or remove listeners (one-shot listeners remove themselves, a terminating process drops them all), and a set
    # that changes size while it is iterated raises RuntimeError out of the transition in progress
    snap = (isinstance(it_e, ast.Call) and norm(it_e.func) in ('list', 'tuple', 'set', 'frozenset', 'sorted', 'copy.copy') and len(it_e.args) == 1 and norm(it_e.args[0]) in LS) or (
        isinstance(it_e, ast.Call) and isinstance(it_e.func, ast.Attribute) and it_e.func.attr == 'copy' and not it_e.args and norm(it_e.func.value) in LS) or (
        isinstance(it_e, (ast.List, ast.Tuple, ast.Set)) and len(it_e.elts) == 1 and isinstance(it_e.elts[0], ast.Starred) and norm(it_e.elts[0].value) in LS)
    ok = len(loops) == 1 and bool(snap)
    calls = []
    for x in [y for l in loops for y in ast.walk(l) if isinstance(y, ast.Call)]:
        fx = res_eh.expand(x.func)
        if isinstance(fx, ast.Call) and norm(fx.func) == 'getattr' and fx.args and norm(fx.args[0]) == norm(loops[0].target):
            calls.append(x)
    ok = ok and len(calls) == 1 and [norm(a) for a in calls[0].args] == [f'*{eh.node.args.vararg.arg}']
    chk.ob(rule, eh, bool(ok), 'every listener registered when the event fires receives it once with the given arguments (the loop runs over a snapshot: callbacks may add or remove listeners)', kind='listener-loop')


# ---------------------------------------------------------------------- 5. close once
def close_once(chk: Check) -> None:
    prog = chk.prog
    tt = prog.func('base.state_machine.StateMachine.transition_to')
    cfg = cfg_of(tt)
    ff = chk.ctx.facts.analyse(tt)
    term = [n for n in cfg.nodes if n.kind == 'stmt' and any(
        last_name(c) == 'call_with_super_check' and c.args and norm(c.args[0]) == 'self.on_terminated' for c in walk_shallow(n.expr()) if isinstance(c, ast.Call))]
    chk.ob('DOM-on-terminated', tt, len(term) >= 1, 'transition_to calls on_terminated', kind='site-present')
    enters = [n for n in cfg.nodes if node_has_call(n, '_enter_next_state')]
    # decision table over (there is a current state, it is terminal), from every successful state entry to the normal exit: on_terminated is called on every
    # path when the state is terminal -- whatever else is true, e.g. "this is the transition that recovers from a failed one" -- and on none when it is not
    # (the test may be written either way round, split, or sit in a private helper)
    from ..decisions import paths_under
    ok = bool(term) and bool(enters)
    IS_T, IS_N = 'self._state.is_terminal()', 'self._state is None'
    for e in enters:
        starts = [t_ for t_, l_ in e.succ if l_ not in ('exc', 'uncaught', 'handler')]
        for st_ in starts:
            yes = [p_ for p_ in paths_under(ff, {IS_T: True, IS_N: False}, start=st_, frozen=['self._state']) if p_[-1] is cfg.exit]
            no = [p_ for p_ in paths_under(ff, {IS_T: False, IS_N: False}, start=st_, frozen=['self._state']) if p_[-1] is cfg.exit]
            # (a later entry on the same path -- the StateEntryFailed re-entry -- starts its own table)
            yes = [p_ for p_ in yes if not any(m in enters for m in p_[1:])]
            no = [p_ for p_ in no if not any(m in enters for m in p_[1:])]
            ok &= bool(yes) and all(any(m in term for m in p_) for p_ in yes)
            ok &= all(not any(m in term for m in p_) for p_ in no)
    chk.ob('DOM-on-terminated', tt, ok, 'after every successful state entry (including the StateEntryFailed re-entry) on_terminated is called iff the '
           'state entered is terminal', kind='called-iff-terminal')
    ot = prog.func('processes.Process.on_terminated')
    ocfg = cfg_of(ot)
    closes = [n for n in ocfg.nodes if any(norm(c.func) == 'self.close' for c in (walk_shallow(n.expr()) if n.expr() is not None else []) if isinstance(c, ast.Call))]
    chk.ob('DOM-on-terminated', ot, bool(closes) and ocfg.must_pass(ocfg.entry, [ocfg.exit], lambda m: m in closes, edge_ok=no_exc),
           'on_terminated closes the process on every path', kind='closes')
    # cleanups at most once: close() guarded by _closed, or on_close consumes the list
    cl = prog.func('processes.Process.close')
    fc = chk.ctx.facts.analyse(cl)
    oc_calls = [c for c in calls_in_func(cl, 'call_with_super_check') if c.args and norm(c.args[0]) == 'self.on_close']
    guard = bool(oc_calls) and all(falsy(fs, 'self._closed') for c in oc_calls for _, fs in fc.site_facts(c))
    on_close = prog.func('processes.Process.on_close')
    cfg2 = cfg_of(on_close)
    from ..rules import Resolver
    res_oc = Resolver(on_close)
    loops = [n for n in ast.walk(on_close.node) if isinstance(n, ast.For) and 'self._cleanups' in res_oc.text(n.iter)]
    consumes = any(isinstance(n, ast.Assign) and norm(n.targets[0]) == 'self._cleanups' and norm(n.value) in ('None', '[]') for n in ast.walk(on_close.node))
    chk.ob('PAIR-cleanups-once', cl, bool(oc_calls), 'close() reaches on_close', kind='reaches-on-close')
    chk.ob('PAIR-cleanups-once', on_close, guard or consumes, f'cleanups cannot run twice: close() guarded by not-closed={guard}, on_close consumes the list={consumes}',
           kind='at-most-once')
    runs = [c for l in loops for c in ast.walk(l) if isinstance(c, ast.Call) and isinstance(c.func, ast.Name) and c.func.id == norm(l.target)]
    chk.ob('PAIR-cleanups-once', on_close, len(loops) == 1 and len(runs) == 1, 'on_close runs every registered cleanup once', kind='runs-each')
    # "registered cleanups run": add_cleanup is accepted until the process is closed, i.e. also from inside a cleanup -- the loop runs over the LIST ITSELF, which
    # picks such a late registration up; over a copy it would be accepted and never run (unlike the listeners, which must not see themselves removed)
    if len(loops) == 1:
        it_ = res_oc.expand(loops[0].iter)
        live = norm(it_) in ('self._cleanups', 'self._cleanups or []', 'self._cleanups or ()')
        chk.ob('PAIR-cleanups-once', on_close, live, f'on_close iterates the cleanup list itself ({norm(it_)}): a cleanup registered by a cleanup still runs', node=loops[0], kind='runs-late-registrations')
    # a cleanup that raises (plumpy's own unsubscribe calls can, when the connection is gone) must not keep the remaining ones from running:
    # what it raises has to be caught inside the loop body
    from ..esc import Esc
    esc = Esc(chk.ctx)
    isolated = False
    for c in runs:
        cont = esc.container_of(on_close, c)
        isolated = cont is not None and cont.kind == 'except' and any(any(x is cont.node for x in ast.walk(s_)) for l in loops for s_ in l.body)
    chk.ob('PAIR-cleanups-once', on_close, isolated, 'a cleanup that raises is caught inside the loop: every other registered cleanup still runs (exactly once each)', kind='each-cleanup-isolated')
    closed_sets = [n for n in cfg2.nodes if n.kind == 'stmt' and isinstance(n.ast, ast.Assign) and norm(n.ast.targets[0]) == 'self._closed' and norm(n.ast.value) == 'True']
    ok = bool(closed_sets) and cfg2.must_pass(cfg2.entry, [cfg2.exit, cfg2.raise_exit], lambda m: m in closed_sets)
    chk.ob('PAIR-cleanups-once', on_close, ok, '_closed is set on every exit of on_close (normal or raising)', kind='closed-on-all-exits')
    ac = prog.func('processes.Process.add_cleanup')
    chk.ob('PAIR-cleanups-once', ac, any('self._cleanups.append' == norm(c.func) and [norm(a) for a in c.args] == [ac.params[1]] for c in calls_in_func(ac)),
           'add_cleanup appends the callable to the list on_close runs', kind='registered')


# ---------------------------------------------------------------------- 6. wait release
def wait_release(chk: Check) -> None:
    """step() awaits futures outside the state's execute: every way into a terminal state must resolve them, otherwise
    the task running step_until_terminated() never returns (pause, then kill)."""
    prog = chk.prog
    step = prog.func('processes.Process.step')
    canon = chk.ctx.facts.analyse(step).canon
    awaited = []
    for n in ast.walk(step.node):
        if isinstance(n, ast.Await) and isinstance(n.value, (ast.Attribute, ast.Name)):
            awaited.append((canon.key(n.value), n))
    chk.floor('FUT-wait-release', len(awaited), 1)
    sut = prog.func('processes.Process.step_until_terminated')
    NOT_T = ('not self.has_terminated()', 'not self._state.is_terminal()')
    loop_ok = any(isinstance(n, ast.While) and norm(n.test) in NOT_T for n in ast.walk(prog.view(sut).node))
    # (the same loop with the test at the top of the body: ``while True: if <terminated>: return / break ; await self.step()``)
    for n in ast.walk(prog.view(sut).node):
        if isinstance(n, ast.While) and isinstance(n.test, ast.Constant) and n.test.value is True and n.body and isinstance(n.body[0], ast.If) and not n.body[0].orelse:
            t0 = n.body[0]
            leaves = len(t0.body) == 1 and isinstance(t0.body[0], (ast.Return, ast.Break)) and (not isinstance(t0.body[0], ast.Return) or t0.body[0].value is None
                                                                                                 or norm(t0.body[0].value) == 'None')
            only_exit = not any(isinstance(x, (ast.Break, ast.Return)) for st in n.body[1:] for x in ast.walk(st))
            loop_ok = loop_ok or (f'not {norm(t0.test)}' in NOT_T and leaves and only_exit)
    chk.ob('FUT-wait-release', sut, loop_ok, 'step_until_terminated() loops exactly while the process has not terminated', kind='loop-condition')
    ot = prog.func('processes.Process.on_terminated')
    # functions reachable synchronously from on_terminated (hook chains included)
    seen = {}
    stack = [ot] + [f for f in prog.overrides(prog.cls('processes.Process'), 'on_terminated')]
    while stack:
        f = stack.pop()
        if id(f.node) in seen:
            continue
        seen[id(f.node)] = f
        for g in chk.ctx.calls.summary(f).callees:
            if not g.is_async:
                stack.append(g)
    for key, node in awaited:
        resolvers = []
        for f in seen.values():
            for s in writer_sites(chk.ctx, f, [key]):
                resolvers.append((f, s))
        chk.ob('FUT-wait-release', step, bool(resolvers),
               f'the future awaited here ({key}) is resolved on every way into a terminal state (reachable from on_terminated: '
               f'{[f.short for f, _ in resolvers] or "no resolver"}); otherwise pause() then kill() leaves step_until_terminated() blocked forever',
               node=node, kind='resolver-reachable-from-termination')
        for f, s in resolvers:
            classify(chk.ctx, s)
            chk.ob('FUT-wait-release', f, s.guard in ('guarded', 'fresh'), f'the release is {s.guard} (the future may already have been resolved by play())',
                   node=s.call, kind='release-guarded')


def inflight_step_released(chk: Check, rule: str = 'FUT-wait-release') -> None:
    """The step in flight may be blocked inside the state's own execute (the WAITING step awaits the waiting future).  A
    transition made from OUTSIDE the step (fail() from an excepting callback; a direct kill) abandons that state object: the
    blocked step must be released, or the task running step_until_terminated() never returns.  Either leaving the state
    resolves the future it awaits (a guarded write reachable from the state's exit()), or every transition site that can run
    while a step is in flight interrupts the state first / is known to run with no step in flight."""
    from ..facts import falsy
    from ..fut import classify, writer_sites
    from ..rules import Contexts, call_sites
    from . import common
    prog = chk.prog
    base = prog.cls('process_states.State')
    cx = Contexts(chk.ctx)
    n = 0
    for c in prog.subclasses(base):
        ex = c.vmethods.get('execute')
        if ex is None or not ex.is_async:
            continue
        ff = chk.ctx.facts.analyse(ex)
        keys = sorted({ff.canon.key(a.value) for a in ast.walk(ex.node) if isinstance(a, ast.Await) and isinstance(a.value, (ast.Attribute, ast.Name, ast.Call))
                       and ff.canon.key(a.value).startswith('self.') and '(' not in ff.canon.key(a.value)})
        for key in keys:
            n += 1
            # functions run when the state is left: every exit() along the MRO and what they call synchronously
            seen, stack = {}, [k.vmethods['exit'] for k in c.mro_classes() if 'exit' in k.methods]
            while stack:
                g = stack.pop()
                if id(g.node) in seen:
                    continue
                seen[id(g.node)] = g
                stack += [h for h in chk.ctx.calls.summary(g).callees if not h.is_async]
            rel = [classify(chk.ctx, s_) for g in seen.values() for s_ in writer_sites(chk.ctx, g, [key])]
            released = [s_ for s_ in rel if s_.guard in ('guarded', 'fresh')]
            if rel:
                chk.ob(rule, ex, True, f'{c.name}: leaving the state resolves {key} ({rel[0].func.short}): a step blocked on it is released whoever made the transition',
                       kind=f'inflight-step-released:{c.name}', expr=key)
                for s_ in rel:
                    chk.ob(rule, s_.func, s_.guard in ('guarded', 'fresh'), f'the release on exit is {s_.guard} (on the normal way out of the state the future is already resolved: an unguarded write '
                           'raises InvalidStateError inside the transition)', node=s_.call, kind='exit-release-guarded')
                    how = s_.call.func.attr if isinstance(s_.call, ast.Call) and isinstance(s_.call.func, ast.Attribute) else ''
                    chk.ob(rule, s_.func, how != 'cancel', f'the release on exit is a {how or "write"}: a CANCELLED future raises asyncio.CancelledError in the step that awaits it -- a BaseException, '
                           'which passes every handler of step() and leaves step_until_terminated() instead of letting it return', node=s_.call, kind='exit-release-not-cancel')
                continue
            # otherwise every outside transition must know that no step is in flight, or interrupt the state first
            bad = []
            for f, call in call_sites(prog, 'transition_to'):
                if f.qualname == 'base.state_machine.StateMachineMeta.__call__' or f.name in ('transition_failed', 'step'):
                    continue
                for cname, entry in cx.contexts(f, 3):
                    if 'interrupt action run at' in cname:
                        continue
                    f2 = chk.ctx.facts.analyse(f, entry)
                    cfg2 = f2.cfg
                    intr = [m for m in cfg2.nodes if m.expr() is not None and any(isinstance(x, ast.Call) and last_name(x) == 'interrupt' for x in walk_shallow(m.expr()))]
                    for node_, fs in f2.site_facts(call):
                        if falsy(fs, 'self._stepping') or cfg2.must_pass(cfg2.entry, [node_], lambda m: m in intr, edge_ok=no_exc):
                            continue
                        bad.append((f, call, cname))
            for f, call, cname in bad[:4]:
                chk.ob(rule, f, False, f'this transition can run while a {c.name} step is blocked on {key} (context [{cname}]: no step known not to be in flight, the state is not interrupted first) '
                       f'and leaving {c.name} does not resolve that future: the process ends up terminal but step_until_terminated() never returns', node=call, kind=f'inflight-step-orphaned:{c.name}')
            if not bad:
                chk.ob(rule, ex, True, f'{c.name}: every transition made outside the step runs with no step in flight or interrupts the state first', kind=f'inflight-step-released:{c.name}', expr=key)
    chk.units['state_awaits_on_own_futures'] = n
    chk.need(n >= 1, 'no state awaits a future of its own: the in-flight release rule has nothing to examine')


def hooks_outlive_transitions(chk: Check, rule: str = 'DISP-hooks-registered') -> None:
    """The hooks that resolve the process future and notify the listeners are state-event callbacks.  They may be dropped only once no
    transition can follow, i.e. where the process is KNOWN to be terminated: one obligation per calling context of every statement that
    clears the callback table.  (``close()`` is public and not restricted to terminated processes: close(), then kill() or a failing
    callback, enters a terminal state with nobody listening -- the future stays pending, no listener is told.)"""
    from ..facts import TERMINAL_KEY
    from ..rules import Contexts, effective_writers
    prog = chk.prog
    cx = Contexts(chk.ctx)
    proc = prog.cls('processes.Process')
    n = 0
    for f, node in effective_writers(prog, '_event_callbacks'):
        if f.owner_class is None or not f.owner_class.is_subclass_of(proc) or f.name in ('__init__',):
            continue
        stmt = [m for m in ast.walk(f.node) if isinstance(m, ast.Assign) and any(t is node for t in m.targets)]
        if not stmt or not (isinstance(stmt[0].value, ast.Dict) and not stmt[0].value.keys):
            continue
        n += 1
        seen = set()
        for cname, entry in cx.contexts(f, 3):
            ff = chk.ctx.facts.analyse(f, entry)
            nodes = [m for m in ff.cfg.nodes if m.ast is stmt[0]]
            ok = bool(nodes) and all(('T', TERMINAL_KEY) in ff.at(m) for m in nodes)
            if (cname, ok) in seen:
                continue
            seen.add((cname, ok))
            chk.ob(rule, f, ok, f'the state-event hooks are dropped in context [{cname}] ' + ('where the process is known to be terminated' if ok else
                   'without the process being known to be terminated: a later kill() / fail() enters its terminal state with no hook left -- on_kill / on_except never run, the '
                   'future is never resolved and no listener is notified'), node=stmt[0], kind=f'hooks-dropped:{cname}')
    chk.ob(rule, proc.qualname, n >= 1, f'{n} statement(s) clearing the state-event callbacks examined', kind='hooks-dropped-scan', expr='_event_callbacks')
